import QsProofs.Lemmas.Holdings

/-!
# Helper lemmas for the broker lift of C02: the marks phase of `Broker.update`
-/

set_option linter.unusedSectionVars false

namespace Qs
namespace C02
open NumOps Num

section field
variable {α : Type} [Field α] [LinearOrder α] [IsStrictOrderedRing α] [FloorRing α] [NumOps α] [LawfulNumOps α]

/-! ## one mark, as a map over the dictionary -/

/-- effect of one mark of asset `a` on a stored position: price and clock only -/
def upd (a : String) (pr : α) (t : Int) (pos : Position α) : Position α :=
  if pos.asset = a then { pos with clock := t, price := pr } else pos

theorem upd_asset (a : String) (pr : α) (t : Int) (pos : Position α) :
    (upd a pr t pos).asset = pos.asset := by
  unfold upd; split <;> rfl

theorem upd_clock_le (a : String) (pr : α) (t : Int) (pos : Position α) (h : pos.clock ≤ t) :
    (upd a pr t pos).clock ≤ t := by
  unfold upd; split
  · exact le_refl _
  · exact h

theorem WF_map_upd (p : Portfolio α) (t : Int) (a : String) (pr : α) (h : WF p t) :
    WF { p with positions := p.positions.map (upd a pr t) } t := by
  refine ⟨h.clock_le, ?_, ?_⟩
  · intro x hx
    obtain ⟨y, hy, rfl⟩ := List.mem_map.mp hx
    exact upd_clock_le _ _ _ _ (h.pos_clock_le y hy)
  · show (Positions.keys (List.map (upd a pr t) p.positions)).Nodup
    have : Positions.keys (List.map (upd a pr t) p.positions) = Positions.keys p.positions := by
      unfold Positions.keys
      rw [List.map_map]
      apply List.map_congr_left
      intro x _
      exact upd_asset _ _ _ _
    rw [this]; exact h.nodup

/-- `Portfolio.mark` in the domain is a map over the dictionary that touches price and clock of the
marked asset only (identity when the asset is not held). -/
theorem mark_map_form (p : Portfolio α) (t : Int) (hwf : WF p t) (a : String) {pr : α} (hp : 0 < pr) :
    p.mark a pr t = ({ p with positions := p.positions.map (upd a pr t) }, none) := by
  obtain ⟨hmn, hms⟩ := mark_spec p t hwf a hp (le_refl t)
  cases hf : Positions.find? p.positions a with
  | none =>
    rw [hmn hf]
    have hk := Positions.find?_eq_none.mp hf
    have : p.positions.map (upd a pr t) = p.positions := by
      conv_rhs => rw [← List.map_id p.positions]
      apply List.map_congr_left
      intro x hx
      have : ¬ x.asset = a := fun e => hk (e ▸ List.mem_map.mpr ⟨x, hx, rfl⟩)
      simp [upd, this]
    rw [this]
  | some pos =>
    rw [hms pos hf]
    have hpos := Positions.find?_some hf
    have : Positions.set p.positions { pos with clock := t, price := pr }
        = p.positions.map (upd a pr t) := by
      unfold Positions.set
      apply List.map_congr_left
      intro x hx
      show (if (x.asset == pos.asset) = true then _ else x) = upd a pr t x
      unfold upd
      rw [hpos.1]
      by_cases hxa : x.asset = a
      · have hx' := Positions.find?_of_mem hwf.nodup hx
        rw [hxa, hf] at hx'
        cases hx'
        simp [hxa]
      · simp [hxa]
    rw [this]

/-! ## the broker's portfolio dictionary -/

/-- structural invariant of the broker at time `t`: portfolio ids pairwise distinct, every portfolio
well-formed with all clocks `≤ t` -/
structure BWF (b : Broker α) (t : Int) : Prop where
  ids_nodup : (b.entries.map (·.pf.id)).Nodup
  wf : ∀ e ∈ b.entries, WF e.pf t

theorem Broker.find?_some {b : Broker α} {pid : String} {e : PfEntry α}
    (h : b.find? pid = some e) : e.pf.id = pid ∧ e ∈ b.entries := by
  unfold Broker.find? at h
  exact ⟨by simpa using List.find?_some h, List.mem_of_find?_eq_some h⟩

theorem Broker.find?_of_has {b : Broker α} {pid : String} (h : pid ∈ b.entries.map (·.pf.id)) :
    ∃ e, b.find? pid = some e := by
  cases hf : b.find? pid with
  | some e => exact ⟨e, rfl⟩
  | none =>
    exfalso
    unfold Broker.find? at hf
    rw [List.find?_eq_none] at hf
    obtain ⟨x, hx, rfl⟩ := List.mem_map.mp h
    exact hf x hx (by simp)

theorem entry_eq_of_id {b : Broker α} (hnd : (b.entries.map (·.pf.id)).Nodup) {x y : PfEntry α}
    (hx : x ∈ b.entries) (hy : y ∈ b.entries) (h : x.pf.id = y.pf.id) : x = y :=
  List.inj_on_of_nodup_map hnd hx hy h

/-- effect of one mark on a broker entry -/
def updE (pid a : String) (pr : α) (t : Int) (x : PfEntry α) : PfEntry α :=
  if x.pf.id = pid then { x with pf := { x.pf with positions := x.pf.positions.map (upd a pr t) } }
  else x

theorem updE_id (pid a : String) (pr : α) (t : Int) (x : PfEntry α) :
    (updE pid a pr t x).pf.id = x.pf.id := by
  unfold updE; split <;> rfl

theorem BWF_map_updE (b : Broker α) (t : Int) (pid a : String) (pr : α) (h : BWF b t) :
    BWF { b with entries := b.entries.map (updE pid a pr t) } t := by
  constructor
  · show (List.map (·.pf.id) (List.map (updE pid a pr t) b.entries)).Nodup
    rw [List.map_map]
    have : ((fun x : PfEntry α => x.pf.id) ∘ updE pid a pr t) = (fun x : PfEntry α => x.pf.id) := by
      funext x; exact updE_id _ _ _ _ _
    rw [this]; exact h.ids_nodup
  · intro e he
    obtain ⟨x, hx, rfl⟩ := List.mem_map.mp he
    unfold updE
    split
    · exact WF_map_upd _ _ _ _ (h.wf x hx)
    · exact h.wf x hx

/-- `Broker.applyMark` in the domain, as a map over the entries -/
theorem applyMark_map_form (b : Broker α) (t : Int) (hb : BWF b t) (pid a : String) {pr : α}
    (hhas : pid ∈ b.entries.map (·.pf.id)) (hp : 0 < pr) :
    b.applyMark pid a pr t = ({ b with entries := b.entries.map (updE pid a pr t) }, none) := by
  obtain ⟨e, hf⟩ := Broker.find?_of_has hhas
  obtain ⟨hid, hmem⟩ := Broker.find?_some hf
  unfold Broker.applyMark
  rw [hf]
  simp only [mark_map_form e.pf t (hb.wf e hmem) a hp]
  unfold Broker.setPf
  congr 2
  apply List.map_congr_left
  intro x hx
  show (if (x.pf.id == e.pf.id) = true then _ else x) = updE pid a pr t x
  unfold updE
  rw [hid]
  by_cases hxp : x.pf.id = pid
  · have : x = e := entry_eq_of_id hb.ids_nodup hx hmem (hxp.trans hid.symm)
    subst this
    simp [hxp]
  · simp [hxp]

/-- a run of marks (any targets naming existing portfolios, positive prices) raises nothing and is
the composition of the per-entry maps -/
theorem runMarks_map_form (t : Int) (ms : List (String × String × α)) :
    ∀ (b : Broker α), BWF b t →
      (∀ m ∈ ms, m.1 ∈ b.entries.map (·.pf.id) ∧ 0 < m.2.2) →
      Broker.runUntilErr (fun b (m : String × String × α) => b.applyMark m.1 m.2.1 m.2.2 t) b ms
        = ({ b with entries :=
              (b.entries.map (fun x => ms.foldl (fun x m => updE m.1 m.2.1 m.2.2 t x) x)) }, none) := by
  induction ms with
  | nil =>
    intro b _ _
    simp [Broker.runUntilErr]
  | cons m ms ih =>
    intro b hb hms
    have hm := hms m (List.mem_cons_self)
    unfold Broker.runUntilErr
    simp only [applyMark_map_form b t hb m.1 m.2.1 hm.1 hm.2]
    rw [ih _ (BWF_map_updE b t m.1 m.2.1 m.2.2 hb)]
    · simp only [List.map_map, List.foldl_cons]
      rfl
    · intro m' hm'
      have := hms m' (List.mem_cons_of_mem _ hm')
      refine ⟨?_, this.2⟩
      show m'.1 ∈ List.map (·.pf.id) (List.map (updE m.1 m.2.1 m.2.2 t) b.entries)
      rw [List.map_map]
      have he : ((fun x : PfEntry α => x.pf.id) ∘ updE m.1 m.2.1 m.2.2 t)
          = (fun x : PfEntry α => x.pf.id) := by
        funext x; exact updE_id _ _ _ _ _
      rw [he]; exact this.1

/-! ## folding the marks of one update over one entry / one position -/

/-- effect of target `m` on a position stored in portfolio `i` -/
def updP (i : String) (t : Int) (pos : Position α) (m : String × String × α) : Position α :=
  if i = m.1 then upd m.2.1 m.2.2 t pos else pos

theorem updP_asset (i : String) (t : Int) (pos : Position α) (m : String × String × α) :
    (updP i t pos m).asset = pos.asset := by
  unfold updP; split
  · exact upd_asset _ _ _ _
  · rfl

theorem foldl_updE (t : Int) (i : String) (ms : List (String × String × α)) :
    ∀ (x : PfEntry α), x.pf.id = i →
      ms.foldl (fun x m => updE m.1 m.2.1 m.2.2 t x) x
        = { x with pf := { x.pf with positions :=
              (x.pf.positions.map (fun pos => ms.foldl (updP i t) pos)) } } := by
  induction ms with
  | nil =>
    intro x _
    simp
  | cons m ms ih =>
    intro x hx
    rw [List.foldl_cons, ih _ ((updE_id _ _ _ _ _).trans hx)]
    by_cases him : i = m.1
    · have h1 : updE m.1 m.2.1 m.2.2 t x
          = { x with pf := { x.pf with positions := x.pf.positions.map (upd m.2.1 m.2.2 t) } } := by
        unfold updE; rw [if_pos (hx.trans him)]
      have hl : List.map (fun pos => ms.foldl (updP i t) pos)
            (x.pf.positions.map (upd m.2.1 m.2.2 t))
          = List.map (fun pos => (m :: ms).foldl (updP i t) pos) x.pf.positions := by
        rw [List.map_map]
        apply List.map_congr_left
        intro pos _
        simp [updP, him]
      rw [h1]
      show ({ x with pf := { x.pf with positions := (List.map (fun pos => ms.foldl (updP i t) pos) (x.pf.positions.map (upd m.2.1 m.2.2 t))) } } : PfEntry α) = _
      rw [hl]
    · have h1 : updE m.1 m.2.1 m.2.2 t x = x := by
        unfold updE; rw [if_neg (fun h => him (hx.symm.trans h))]
      have hl : List.map (fun pos => ms.foldl (updP i t) pos) x.pf.positions
          = List.map (fun pos => (m :: ms).foldl (updP i t) pos) x.pf.positions := by
        apply List.map_congr_left
        intro pos _
        simp [updP, him]
      rw [h1, hl]

/-- no target addresses `(i, pos.asset)`: the position is untouched -/
theorem foldl_updP_none (i : String) (t : Int) (ms : List (String × String × α)) :
    ∀ (pos : Position α), (∀ m ∈ ms, ¬ (m.1 = i ∧ m.2.1 = pos.asset)) →
      ms.foldl (updP i t) pos = pos := by
  induction ms with
  | nil => intro pos _; rfl
  | cons m ms ih =>
    intro pos h
    have hm := h m List.mem_cons_self
    have h1 : updP i t pos m = pos := by
      unfold updP upd
      by_cases him : i = m.1
      · have : ¬ pos.asset = m.2.1 := fun e => hm ⟨him.symm, e.symm⟩
        simp [him, this]
      · simp [him]
    rw [List.foldl_cons, h1]
    exact ih pos (fun m' hm' => h m' (List.mem_cons_of_mem _ hm'))

/-- a position already carrying `(t, v)` is a fixed point when all its targets carry price `v` -/
theorem foldl_updP_fixed (i : String) (t : Int) (v : α) (ms : List (String × String × α)) :
    ∀ (pos : Position α), pos.clock = t → pos.price = v →
      (∀ m ∈ ms, m.1 = i → m.2.1 = pos.asset → m.2.2 = v) →
      ms.foldl (updP i t) pos = pos := by
  induction ms with
  | nil => intro pos _ _ _; rfl
  | cons m ms ih =>
    intro pos hc hv h
    have h1 : updP i t pos m = pos := by
      unfold updP upd
      by_cases him : i = m.1
      · by_cases ha : pos.asset = m.2.1
        · have := h m List.mem_cons_self him.symm ha.symm
          rw [if_pos him, if_pos ha, this]
          cases pos
          simp_all
        · simp [him, ha]
      · simp [him]
    rw [List.foldl_cons, h1]
    exact ih pos hc hv (fun m' hm' => h m' (List.mem_cons_of_mem _ hm'))

/-- some target addresses `(i, pos.asset)` and all that do carry price `v`: the result is `pos`
with price `v` and clock `t`, every other field unchanged -/
theorem foldl_updP_some (i : String) (t : Int) (v : α) (ms : List (String × String × α)) :
    ∀ (pos : Position α),
      (∀ m ∈ ms, m.1 = i → m.2.1 = pos.asset → m.2.2 = v) →
      (∃ m ∈ ms, m.1 = i ∧ m.2.1 = pos.asset) →
      ms.foldl (updP i t) pos = { pos with clock := t, price := v } := by
  induction ms with
  | nil => intro pos _ h; obtain ⟨m, hm, _⟩ := h; cases hm
  | cons m ms ih =>
    intro pos h hex
    rw [List.foldl_cons]
    by_cases hmatch : m.1 = i ∧ m.2.1 = pos.asset
    · have hv := h m List.mem_cons_self hmatch.1 hmatch.2
      have h1 : updP i t pos m = { pos with clock := t, price := v } := by
        unfold updP upd
        rw [if_pos hmatch.1.symm, if_pos hmatch.2.symm, hv]
      rw [h1]
      exact foldl_updP_fixed i t v ms _ rfl rfl
        (fun m' hm' => h m' (List.mem_cons_of_mem _ hm'))
    · have h1 : updP i t pos m = pos := by
        unfold updP upd
        by_cases him : i = m.1
        · have : ¬ pos.asset = m.2.1 := fun e => hmatch ⟨him.symm, e.symm⟩
          simp [him, this]
        · simp [him]
      rw [h1]
      apply ih pos (fun m' hm' => h m' (List.mem_cons_of_mem _ hm'))
      obtain ⟨m', hm', hmm⟩ := hex
      rcases List.mem_cons.mp hm' with rfl | hm'
      · exact absurd hmm hmatch
      · exact ⟨m', hm', hmm⟩

/-! ## `markTargets` -/

/-- mid price of the quote of `a` (`0` when there is none) -/
def mid (q : Quotes α) (a : String) : α :=
  match q a with
  | some (bid, ask) => (bid + ask) / 2
  | none => 0

theorem mem_markTargets (b : Broker α) (q : Quotes α) (m : String × String × α) :
    m ∈ b.markTargets q ↔
      ∃ e ∈ b.entries, ∃ pos ∈ e.pf.positions, ∃ bid ask,
        q pos.asset = some (bid, ask) ∧ m = (e.pf.id, pos.asset, (bid + ask) / 2) := by
  unfold Broker.markTargets
  simp only [List.mem_flatMap, List.mem_filterMap]
  constructor
  · rintro ⟨e, he, pos, hpos, h⟩
    refine ⟨e, he, pos, hpos, ?_⟩
    cases hq : q pos.asset with
    | none => rw [hq] at h; cases h
    | some ba =>
      obtain ⟨bid, ask⟩ := ba
      rw [hq] at h
      refine ⟨bid, ask, rfl, ?_⟩
      simp only [ofInt_eq, Int.cast_ofNat, Option.some.injEq] at h
      exact h.symm
  · rintro ⟨e, he, pos, hpos, bid, ask, hq, rfl⟩
    refine ⟨e, he, pos, hpos, ?_⟩
    rw [hq]
    simp

/-- **`markTargets`, exact form**: one entry per (portfolio, held asset that has a quote), in
dictionary order (portfolios in insertion order, assets in insertion order), with the mid price. -/
theorem markTargets_eq (b : Broker α) (q : Quotes α) :
    b.markTargets q = b.entries.flatMap (fun e =>
      (e.pf.positions.filter (fun pos => (q pos.asset).isSome)).map
        (fun pos => (e.pf.id, pos.asset, mid q pos.asset))) := by
  unfold Broker.markTargets
  congr 1
  funext e
  have h2 : (ofInt 2 : α) = 2 := by simp
  simp only [h2]
  induction e.pf.positions with
  | nil => rfl
  | cons pos ps ih =>
    rw [List.filterMap_cons, List.filter_cons]
    cases hq : q pos.asset with
    | none => simpa using ih
    | some ba =>
      obtain ⟨bid, ask⟩ := ba
      simp only [Option.isSome_some, if_true, List.map_cons, ih, mid, hq]

/-- when every held asset has a quote: exactly one target per (portfolio, held asset) -/
theorem markTargets_eq_of_all_quoted (b : Broker α) (q : Quotes α)
    (hall : ∀ e ∈ b.entries, ∀ pos ∈ e.pf.positions, (q pos.asset).isSome = true) :
    b.markTargets q = b.entries.flatMap (fun e =>
      e.pf.positions.map (fun pos => (e.pf.id, pos.asset, mid q pos.asset))) := by
  rw [markTargets_eq]
  apply List.flatMap_congr
  intro e he
  congr 1
  rw [List.filter_eq_self]
  exact hall e he

/-! ## the marks phase of `update` -/

/-- a position after the marks of an update with quotes `q` at time `t` -/
def markPos (q : Quotes α) (t : Int) (pos : Position α) : Position α :=
  match q pos.asset with
  | some (bid, ask) => { pos with clock := t, price := (bid + ask) / 2 }
  | none => pos

def markEntry (q : Quotes α) (t : Int) (x : PfEntry α) : PfEntry α :=
  { x with pf := { x.pf with positions := x.pf.positions.map (markPos q t) } }

theorem foldl_markTargets (b : Broker α) (q : Quotes α) (t : Int) (x : PfEntry α)
    (hx : x ∈ b.entries) :
    (b.markTargets q).foldl (fun x m => updE m.1 m.2.1 m.2.2 t x) x = markEntry q t x := by
  rw [foldl_updE t x.pf.id _ x rfl]
  unfold markEntry
  suffices hl : List.map (fun pos => (b.markTargets q).foldl (updP x.pf.id t) pos) x.pf.positions
      = List.map (markPos q t) x.pf.positions by rw [hl]
  apply List.map_congr_left
  intro pos hpos
  show (b.markTargets q).foldl (updP x.pf.id t) pos = markPos q t pos
  have hval : ∀ m ∈ b.markTargets q, m.1 = x.pf.id → m.2.1 = pos.asset →
      ∃ bid ask, q pos.asset = some (bid, ask) ∧ m.2.2 = (bid + ask) / 2 := by
    intro m hm _ h2
    obtain ⟨e, _, pos', _, bid, ask, hq, rfl⟩ := (mem_markTargets b q m).mp hm
    simp only at h2
    exact ⟨bid, ask, h2 ▸ hq, rfl⟩
  unfold markPos
  cases hq : q pos.asset with
  | none =>
    apply foldl_updP_none
    rintro m hm ⟨h1, h2⟩
    obtain ⟨bid, ask, hq', _⟩ := hval m hm h1 h2
    rw [hq] at hq'; cases hq'
  | some ba =>
    obtain ⟨bid, ask⟩ := ba
    apply foldl_updP_some
    · intro m hm h1 h2
      obtain ⟨bid', ask', hq', hv⟩ := hval m hm h1 h2
      rw [hq] at hq'; cases hq'
      exact hv
    · exact ⟨(x.pf.id, pos.asset, (bid + ask) / 2),
        (mem_markTargets b q _).mpr ⟨x, hx, pos, hpos, bid, ask, hq, rfl⟩, rfl, rfl⟩

/-- **Marks phase of `update`**: with pairwise distinct portfolio ids, well-formed portfolios whose
clocks are `≤ t`, and a positive mid for every quoted held asset, the marks raise nothing and the
resulting broker is the old one with every quoted held position re-priced at the mid and stamped `t`. -/
theorem marks_phase (b : Broker α) (t : Int) (q : Quotes α) (hb : BWF b t)
    (hpos : ∀ e ∈ b.entries, ∀ pos ∈ e.pf.positions, ∀ bid ask,
      q pos.asset = some (bid, ask) → 0 < (bid + ask) / 2) :
    Broker.runUntilErr (fun b (m : String × String × α) => b.applyMark m.1 m.2.1 m.2.2 t)
        { b with clock := t } (Broker.markTargets { b with clock := t } q)
      = ({ b with clock := t, entries := b.entries.map (markEntry q t) }, none) := by
  have hb0 : BWF { b with clock := t } t := ⟨hb.ids_nodup, hb.wf⟩
  rw [runMarks_map_form t _ _ hb0]
  · congr 2
    apply List.map_congr_left
    intro x hx
    exact foldl_markTargets { b with clock := t } q t x hx
  · intro m hm
    obtain ⟨e, he, pos, hp, bid, ask, hq, rfl⟩ := (mem_markTargets _ q m).mp hm
    exact ⟨List.mem_map.mpr ⟨e, he, rfl⟩, hpos e he pos hp bid ask hq⟩

/-! ## frame: what the order phase of `update` cannot touch -/

/-- the position stored for asset `a` in portfolio `pid` -/
def posOf (b : Broker α) (pid a : String) : Option (Position α) :=
  (b.find? pid).bind (fun e => e.pf.positions.find? a)

theorem updatePrice_asset (p : Position α) (pr : α) (t : Int) :
    (p.updatePrice pr t).1.asset = p.asset := by
  unfold Position.updatePrice
  split
  · rfl
  · split <;> rfl

theorem transact_asset (p : Position α) (t : Txn α) : (p.transact t).1.asset = p.asset := by
  unfold Position.transact
  by_cases hq : t.qty = 0
  · rw [if_pos hq]
  · rw [if_neg hq]
    have h := updatePrice_asset p t.price t.time
    rcases hu : p.updatePrice t.price t.time with ⟨p1, _ | e⟩
    · rw [hu] at h
      dsimp only at h ⊢
      split <;> exact h
    · rw [hu] at h; exact h

/-- a fill never touches the dictionary entry of another asset (error or not) -/
theorem transactPosition_find?_ne (ps : Positions α) (t : Txn α) {a : String} (ha : a ≠ t.asset) :
    Positions.find? (Positions.transactPosition ps t).1 a = Positions.find? ps a := by
  unfold Positions.transactPosition
  cases hf : Positions.find? ps t.asset with
  | some p =>
    have hp := (Positions.find?_some hf).1
    have hasset : (p.transact t).1.asset = t.asset := (transact_asset p t).trans hp
    simp only
    split
    · next p' e heq =>
      have : p'.asset = t.asset := by rw [← hasset, heq]
      exact Positions.find?_set_ne ps p' (this ▸ ha)
    · next p' heq =>
      have : p'.asset = t.asset := by rw [← hasset, heq]
      split
      · exact Positions.find?_erase_ne ps ha
      · exact Positions.find?_set_ne ps p' (this ▸ ha)
  | none =>
    simp only
    split
    · rfl
    · exact Positions.find?_append_ne ps _ (by rw [Position.openFrom_asset]; exact ha)

theorem transactAsset_frame (p : Portfolio α) (t : Txn α) :
    (p.transactAsset t).1.id = p.id ∧
    ∀ a, a ≠ t.asset →
      Positions.find? (p.transactAsset t).1.positions a = Positions.find? p.positions a := by
  unfold Portfolio.transactAsset
  by_cases hc : t.time < p.clock
  · rw [if_pos hc]; exact ⟨rfl, fun _ _ => rfl⟩
  · rw [if_neg hc]
    have h := fun a (ha : a ≠ t.asset) => transactPosition_find?_ne p.positions t ha
    dsimp only
    rcases htp : Positions.transactPosition p.positions t with ⟨ps, _ | e⟩
    · rw [htp] at h; exact ⟨rfl, h⟩
    · rw [htp] at h; exact ⟨rfl, h⟩

theorem Broker.find?_setPf_ne (b : Broker α) (p : Portfolio α) {pid : String} (h : pid ≠ p.id) :
    (b.setPf p).find? pid = b.find? pid := by
  unfold Broker.find? Broker.setPf
  simp only
  induction b.entries with
  | nil => rfl
  | cons x xs ih =>
    rw [List.map_cons, List.find?_cons, List.find?_cons, ih]
    by_cases hx : x.pf.id = p.id
    · have h1 : (x.pf.id == p.id) = true := by rw [hx]; exact beq_self_eq_true _
      have h2 : (p.id == pid) = false := by rw [beq_eq_false_iff_ne]; exact fun e => h e.symm
      have h3 : (x.pf.id == pid) = false := by rw [hx]; exact h2
      rw [h1, if_pos rfl]
      show (match p.id == pid with | true => _ | false => _) = _
      rw [h2, h3]
    · have h1 : (x.pf.id == p.id) = false := by rw [beq_eq_false_iff_ne]; exact hx
      rw [h1, if_neg (by decide)]

theorem find?_setPf_self_aux (p : Portfolio α) (l : List (PfEntry α)) (e : PfEntry α)
    (h : List.find? (fun e : PfEntry α => e.pf.id == p.id) l = some e) :
    List.find? (fun e : PfEntry α => e.pf.id == p.id)
      (l.map (fun x => if x.pf.id == p.id then { x with pf := p } else x))
      = some { e with pf := p } := by
  induction l with
  | nil => cases h
  | cons x xs ih =>
    rw [List.find?_cons] at h
    rw [List.map_cons, List.find?_cons]
    by_cases hx : x.pf.id = p.id
    · have h1 : (x.pf.id == p.id) = true := by rw [hx]; exact beq_self_eq_true _
      rw [h1] at h
      cases h
      rw [h1, if_pos rfl]
      show (match p.id == p.id with | true => _ | false => _) = _
      rw [beq_self_eq_true]
    · have h1 : (x.pf.id == p.id) = false := by rw [beq_eq_false_iff_ne]; exact hx
      rw [h1] at h
      rw [h1, if_neg (by decide), h1]
      exact ih h

theorem Broker.find?_setPf_self (b : Broker α) (p : Portfolio α) {e : PfEntry α}
    (h : b.find? p.id = some e) : (b.setPf p).find? p.id = some { e with pf := p } :=
  find?_setPf_self_aux p b.entries e h

/-- applying a transaction to portfolio `pid'` leaves every other (portfolio, asset) slot alone -/
theorem applyTxn_frame (b : Broker α) (pid' : String) (t : Txn α) (pid a : String)
    (h : ¬ (pid = pid' ∧ a = t.asset)) : posOf (b.applyTxn pid' t).1 pid a = posOf b pid a := by
  unfold Broker.applyTxn
  cases hf : b.find? pid' with
  | none => rfl
  | some e =>
    obtain ⟨hid, hfr⟩ := transactAsset_frame e.pf t
    have heid := (Broker.find?_some hf).1
    have key : posOf (b.setPf (e.pf.transactAsset t).1) pid a = posOf b pid a := by
      unfold posOf
      by_cases hp : pid = pid'
      · subst hp
        have ha : a ≠ t.asset := fun e => h ⟨rfl, e⟩
        have hf' : b.find? (e.pf.transactAsset t).1.id = some e := by rw [hid, heid]; exact hf
        have := Broker.find?_setPf_self b _ hf'
        rw [hid, heid] at this
        rw [this, hf]
        exact hfr a ha
      · rw [Broker.find?_setPf_ne b _ (by rw [hid, heid]; exact hp)]
    simp only
    split
    · next pf err heq =>
      have : pf = (e.pf.transactAsset t).1 := by rw [heq]
      rw [this]; exact key
    · next pf heq =>
      have : pf = (e.pf.transactAsset t).1 := by rw [heq]
      rw [this]; exact key

theorem makeTxn_asset (b : Broker α) (q : Quotes α) (o : Order) (t : Txn α)
    (h : b.makeTxn q o = .ok t) : t.asset = o.asset := by
  unfold Broker.makeTxn at h
  split at h
  · cases h
  · cases h; rfl

theorem executeOrder_frame (b : Broker α) (q : Quotes α) (pid' : String) (o : Order)
    (pid a : String) (h : ¬ (pid = pid' ∧ a = o.asset)) :
    posOf (b.executeOrder q pid' o).1 pid a = posOf b pid a := by
  unfold Broker.executeOrder
  cases hm : b.makeTxn q o with
  | error e => rfl
  | ok t =>
    have := makeTxn_asset b q o t hm
    exact applyTxn_frame b pid' t pid a (this ▸ h)

theorem runOrders_frame (q : Quotes α) (pid a : String) (batch : List (String × Order)) :
    ∀ (b : Broker α), (∀ x ∈ batch, ¬ (pid = x.1 ∧ a = x.2.asset)) →
      posOf (Broker.runUntilErr (fun b (x : String × Order) => b.executeOrder q x.1 x.2) b batch).1
        pid a = posOf b pid a := by
  induction batch with
  | nil => intro b _; rfl
  | cons x xs ih =>
    intro b h
    have hx := executeOrder_frame b q x.1 x.2 pid a (h x List.mem_cons_self)
    unfold Broker.runUntilErr
    split
    · next b' e heq =>
      have : b' = (b.executeOrder q x.1 x.2).1 := by rw [heq]
      rw [this]; exact hx
    · next b' heq =>
      have : b' = (b.executeOrder q x.1 x.2).1 := by rw [heq]
      rw [ih b' (fun y hy => h y (List.mem_cons_of_mem _ hy)), this]
      exact hx

theorem posOf_clearQueues (b : Broker α) (pid a : String) :
    posOf b.clearQueues pid a = posOf b pid a := by
  unfold posOf Broker.clearQueues Broker.find?
  simp only [List.find?_map]
  have : ((fun e : PfEntry α => e.pf.id == pid) ∘ fun e : PfEntry α => { e with queue := [] })
      = fun e : PfEntry α => e.pf.id == pid := by
    funext e; rfl
  rw [this]
  cases List.find? (fun e : PfEntry α => e.pf.id == pid) b.entries <;> rfl

theorem markPos_asset (q : Quotes α) (t : Int) (pos : Position α) :
    (markPos q t pos).asset = pos.asset := by
  unfold markPos; split <;> rfl

theorem posOf_marked (b : Broker α) (q : Quotes α) (t : Int) (pid a : String) :
    posOf { b with clock := t, entries := b.entries.map (markEntry q t) } pid a
      = (posOf b pid a).map (markPos q t) := by
  unfold posOf Broker.find?
  simp only [List.find?_map]
  have : ((fun e : PfEntry α => e.pf.id == pid) ∘ markEntry q t)
      = fun e : PfEntry α => e.pf.id == pid := by
    funext e; rfl
  rw [this]
  cases List.find? (fun e : PfEntry α => e.pf.id == pid) b.entries with
  | none => rfl
  | some e =>
    show Positions.find? (List.map (markPos q t) e.pf.positions) a
      = (Positions.find? e.pf.positions a).map (markPos q t)
    unfold Positions.find?
    rw [List.find?_map]
    have : ((fun p : Position α => p.asset == a) ∘ markPos q t)
        = fun p : Position α => p.asset == a := by
      funext p; simp [markPos_asset]
    rw [this]

theorem drained_marked (b : Broker α) (q : Quotes α) (t : Int) :
    Broker.drained { b with clock := t, entries := b.entries.map (markEntry q t) } = b.drained := by
  unfold Broker.drained
  simp only [List.flatMap_map]
  rfl

theorem mem_sellsFirst {β : Type} (isSell : β → Bool) (l : List β) (x : β) :
    x ∈ sellsFirst isSell l ↔ x ∈ l := by
  unfold sellsFirst
  rw [List.mem_append, List.mem_filter, List.mem_filter]
  cases isSell x <;> simp

/-- `update` = (marks as a map) then, if the exchange is open, the order phase -/
theorem update_eq (b : Broker α) (t : Int) (q : Quotes α) (hb : BWF b t)
    (hpos : ∀ e ∈ b.entries, ∀ pos ∈ e.pf.positions, ∀ bid ask,
      q pos.asset = some (bid, ask) → 0 < (bid + ask) / 2) :
    b.update t q =
      if isOpen t then
        Broker.runUntilErr (fun b (x : String × Order) => b.executeOrder q x.1 x.2)
          (Broker.clearQueues { b with clock := t, entries := b.entries.map (markEntry q t) })
          (sellsFirst (fun (x : String × Order) => x.2.isSell)
            (Broker.drained { b with clock := t, entries := b.entries.map (markEntry q t) }))
      else ({ b with clock := t, entries := b.entries.map (markEntry q t) }, none) := by
  unfold Broker.update
  dsimp only
  rw [marks_phase b t q hb hpos]

/-- the target keys `(portfolio, asset)` are pairwise distinct: one target per slot -/
theorem markTargets_keys_nodup (b : Broker α) (q : Quotes α) (t : Int) (hb : BWF b t) :
    ((b.markTargets q).map (fun m => (m.1, m.2.1))).Nodup := by
  rw [markTargets_eq, List.map_flatMap]
  rw [List.nodup_flatMap]
  constructor
  · intro e he
    rw [List.map_map]
    have hk := (hb.wf e he).nodup
    unfold Positions.keys at hk
    have hf : (List.map (·.asset) (e.pf.positions.filter (fun pos => (q pos.asset).isSome))).Nodup :=
      (List.filter_sublist.map _).nodup hk
    have : List.map ((fun m : String × String × α => (m.1, m.2.1)) ∘
          fun pos : Position α => (e.pf.id, pos.asset, mid q pos.asset))
        (e.pf.positions.filter (fun pos => (q pos.asset).isSome))
        = List.map (fun a => (e.pf.id, a))
          (List.map (·.asset) (e.pf.positions.filter (fun pos => (q pos.asset).isSome))) := by
      rw [List.map_map]; rfl
    rw [this]
    exact hf.map (fun a b h => (Prod.mk.inj h).2)
  · have hids := hb.ids_nodup
    rw [List.nodup_iff_pairwise_ne, List.pairwise_map] at hids
    refine hids.imp ?_
    intro e1 e2 hne x h1 h2
    obtain ⟨m1, _, rfl⟩ := List.mem_map.mp h1
    obtain ⟨m2, hm2, heq⟩ := List.mem_map.mp h2
    rename_i hm1
    obtain ⟨p1, _, rfl⟩ := List.mem_map.mp hm1
    obtain ⟨p2, _, rfl⟩ := List.mem_map.mp hm2
    exact hne (Prod.mk.inj heq).1.symm

end field
end C02
end Qs
