import QsProofs.Inst
import QsModel.Market

/-!
# Lemmas for C06 — the market-data pipeline (`Qs.expandBar`, `Qs.ffill`, `Qs.bidAskFrame`,
`Qs.padLookup`, `Qs.barLookup`), the data handler and the memo table

The value type `α` is generic: the only arithmetic is inside `expandBar`'s adjusted open, which stays opaque
(the theorems say *which row's value* is returned).
-/

set_option linter.unusedSectionVars false

namespace Qs

/-! ## Specification predicates (about an arbitrary list of rows, in any order) -/

/-- `r` is the latest *observed* (non-missing) row at or before `t` -/
def IsLatest {α : Type} (rows : List (Row α)) (t : Int) (r : Row α) : Prop :=
  r ∈ rows ∧ r.time ≤ t ∧ r.val.isSome ∧
    ∀ r' ∈ rows, r'.time ≤ t → r'.val.isSome → r'.time ≤ r.time

/-- no row at or before `t` carries a value -/
def NoneObserved {α : Type} (rows : List (Row α)) (t : Int) : Prop :=
  ∀ r ∈ rows, r.time ≤ t → r.val = none

/-- scan of a sorted row list: the forward-fill carry after consuming every row with time `≤ t` -/
def scan {α : Type} (t : Int) : Option α → List (Row α) → Option α
  | c, [] => c
  | c, r :: rs => if r.time ≤ t then scan t (r.val.or c) rs else c

section
variable {α : Type} [Add α] [Sub α] [Mul α] [Div α] [Neg α] [NumOps α]

/-! ## `ffill` + `padLookup` = `scan` -/

theorem tw_ffill_last (t : Int) (tm : Int) (v : Option α) (rs : List (Row α)) :
    (((ffill v rs).takeWhile (fun r => decide (r.time ≤ t))).getLast?.getD ⟨tm, v⟩).val = scan t v rs := by
  induction rs generalizing tm v with
  | nil => simp [ffill, scan]
  | cons s ss ih =>
    simp only [ffill, scan]
    by_cases hs : s.time ≤ t
    · simp only [List.takeWhile_cons, hs, decide_true, if_true, List.getLast?_cons, Option.getD_some]
      exact ih s.time (s.val.or v)
    · simp [hs]

theorem pad_ffill_eq_scan (t : Int) (c : Option α) (r : Row α) (rs : List (Row α)) :
    padLookup (ffill c (r :: rs)) t = if r.time ≤ t then scan t c (r :: rs) else none := by
  simp only [padLookup, ffill]
  by_cases h : r.time ≤ t
  · simp only [List.takeWhile_cons, h, decide_true, if_true, List.getLast?_cons, Option.bind_some, scan]
    exact tw_ffill_last t r.time (r.val.or c) rs
  · simp [h]

/-- On a strictly time-increasing list the scan returns the value of the latest observed row. -/
theorem scan_spec (t : Int) (l : List (Row α)) (hs : l.Pairwise (fun a b => a.time < b.time)) :
    ∀ c : Option α,
      (∀ r, IsLatest l t r → scan t c l = r.val) ∧ (NoneObserved l t → scan t c l = c) := by
  induction l with
  | nil =>
    intro c
    exact ⟨fun r h => absurd h.1 (by simp), fun _ => rfl⟩
  | cons a as ih =>
    intro c
    have hs' := (List.pairwise_cons.mp hs)
    have iha := ih hs'.2
    constructor
    · intro r ⟨hmem, hrt, hsome, hmax⟩
      by_cases hat : a.time ≤ t
      · simp only [scan, hat, if_true]
        rcases List.mem_cons.mp hmem with rfl | hin
        · have hnone : NoneObserved as t := by
            intro r' hr' hr't
            cases hv : r'.val with
            | none => rfl
            | some x =>
              have h1 := hmax r' (List.mem_cons_of_mem _ hr') hr't (by simp [hv])
              have h2 := hs'.1 r' hr'
              omega
          rw [(iha (r.val.or c)).2 hnone]
          cases h : r.val with
          | none => simp [h] at hsome
          | some x => simp
        · have : IsLatest as t r := ⟨hin, hrt, hsome, fun r' hr' => hmax r' (List.mem_cons_of_mem _ hr')⟩
          exact (iha _).1 r this
      · exfalso
        rcases List.mem_cons.mp hmem with rfl | hin
        · exact hat hrt
        · have := hs'.1 r hin; omega
    · intro hnone
      by_cases hat : a.time ≤ t
      · simp only [scan, hat, if_true]
        have ha : a.val = none := hnone a (List.mem_cons_self ..) hat
        rw [(iha _).2 (fun r hr => hnone r (List.mem_cons_of_mem _ hr))]
        simp [ha]
      · simp [scan, hat]

theorem isLatest_congr {l l' : List (Row α)} (h : ∀ r, r ∈ l ↔ r ∈ l') (t : Int) (r : Row α) :
    IsLatest l t r ↔ IsLatest l' t r := by
  unfold IsLatest
  constructor
  · rintro ⟨a, b, c, d⟩; exact ⟨(h r).mp a, b, c, fun r' hr' => d r' ((h r').mpr hr')⟩
  · rintro ⟨a, b, c, d⟩; exact ⟨(h r).mpr a, b, c, fun r' hr' => d r' ((h r').mp hr')⟩

/-- every row list either has a latest observed row at or before `t`, or has none observed -/
theorem latest_or_none (rows : List (Row α)) (t : Int) :
    (∃ r, IsLatest rows t r) ∨ NoneObserved rows t := by
  induction rows with
  | nil => exact Or.inr (fun r h => absurd h (by simp))
  | cons a as ih =>
    by_cases ha : a.time ≤ t ∧ a.val.isSome
    · rcases ih with ⟨r, hr⟩ | hn
      · by_cases hcmp : r.time ≤ a.time
        · refine Or.inl ⟨a, List.mem_cons_self .., ha.1, ha.2, ?_⟩
          intro r' hr' h1 h2
          rcases List.mem_cons.mp hr' with rfl | hin
          · exact Int.le_refl _
          · have := hr.2.2.2 r' hin h1 h2; omega
        · refine Or.inl ⟨r, List.mem_cons_of_mem _ hr.1, hr.2.1, hr.2.2.1, ?_⟩
          intro r' hr' h1 h2
          rcases List.mem_cons.mp hr' with rfl | hin
          · omega
          · exact hr.2.2.2 r' hin h1 h2
      · refine Or.inl ⟨a, List.mem_cons_self .., ha.1, ha.2, ?_⟩
        intro r' hr' h1 h2
        rcases List.mem_cons.mp hr' with rfl | hin
        · exact Int.le_refl _
        · have := hn r' hin h1; simp [this] at h2
    · rcases ih with ⟨r, hr⟩ | hn
      · refine Or.inl ⟨r, List.mem_cons_of_mem _ hr.1, hr.2.1, hr.2.2.1, ?_⟩
        intro r' hr' h1 h2
        rcases List.mem_cons.mp hr' with rfl | hin
        · exact absurd ⟨h1, h2⟩ ha
        · exact hr.2.2.2 r' hin h1 h2
      · refine Or.inr ?_
        intro r' hr' h1
        rcases List.mem_cons.mp hr' with rfl | hin
        · cases hv : r'.val with
          | none => rfl
          | some x => exact absurd ⟨h1, by simp [hv]⟩ ha
        · exact hn r' hin h1

/-- the two cases exclude each other -/
theorem not_latest_and_none {rows : List (Row α)} {t : Int} {r : Row α}
    (h : IsLatest rows t r) (hn : NoneObserved rows t) : False := by
  have := hn r h.1 h.2.1
  have h3 := h.2.2.1
  rw [this] at h3
  simp at h3

/-! ## The expanded rows of day-sorted bars are strictly increasing in time -/

/-- the rows of one bar: open at 14:30, close at 21:00 of its day -/
theorem mem_expandBar {adjust : Bool} {b : Bar α} {r : Row α} (h : r ∈ expandBar adjust b) :
    r.time = b.day * 86400 + OPEN ∨ r.time = b.day * 86400 + CLOSE := by
  simp only [expandBar, List.mem_cons, List.not_mem_nil, or_false] at h
  rcases h with rfl | rfl
  · exact Or.inl rfl
  · exact Or.inr rfl

theorem expandBar_times (adjust : Bool) (b : Bar α) :
    ∃ o c, expandBar adjust b = [⟨b.day * 86400 + OPEN, o⟩, ⟨b.day * 86400 + CLOSE, c⟩] :=
  ⟨_, _, rfl⟩

theorem expandBar_false (b : Bar α) :
    expandBar false b = [⟨b.day * 86400 + OPEN, b.open_⟩, ⟨b.day * 86400 + CLOSE, b.close⟩] := rfl

theorem expandBar_true (b : Bar α) :
    expandBar true b =
      [⟨b.day * 86400 + OPEN, b.adj.bind fun a => b.close.bind fun c => b.open_.bind fun o => some ((a / c) * o)⟩,
       ⟨b.day * 86400 + CLOSE, b.adj⟩] := rfl

theorem expand_strict (adjust : Bool) (l : List (Bar α)) (h : l.Pairwise (fun a b => a.day < b.day)) :
    (l.flatMap (expandBar adjust)).Pairwise (fun a b => a.time < b.time) := by
  induction l with
  | nil => simp
  | cons a as ih =>
    have h' := List.pairwise_cons.mp h
    rw [List.flatMap_cons, List.pairwise_append]
    refine ⟨?_, ih h'.2, ?_⟩
    · simp only [expandBar, List.pairwise_cons, List.mem_cons, List.not_mem_nil, or_false,
        forall_eq, List.Pairwise.nil, and_true, IsEmpty.forall_iff, implies_true, OPEN, CLOSE]
      omega
    · intro x hx y hy
      obtain ⟨b, hb, hyb⟩ := List.mem_flatMap.mp hy
      have hd := h'.1 b hb
      have hx' := mem_expandBar hx
      have hy' := mem_expandBar hyb
      simp only [OPEN, CLOSE] at hx' hy'
      omega

theorem sortedBars_strict (bars : List (Bar α)) (hd : bars.Pairwise (fun a b => a.day ≠ b.day)) :
    (bars.mergeSort barLe).Pairwise (fun a b => a.day < b.day) := by
  have hp : (bars.mergeSort barLe).Pairwise (fun a b => a.day ≠ b.day) :=
    List.Perm.pairwise (R := fun a b => a.day ≠ b.day) (List.mergeSort_perm bars barLe).symm hd
      (fun h => Ne.symm h)
  have hs : (bars.mergeSort barLe).Pairwise (fun a b => barLe a b = true) :=
    List.pairwise_mergeSort
      (fun a b c hab hbc => by simp only [barLe, decide_eq_true_eq] at *; omega)
      (fun a b => by simp only [barLe, Bool.or_eq_true, decide_eq_true_eq]; omega) bars
  have := hp.and hs
  exact this.imp (fun {a b} ⟨h1, h2⟩ => by simp only [barLe, decide_eq_true_eq] at h2; omega)

/-- the frame before forward fill: strictly increasing in time -/
theorem sortedRows_strict (adjust : Bool) (bars : List (Bar α))
    (hd : bars.Pairwise (fun a b => a.day ≠ b.day)) :
    ((bars.mergeSort barLe).flatMap (expandBar adjust)).Pairwise (fun a b => a.time < b.time) :=
  expand_strict adjust _ (sortedBars_strict bars hd)

theorem mem_sortedRows (adjust : Bool) (bars : List (Bar α)) (r : Row α) :
    r ∈ (bars.mergeSort barLe).flatMap (expandBar adjust) ↔ r ∈ bars.flatMap (expandBar adjust) := by
  simp only [List.mem_flatMap, List.mem_mergeSort]

/-! ## `barLookup` = the latest observed expanded row -/

theorem barLookup_latest (adjust : Bool) (bars : List (Bar α)) (t : Int)
    (hd : bars.Pairwise (fun a b => a.day ≠ b.day)) (r : Row α)
    (h : IsLatest (bars.flatMap (expandBar adjust)) t r) : barLookup adjust bars t = r.val := by
  unfold barLookup bidAskFrame
  have hs := sortedRows_strict adjust bars hd
  have h' : IsLatest ((bars.mergeSort barLe).flatMap (expandBar adjust)) t r :=
    (isLatest_congr (mem_sortedRows adjust bars) t r).mpr h
  cases hl : (bars.mergeSort barLe).flatMap (expandBar adjust) with
  | nil => rw [hl] at h'; exact absurd h'.1 (by simp)
  | cons a as =>
    rw [hl] at hs h'
    rw [pad_ffill_eq_scan]
    have hat : a.time ≤ t := by
      rcases List.mem_cons.mp h'.1 with rfl | hin
      · exact h'.2.1
      · have := (List.pairwise_cons.mp hs).1 r hin; have := h'.2.1; omega
    simp only [hat, if_true]
    exact ((scan_spec t (a :: as) hs) none).1 r h'

theorem barLookup_noneObserved (adjust : Bool) (bars : List (Bar α)) (t : Int)
    (hd : bars.Pairwise (fun a b => a.day ≠ b.day))
    (h : NoneObserved (bars.flatMap (expandBar adjust)) t) : barLookup adjust bars t = none := by
  unfold barLookup bidAskFrame
  have hs := sortedRows_strict adjust bars hd
  have h' : NoneObserved ((bars.mergeSort barLe).flatMap (expandBar adjust)) t :=
    fun r hr => h r ((mem_sortedRows adjust bars r).mp hr)
  cases hl : (bars.mergeSort barLe).flatMap (expandBar adjust) with
  | nil => simp [ffill, padLookup]
  | cons a as =>
    rw [hl] at hs h'
    rw [pad_ffill_eq_scan]
    split
    · exact ((scan_spec t (a :: as) hs) none).2 h'
    · rfl

/-- no distinctness needed: if every row is later than `t`, the pad lookup finds nothing -/
theorem barLookup_before (adjust : Bool) (bars : List (Bar α)) (t : Int)
    (h : ∀ b ∈ bars, t < b.day * 86400 + OPEN) : barLookup adjust bars t = none := by
  unfold barLookup bidAskFrame
  cases hl : (bars.mergeSort barLe).flatMap (expandBar adjust) with
  | nil => simp [ffill, padLookup]
  | cons a as =>
    rw [pad_ffill_eq_scan]
    have ha : a ∈ bars.flatMap (expandBar adjust) := by
      rw [← mem_sortedRows, hl]; exact List.mem_cons_self ..
    obtain ⟨b, hb, hab⟩ := List.mem_flatMap.mp ha
    have h1 := h b hb
    have h2 := mem_expandBar hab
    have : ¬ a.time ≤ t := by
      simp only [OPEN, CLOSE] at h1 h2
      omega
    simp [this]

/-- the answer depends only on the *set* of expanded rows dated at or before `t` -/
theorem barLookup_rows_causal (adjust adjust' : Bool) (bars bars' : List (Bar α)) (t : Int)
    (hd : bars.Pairwise (fun a b => a.day ≠ b.day)) (hd' : bars'.Pairwise (fun a b => a.day ≠ b.day))
    (h : ∀ r, (r ∈ bars.flatMap (expandBar adjust) ∧ r.time ≤ t) ↔
              (r ∈ bars'.flatMap (expandBar adjust') ∧ r.time ≤ t)) :
    barLookup adjust bars t = barLookup adjust' bars' t := by
  rcases latest_or_none (bars.flatMap (expandBar adjust)) t with ⟨r, hr⟩ | hn
  · have hr' : IsLatest (bars'.flatMap (expandBar adjust')) t r :=
      ⟨((h r).mp ⟨hr.1, hr.2.1⟩).1, hr.2.1, hr.2.2.1,
        fun r' hm h1 h2 => hr.2.2.2 r' ((h r').mpr ⟨hm, h1⟩).1 h1 h2⟩
    rw [barLookup_latest adjust bars t hd r hr, barLookup_latest adjust' bars' t hd' r hr']
  · have hn' : NoneObserved (bars'.flatMap (expandBar adjust')) t :=
      fun r hm h1 => hn r ((h r).mpr ⟨hm, h1⟩).1 h1
    rw [barLookup_noneObserved adjust bars t hd hn, barLookup_noneObserved adjust' bars' t hd' hn']

/-- per-bar causality: only bars whose open is at or before `t` matter -/
theorem barLookup_bars_causal (adjust : Bool) (bars bars' : List (Bar α)) (t : Int)
    (hd : bars.Pairwise (fun a b => a.day ≠ b.day)) (hd' : bars'.Pairwise (fun a b => a.day ≠ b.day))
    (h : ∀ b, (b ∈ bars ∧ b.day * 86400 + OPEN ≤ t) ↔ (b ∈ bars' ∧ b.day * 86400 + OPEN ≤ t)) :
    barLookup adjust bars t = barLookup adjust bars' t := by
  apply barLookup_rows_causal adjust adjust bars bars' t hd hd'
  have key : ∀ (l l' : List (Bar α)),
      (∀ b, (b ∈ l ∧ b.day * 86400 + OPEN ≤ t) → (b ∈ l' ∧ b.day * 86400 + OPEN ≤ t)) →
      ∀ r, (r ∈ l.flatMap (expandBar adjust) ∧ r.time ≤ t) →
           (r ∈ l'.flatMap (expandBar adjust) ∧ r.time ≤ t) := by
    intro l l' hl r ⟨hr, hrt⟩
    obtain ⟨b, hb, hrb⟩ := List.mem_flatMap.mp hr
    have h2 := mem_expandBar hrb
    have hbt : b.day * 86400 + OPEN ≤ t := by
      simp only [OPEN, CLOSE] at h2 ⊢
      omega
    exact ⟨List.mem_flatMap.mpr ⟨b, (hl b ⟨hb, hbt⟩).1, hrb⟩, hrt⟩
  intro r
  exact ⟨key bars bars' (fun b => (h b).mp) r, key bars' bars (fun b => (h b).mpr) r⟩

/-- the latest bar opened at or before `t` decides: its open row before its close time, else its close row —
provided that row is observed -/
theorem barLookup_at_bar (adjust : Bool) (bars : List (Bar α)) (t : Int)
    (hd : bars.Pairwise (fun a b => a.day ≠ b.day)) (b : Bar α) (hb : b ∈ bars)
    (hbt : b.day * 86400 + OPEN ≤ t)
    (hmax : ∀ b' ∈ bars, b'.day * 86400 + OPEN ≤ t → b'.day ≤ b.day)
    (o c : Option α)
    (he : expandBar adjust b = [⟨b.day * 86400 + OPEN, o⟩, ⟨b.day * 86400 + CLOSE, c⟩])
    (hobs : (if t < b.day * 86400 + CLOSE then o else c).isSome) :
    barLookup adjust bars t = if t < b.day * 86400 + CLOSE then o else c := by
  have hmem : ∀ r ∈ expandBar adjust b, r ∈ bars.flatMap (expandBar adjust) :=
    fun r hr => List.mem_flatMap.mpr ⟨b, hb, hr⟩
  have hbound : ∀ r' ∈ bars.flatMap (expandBar adjust), r'.time ≤ t →
      r'.time ≤ b.day * 86400 + CLOSE ∧
        (r'.time ≤ b.day * 86400 + OPEN ∨ r'.time = b.day * 86400 + CLOSE) := by
    intro r' hr' hr't
    obtain ⟨b', hb', hrb'⟩ := List.mem_flatMap.mp hr'
    have h2 := mem_expandBar hrb'
    have hb't : b'.day * 86400 + OPEN ≤ t := by
      simp only [OPEN, CLOSE] at h2 ⊢
      omega
    have hle := hmax b' hb' hb't
    rcases Int.lt_or_eq_of_le hle with hlt | heq
    · simp only [OPEN, CLOSE] at h2 ⊢
      omega
    · simp only [OPEN, CLOSE] at h2 ⊢
      omega
  by_cases hc : t < b.day * 86400 + CLOSE
  · rw [if_pos hc] at hobs ⊢
    have hr : IsLatest (bars.flatMap (expandBar adjust)) t ⟨b.day * 86400 + OPEN, o⟩ := by
      refine ⟨hmem _ (by rw [he]; simp), hbt, hobs, ?_⟩
      intro r' hr' hr't _
      have := hbound r' hr' hr't
      show r'.time ≤ b.day * 86400 + OPEN
      omega
    exact barLookup_latest adjust bars t hd _ hr
  · rw [if_neg hc] at hobs ⊢
    have hr : IsLatest (bars.flatMap (expandBar adjust)) t ⟨b.day * 86400 + CLOSE, c⟩ := by
      refine ⟨hmem _ (by rw [he]; simp), by show b.day * 86400 + CLOSE ≤ t; omega, hobs, ?_⟩
      intro r' hr' hr't _
      exact (hbound r' hr' hr't).1
    exact barLookup_latest adjust bars t hd _ hr

end

/-! ## The data handler -/

section
variable {α : Type} [Add α] [Sub α] [Mul α] [Div α] [Neg α] [NumOps α]

/-- the function `handlerBid` folds over the sources -/
def srcVal (t : Int) (a : String) (ds : DataSource α) : Option α :=
  match ds.getBid t a with | .ok v => v | .error _ => none

theorem handlerBid_eq (sources : List (DataSource α)) (t : Int) (a : String) :
    handlerBid sources t a = sources.findSome? (srcVal t a) := rfl

theorem getBid_cases (ds : DataSource α) (t : Int) (a : String) :
    (ds.assets.lookup a = none ∧ ds.getBid t a = .error .key) ∨
    (∃ bars, ds.assets.lookup a = some bars ∧ ds.getBid t a = .ok (barLookup ds.adjust bars t)) := by
  unfold DataSource.getBid
  cases h : ds.assets.lookup a with
  | none => exact Or.inl ⟨rfl, rfl⟩
  | some bars => exact Or.inr ⟨bars, rfl, rfl⟩

theorem srcVal_eq_some (ds : DataSource α) (t : Int) (a : String) (v : α) :
    srcVal t a ds = some v ↔ ds.getBid t a = .ok (some v) := by
  unfold srcVal
  cases h : ds.getBid t a with
  | ok w => simp
  | error e => simp

theorem srcVal_eq_none (ds : DataSource α) (t : Int) (a : String) :
    srcVal t a ds = none ↔ (ds.getBid t a = .error .key ∨ ds.getBid t a = .ok none) := by
  unfold srcVal
  rcases getBid_cases ds t a with ⟨_, h⟩ | ⟨bars, _, h⟩
  · rw [h]; simp
  · rw [h]; simp

theorem handlerBid_some_iff (sources : List (DataSource α)) (t : Int) (a : String) (v : α) :
    handlerBid sources t a = some v ↔
      ∃ pre ds post, sources = pre ++ ds :: post ∧
        (∀ d ∈ pre, d.getBid t a = .error .key ∨ d.getBid t a = .ok none) ∧
        ds.getBid t a = .ok (some v) := by
  rw [handlerBid_eq, List.findSome?_eq_some_iff]
  constructor
  · rintro ⟨pre, ds, post, h1, h2, h3⟩
    exact ⟨pre, ds, post, h1, fun d hd => (srcVal_eq_none d t a).mp (h3 d hd), (srcVal_eq_some ds t a v).mp h2⟩
  · rintro ⟨pre, ds, post, h1, h2, h3⟩
    exact ⟨pre, ds, post, h1, (srcVal_eq_some ds t a v).mpr h3, fun d hd => (srcVal_eq_none d t a).mpr (h2 d hd)⟩

theorem handlerBid_none_iff (sources : List (DataSource α)) (t : Int) (a : String) :
    handlerBid sources t a = none ↔
      ∀ d ∈ sources, d.getBid t a = .error .key ∨ d.getBid t a = .ok none := by
  rw [handlerBid_eq, List.findSome?_eq_none_iff]
  exact ⟨fun h d hd => (srcVal_eq_none d t a).mp (h d hd), fun h d hd => (srcVal_eq_none d t a).mpr (h d hd)⟩

theorem handlerBid_cons (ds : DataSource α) (rest : List (DataSource α)) (t : Int) (a : String) :
    handlerBid (ds :: rest) t a = (srcVal t a ds).or (handlerBid rest t a) := by
  rw [handlerBid_eq, List.findSome?_cons, handlerBid_eq]
  cases srcVal t a ds <;> rfl

end

/-! ## The memo table -/

section
variable {κ ν : Type} [BEq κ] [LawfulBEq κ]

/-- every stored value is the function's value at its key -/
def Coherent (f : κ → ν) (tbl : List (κ × ν)) : Prop := ∀ p ∈ tbl, p.2 = f p.1

theorem lookup_coherent (f : κ → ν) (tbl : List (κ × ν)) (k : κ) (v : ν)
    (hc : Coherent f tbl) (h : tbl.lookup k = some v) : v = f k := by
  induction tbl with
  | nil => simp at h
  | cons p ps ih =>
    obtain ⟨k', v'⟩ := p
    rw [List.lookup_cons] at h
    by_cases hk : (k == k') = true
    · rw [hk] at h
      have : k = k' := eq_of_beq hk
      subst this
      have := hc (k, v') (List.mem_cons_self ..)
      simp only at h this
      cases h
      exact this
    · have hk' : (k == k') = false := by simpa using hk
      rw [hk'] at h
      exact ih (fun p hp => hc p (List.mem_cons_of_mem _ hp)) h

theorem cachedGet_spec (f : κ → ν) (tbl : List (κ × ν)) (k : κ) (hc : Coherent f tbl) :
    (cachedGet f tbl k).1 = f k ∧ Coherent f (cachedGet f tbl k).2 := by
  unfold cachedGet
  cases h : tbl.lookup k with
  | some v => exact ⟨lookup_coherent f tbl k v hc h, hc⟩
  | none =>
    refine ⟨rfl, ?_⟩
    intro p hp
    rcases List.mem_cons.mp hp with rfl | hp'
    · rfl
    · exact hc p hp'

end

end Qs
