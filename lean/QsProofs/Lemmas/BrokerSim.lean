import QsProofs.Lemmas.BrokerObs

/-!
# "Equal up to clocks, earlier clocks" simulation (helper for `C15_sequences`)

`Le σ σ'` : the two broker states agree on everything except portfolio / position clocks, and every clock of
`σ` is `≤` the corresponding clock of `σ'`.  All clock tests of the model are of the form
`t < clock ⇒ refuse`, hence
* an op accepted by `σ'` is accepted by `σ`, with `Le`-related results (`step_acc`);
* a refused op only advances clocks: `Le σ (step σ op).1` (`step_ref`) — this includes every refused
  `applyTxn`: `Position.transact` validates price and time before it moves the quantities.
-/

set_option linter.unusedSectionVars false

namespace Qs
open NumOps Num

section
variable {α : Type} [Field α] [LinearOrder α] [IsStrictOrderedRing α] [FloorRing α] [NumOps α]
  [LawfulNumOps α]

/-! ### positions -/

/-- same position, possibly earlier clock -/
def PosLe (q q' : Position α) : Prop := q.clock ≤ q'.clock ∧ q' = { q with clock := q'.clock }

theorem PosLe.refl (q : Position α) : PosLe q q := ⟨le_refl _, rfl⟩

theorem PosLe.trans {a b c : Position α} (h1 : PosLe a b) (h2 : PosLe b c) : PosLe a c := by
  refine ⟨le_trans h1.1 h2.1, ?_⟩
  rw [h2.2, h1.2]

theorem PosLe.asset {q q' : Position α} (h : PosLe q q') : q'.asset = q.asset := by rw [h.2]

theorem PosLe.net {q q' : Position α} (h : PosLe q q') : q'.net = q.net := by rw [h.2]; rfl

theorem posLe_of_clock (q : Position α) (c : Int) (h : q.clock ≤ c) : PosLe q { q with clock := c } :=
  ⟨h, rfl⟩

theorem updatePrice_ok_c01 (q : Position α) (pr : α) (t : Int) (h1 : ¬ t < q.clock) (h2 : ¬ pr ≤ 0) :
    q.updatePrice pr t = ({ q with clock := t, price := pr }, none) := by
  unfold Position.updatePrice
  simp [h1, h2]

theorem updatePrice_le {q q' : Position α} (h : PosLe q q') (pr : α) (t : Int)
    (hacc : (q'.updatePrice pr t).2 = none) :
    (q.updatePrice pr t).2 = none ∧ PosLe (q.updatePrice pr t).1 (q'.updatePrice pr t).1 := by
  rw [updatePrice_out] at hacc
  have hc : ¬ (t < q'.clock ∨ pr ≤ 0) := by
    intro hh; rw [if_pos hh] at hacc; cases hacc
  push Not at hc
  have h1 : ¬ t < q.clock := not_lt.mpr (le_trans h.1 hc.1)
  rw [updatePrice_ok_c01 q pr t h1 (not_le.mpr hc.2), updatePrice_ok_c01 q' pr t (not_lt.mpr hc.1) (not_le.mpr hc.2)]
  refine ⟨rfl, le_refl _, ?_⟩
  rw [h.2]

/-- a refused `updatePrice` only advances the clock -/
theorem updatePrice_adv (q : Position α) (pr : α) (t : Int) {e : Err}
    (h : (q.updatePrice pr t).2 = some e) : PosLe q (q.updatePrice pr t).1 := by
  unfold Position.updatePrice at h ⊢
  split
  · exact PosLe.refl q
  · rename_i h1
    rw [if_neg h1] at h
    split
    · exact posLe_of_clock q t (not_lt.mp h1)
    · rename_i h2; rw [if_neg h2] at h; cases h

theorem transact_le {q q' : Position α} (h : PosLe q q') (t : Txn α)
    (hacc : (q'.transact t).2 = none) :
    (q.transact t).2 = none ∧ PosLe (q.transact t).1 (q'.transact t).1 := by
  unfold Position.transact at hacc ⊢
  by_cases hq : t.qty = 0
  · simp only [hq, if_true]; exact ⟨trivial, h⟩
  · simp only [hq, if_false] at hacc ⊢
    have hacc' : (q'.updatePrice t.price t.time).2 = none := by
      rcases hs : q'.updatePrice t.price t.time with ⟨p2, _ | e⟩
      · rfl
      · rw [hs] at hacc; cases hacc
    obtain ⟨k1, k2⟩ := updatePrice_le h t.price t.time hacc'
    rcases hs : q.updatePrice t.price t.time with ⟨p1, _ | e⟩ <;> rw [hs] at k1 k2
    · rcases hs' : q'.updatePrice t.price t.time with ⟨p1', _ | e'⟩ <;> rw [hs'] at hacc' k2
      · simp only at k2 ⊢
        refine ⟨trivial, le_refl _, ?_⟩
        rw [k2.2]
        split <;> rfl
      · cases hacc'
    · cases k1

/-- a refused `transact` only advances the clock (validation precedes the quantity update) -/
theorem transact_adv (q : Position α) (t : Txn α) {e : Err} (h : (q.transact t).2 = some e) :
    PosLe q (q.transact t).1 := by
  obtain ⟨-, -, -, c, hc, heq⟩ := transact_err q t h
  rw [heq]
  exact posLe_of_clock q c hc

/-! ### lists of positions -/

theorem forall₂_map_map {β γ : Type} {R : β → β → Prop} {S : γ → γ → Prop} {l l' : List β}
    (h : List.Forall₂ R l l') (f g : β → γ) (hfg : ∀ a b, R a b → S (f a) (g b)) :
    List.Forall₂ S (l.map f) (l'.map g) := by
  induction h with
  | nil => exact .nil
  | cons hab _ ih => exact .cons (hfg _ _ hab) ih

theorem forall₂_filter {β : Type} {R : β → β → Prop} {l l' : List β} (h : List.Forall₂ R l l')
    (p p' : β → Bool) (hp : ∀ a b, R a b → p a = p' b) :
    List.Forall₂ R (l.filter p) (l'.filter p') := by
  induction h with
  | nil => exact .nil
  | @cons a b _ _ hab _ ih =>
    simp only [List.filter_cons, hp a b hab]
    split
    · exact .cons hab ih
    · exact ih

theorem posFind_le {ps ps' : Positions α} (h : List.Forall₂ PosLe ps ps') (a : String) :
    (Positions.find? ps' a = none → Positions.find? ps a = none) ∧
    (∀ q', Positions.find? ps' a = some q' → ∃ q, Positions.find? ps a = some q ∧ PosLe q q') := by
  unfold Positions.find?
  induction h with
  | nil => simp
  | @cons x y _ _ hab _ ih =>
    simp only [List.find?_cons, hab.asset]
    by_cases hx : (x.asset == a) = true
    · rw [hx]
      refine ⟨by simp, ?_⟩
      intro q' hq'
      cases hq'
      exact ⟨x, rfl, hab⟩
    · rw [Bool.not_eq_true] at hx
      rw [hx]
      exact ih

theorem set_le {ps ps' : Positions α} (h : List.Forall₂ PosLe ps ps') {r r' : Position α}
    (hr : PosLe r r') : List.Forall₂ PosLe (Positions.set ps r) (Positions.set ps' r') := by
  unfold Positions.set
  refine forall₂_map_map h _ _ ?_
  intro a b hab
  rw [hab.asset, hr.asset]
  split
  · exact hr
  · exact hab

theorem transactPosition_le {ps ps' : Positions α} (h : List.Forall₂ PosLe ps ps') (t : Txn α)
    (hacc : (ps'.transactPosition t).2 = none) :
    (ps.transactPosition t).2 = none ∧
      List.Forall₂ PosLe (ps.transactPosition t).1 (ps'.transactPosition t).1 := by
  obtain ⟨hn, hs⟩ := posFind_le h t.asset
  rw [transactPosition_out] at hacc
  unfold Positions.transactPosition
  cases hf' : Positions.find? ps' t.asset with
  | none =>
    rw [hn hf']
    simp only []
    split
    · exact ⟨rfl, h⟩
    · exact ⟨rfl, List.rel_append h (.cons (PosLe.refl _) .nil)⟩
  | some q' =>
    obtain ⟨q, hf, hqq⟩ := hs q' hf'
    rw [hf]
    rw [hf'] at hacc
    simp only at hacc ⊢
    obtain ⟨k1, k2⟩ := transact_le hqq t hacc
    rcases hs1 : q.transact t with ⟨r, _ | e⟩ <;> rw [hs1] at k1 k2
    · rcases hs2 : q'.transact t with ⟨r', _ | e'⟩ <;> rw [hs2] at hacc k2
      · simp only at k2 ⊢
        rw [k2.net]
        split
        · refine ⟨rfl, forall₂_filter h _ _ ?_⟩
          intro a b hab; rw [hab.asset]
        · exact ⟨rfl, set_le h k2⟩
      · cases hacc
    · cases k1

/-- a refused `transactPosition` only advances the clock of the position concerned -/
theorem transactPosition_adv (ps : Positions α) (t : Txn α) (hn : (ps.map (·.asset)).Nodup) {e : Err}
    (h : (ps.transactPosition t).2 = some e) : List.Forall₂ PosLe ps (ps.transactPosition t).1 := by
  obtain ⟨pos, hf, herr, hset⟩ := transactPosition_err ps t h
  have hadv := transact_adv pos t herr
  rw [hset]
  simp only [Positions.set]
  rw [List.forall₂_map_right_iff, List.forall₂_same]
  intro q hq
  split
  · rename_i hqa
    have hqa' : q.asset = pos.asset := (by simpa using hqa : q.asset = _).trans hadv.asset
    have : q = pos := List.inj_on_of_nodup_map hn hq (posFind_spec hf).1 hqa'
    rw [this]; exact hadv
  · exact PosLe.refl q

/-! ### portfolios -/

/-- same portfolio, possibly earlier clocks -/
structure PfLe (p p' : Portfolio α) : Prop where
  id : p'.id = p.id
  cash : p'.cash = p.cash
  history : p'.history = p.history
  clock : p.clock ≤ p'.clock
  pos : List.Forall₂ PosLe p.positions p'.positions

theorem forall₂_refl' {β : Type} {R : β → β → Prop} (hR : ∀ a, R a a) (l : List β) : List.Forall₂ R l l :=
  List.forall₂_same.mpr (fun a _ => hR a)

theorem PfLe.refl (p : Portfolio α) : PfLe p p :=
  ⟨rfl, rfl, rfl, le_refl _, forall₂_refl' PosLe.refl _⟩

theorem PfLe.trans {a b c : Portfolio α} (h1 : PfLe a b) (h2 : PfLe b c) : PfLe a c :=
  ⟨h2.id.trans h1.id, h2.cash.trans h1.cash, h2.history.trans h1.history, le_trans h1.clock h2.clock,
    forall₂_trans h1.pos h2.pos (fun _ _ _ => PosLe.trans)⟩

theorem subscribe_le {p p' : Portfolio α} (h : PfLe p p') (t : Int) (a : α)
    (hacc : (p'.subscribe t a).2 = none) :
    (p.subscribe t a).2 = none ∧ PfLe (p.subscribe t a).1 (p'.subscribe t a).1 := by
  rw [subscribe_out] at hacc
  have hc : ¬ (t < p'.clock ∨ a < 0) := by
    intro hh; rw [if_pos hh] at hacc; cases hacc
  push Not at hc
  have h1 : ¬ t < p.clock := not_lt.mpr (le_trans h.clock hc.1)
  rcases subscribe_spec p t a with ⟨k, -⟩ | ⟨-, k, -⟩ | ⟨-, -, k⟩
  · exact absurd k h1
  · exact absurd k (not_lt.mpr hc.2)
  · rcases subscribe_spec p' t a with ⟨k', -⟩ | ⟨-, k', -⟩ | ⟨-, -, k'⟩
    · exact absurd k' (not_lt.mpr hc.1)
    · exact absurd k' (not_lt.mpr hc.2)
    · rw [k, k']
      exact ⟨rfl, h.id, by simp only [h.cash], by simp only [h.cash, h.history], le_refl _, h.pos⟩

theorem withdraw_le {p p' : Portfolio α} (h : PfLe p p') (t : Int) (a : α)
    (hacc : (p'.withdraw t a).2 = none) :
    (p.withdraw t a).2 = none ∧ PfLe (p.withdraw t a).1 (p'.withdraw t a).1 := by
  rw [withdraw_out] at hacc
  have hc : ¬ (t < p'.clock ∨ a < 0 ∨ p'.cash < a) := by
    intro hh; rw [if_pos hh] at hacc; cases hacc
  push Not at hc
  have h1 : ¬ t < p.clock := not_lt.mpr (le_trans h.clock hc.1)
  have h3 : ¬ p.cash < a := by rw [← h.cash]; exact not_lt.mpr hc.2.2
  rcases withdraw_spec p t a with ⟨k, -⟩ | ⟨-, k, -⟩ | ⟨-, -, -, k⟩
  · exact absurd k h1
  · rcases k with k | k
    · exact absurd k (not_lt.mpr hc.2.1)
    · exact absurd k h3
  · rcases withdraw_spec p' t a with ⟨k', -⟩ | ⟨-, k', -⟩ | ⟨-, -, -, k'⟩
    · exact absurd k' (not_lt.mpr hc.1)
    · rcases k' with k' | k'
      · exact absurd k' (not_lt.mpr hc.2.1)
      · exact absurd k' (not_lt.mpr hc.2.2)
    · rw [k, k']
      exact ⟨rfl, h.id, by simp only [h.cash], by simp only [h.cash, h.history], le_refl _, h.pos⟩

/-- a refused `subscribe` only advances the clock -/
theorem subscribe_adv (p : Portfolio α) (t : Int) (a : α) {e : Err} (h : (p.subscribe t a).2 = some e) :
    PfLe p (p.subscribe t a).1 := by
  rcases subscribe_spec p t a with ⟨-, k⟩ | ⟨k1, -, k⟩ | ⟨-, -, k⟩ <;> rw [k] at h ⊢
  · exact PfLe.refl p
  · exact ⟨rfl, rfl, rfl, not_lt.mp k1, forall₂_refl' PosLe.refl _⟩
  · cases h

theorem withdraw_adv (p : Portfolio α) (t : Int) (a : α) {e : Err} (h : (p.withdraw t a).2 = some e) :
    PfLe p (p.withdraw t a).1 := by
  rcases withdraw_spec p t a with ⟨-, k⟩ | ⟨k1, -, k⟩ | ⟨-, -, -, k⟩ <;> rw [k] at h ⊢
  · exact PfLe.refl p
  · exact ⟨rfl, rfl, rfl, not_lt.mp k1, forall₂_refl' PosLe.refl _⟩
  · cases h

/-- the event an accepted `transactAsset` appends (verbatim from the model) -/
def txnEv (t : Txn α) (cash : α) : Event α :=
  if decide (0 < dirOf t.qty) then
    { time := t.time, kind := .assetTransaction, long := true, qty := t.qty, asset := t.asset,
      debit := round2 (t.price * ofInt t.qty + t.commission), credit := zero,
      balance := round2 (cash - (t.price * ofInt t.qty + t.commission)),
      rawAmount := t.price * ofInt t.qty + t.commission,
      rawBalance := cash - (t.price * ofInt t.qty + t.commission) }
  else
    { time := t.time, kind := .assetTransaction, long := false, qty := t.qty, asset := t.asset,
      debit := zero, credit := ofInt (-1) * round2 (t.price * ofInt t.qty + t.commission),
      balance := round2 (cash - (t.price * ofInt t.qty + t.commission)),
      rawAmount := t.price * ofInt t.qty + t.commission,
      rawBalance := cash - (t.price * ofInt t.qty + t.commission) }

theorem transactAsset_ok_c01 (p : Portfolio α) (t : Txn α) (h1 : ¬ t.time < p.clock)
    (h2 : (p.positions.transactPosition t).2 = none) :
    p.transactAsset t =
      ({ p with clock := t.time, positions := (p.positions.transactPosition t).1,
                cash := p.cash - (t.price * ofInt t.qty + t.commission),
                history := p.history ++ [txnEv t p.cash] }, none) := by
  unfold Portfolio.transactAsset
  rw [if_neg h1]
  simp only []
  rcases hs : p.positions.transactPosition t with ⟨ps, _ | e⟩
  · rfl
  · rw [hs] at h2; cases h2

theorem transactAsset_le {p p' : Portfolio α} (h : PfLe p p') (t : Txn α)
    (hacc : (p'.transactAsset t).2 = none) :
    (p.transactAsset t).2 = none ∧ PfLe (p.transactAsset t).1 (p'.transactAsset t).1 := by
  rw [transactAsset_out] at hacc
  have hc : ¬ t.time < p'.clock := by
    intro hh; rw [if_pos hh] at hacc; cases hacc
  rw [if_neg hc] at hacc
  have h1 : ¬ t.time < p.clock := not_lt.mpr (le_trans h.clock (not_lt.mp hc))
  obtain ⟨k1, k2⟩ := transactPosition_le h.pos t hacc
  rw [transactAsset_ok_c01 p t h1 k1, transactAsset_ok_c01 p' t hc hacc]
  exact ⟨rfl, h.id, by simp only [h.cash], by simp only [h.cash, h.history], le_refl _, k2⟩

/-- a refused `transactAsset` only advances clocks (the portfolio's and / or one position's) -/
theorem transactAsset_adv (p : Portfolio α) (t : Txn α) (hn : (p.positions.map (·.asset)).Nodup)
    {e : Err} (h : (p.transactAsset t).2 = some e) : PfLe p (p.transactAsset t).1 := by
  obtain ⟨p', ⟨h', -, rfl⟩ | ⟨er, ps, h', hc, hps, rfl⟩ | ⟨ev, h', -⟩⟩ := transactAsset_cases p t <;>
    rw [h'] at h ⊢
  · exact PfLe.refl _
  · have := transactPosition_adv p.positions t hn (e := er) (by rw [hps])
    rw [hps] at this
    exact ⟨rfl, rfl, rfl, not_lt.mp hc, this⟩
  · cases h

theorem mark_some (p : Portfolio α) (asset : String) (price : α) (t : Int) (pos : Position α)
    (hf : Positions.find? p.positions asset = some pos) (h1 : ¬ price < 0) (h2 : ¬ t < p.clock) :
    p.mark asset price t =
      ({ p with positions := Positions.set p.positions (pos.updatePrice price t).1 },
        (pos.updatePrice price t).2) := by
  unfold Portfolio.mark
  rw [hf]
  simp [h1, h2]

theorem mark_le {p p' : Portfolio α} (h : PfLe p p') (asset : String) (price : α) (t : Int)
    (hacc : (p'.mark asset price t).2 = none) :
    (p.mark asset price t).2 = none ∧ PfLe (p.mark asset price t).1 (p'.mark asset price t).1 := by
  obtain ⟨hn, hs⟩ := posFind_le h.pos asset
  have hout := mark_out p' asset price t
  rw [hacc] at hout
  cases hf' : Positions.find? p'.positions asset with
  | none =>
    have e1 : p.mark asset price t = (p, none) := by unfold Portfolio.mark; rw [hn hf']
    have e2 : p'.mark asset price t = (p', none) := by unfold Portfolio.mark; rw [hf']
    rw [e1, e2]; exact ⟨rfl, h⟩
  | some pos' =>
    rw [hf'] at hout
    simp only at hout
    have hc : ¬ (price < 0 ∨ t < p'.clock) := by
      intro hh; rw [if_pos hh] at hout; cases hout
    rw [if_neg hc] at hout
    push Not at hc
    obtain ⟨pos, hf, hpp⟩ := hs pos' hf'
    have h2 : ¬ t < p.clock := not_lt.mpr (le_trans h.clock hc.2)
    obtain ⟨k1, k2⟩ := updatePrice_le hpp price t hout.symm
    rw [mark_some p asset price t pos hf (not_lt.mpr hc.1) h2,
      mark_some p' asset price t pos' hf' (not_lt.mpr hc.1) (not_lt.mpr hc.2)]
    exact ⟨k1, h.id, h.cash, h.history, h.clock, set_le h.pos k2⟩

/-- a refused `mark` only advances a position clock -/
theorem mark_adv (p : Portfolio α) (asset : String) (price : α) (t : Int)
    (hn : (p.positions.map (·.asset)).Nodup) {e : Err} (h : (p.mark asset price t).2 = some e) :
    PfLe p (p.mark asset price t).1 := by
  cases hf : Positions.find? p.positions asset with
  | none =>
    have e1 : p.mark asset price t = (p, none) := by unfold Portfolio.mark; rw [hf]
    rw [e1] at h; cases h
  | some pos =>
    by_cases h1 : price < 0
    · have e1 : p.mark asset price t = (p, some .value) := by unfold Portfolio.mark; rw [hf]; simp [h1]
      rw [e1]; exact PfLe.refl p
    · by_cases h2 : t < p.clock
      · have e1 : p.mark asset price t = (p, some .value) := by
          unfold Portfolio.mark; rw [hf]; simp [h1, h2]
        rw [e1]; exact PfLe.refl p
      · rw [mark_some p asset price t pos hf h1 h2] at h ⊢
        have hadv := updatePrice_adv pos price t h
        refine ⟨rfl, rfl, rfl, le_refl _, ?_⟩
        simp only [Positions.set]
        rw [List.forall₂_map_right_iff, List.forall₂_same]
        intro q hq
        split
        · rename_i hqa
          have hqa' : q.asset = pos.asset := (by simpa using hqa : q.asset = _).trans hadv.asset
          have : q = pos := List.inj_on_of_nodup_map hn hq (posFind_spec hf).1 hqa'
          rw [this]; exact hadv
        · exact PosLe.refl q

/-! ### brokers -/

def EnLe (e e' : PfEntry α) : Prop := e'.queue = e.queue ∧ PfLe e.pf e'.pf

/-- equal up to portfolio / position clocks; the clocks of `σ` are the earlier ones -/
def Le (σ σ' : Broker α) : Prop :=
  σ'.master = σ.master ∧ σ'.clock = σ.clock ∧ List.Forall₂ EnLe σ.entries σ'.entries

theorem EnLe.refl (e : PfEntry α) : EnLe e e := ⟨rfl, PfLe.refl _⟩

theorem Le.refl (σ : Broker α) : Le σ σ := ⟨rfl, rfl, forall₂_refl' EnLe.refl _⟩

theorem Le.trans {a b c : Broker α} (h1 : Le a b) (h2 : Le b c) : Le a c :=
  ⟨h2.1.trans h1.1, h2.2.1.trans h1.2.1,
    forall₂_trans h1.2.2 h2.2.2 (fun _ _ _ k1 k2 => ⟨k2.1.trans k1.1, k1.2.trans k2.2⟩)⟩

theorem posObs_le {ps ps' : Positions α} (h : List.Forall₂ PosLe ps ps') :
    ps'.map (fun q => (q.asset, q.net)) = ps.map (fun q => (q.asset, q.net)) := by
  induction h with
  | nil => rfl
  | cons hab _ ih => simp only [List.map_cons, ih, hab.asset, hab.net]

theorem obsList_le {l l' : List (PfEntry α)} (h : List.Forall₂ EnLe l l') :
    l'.map obsPf = l.map obsPf := by
  induction h with
  | nil => rfl
  | cons hab _ ih =>
    simp only [List.map_cons, ih]
    congr 1
    simp only [obsPf, hab.1, hab.2.id, hab.2.cash, hab.2.history, posObs_le hab.2.pos]

theorem Le.obs {σ σ' : Broker α} (h : Le σ σ') : obs σ' = obs σ := by
  unfold Qs.obs
  rw [h.1, obsList_le h.2.2]

theorem Le.ids {σ σ' : Broker α} (h : Le σ σ') :
    σ'.entries.map (·.pf.id) = σ.entries.map (·.pf.id) :=
  forall₂_ids h.2.2 (fun _ _ k => k.2.id)

theorem findList_le {l l' : List (PfEntry α)} (h : List.Forall₂ EnLe l l') (pid : String) :
    (l'.find? (fun e => e.pf.id == pid) = none → l.find? (fun e => e.pf.id == pid) = none) ∧
    (∀ e', l'.find? (fun e => e.pf.id == pid) = some e' →
      ∃ e, l.find? (fun e => e.pf.id == pid) = some e ∧ EnLe e e') := by
  induction h with
  | nil => simp
  | @cons x y _ _ hab _ ih =>
    simp only [List.find?_cons, hab.2.id]
    by_cases hx : (x.pf.id == pid) = true
    · rw [hx]
      refine ⟨by simp, ?_⟩
      intro e' he'
      cases he'
      exact ⟨x, rfl, hab⟩
    · rw [Bool.not_eq_true] at hx
      rw [hx]
      exact ih

theorem find_le {σ σ' : Broker α} (h : Le σ σ') (pid : String) :
    (σ'.find? pid = none → σ.find? pid = none) ∧
    (∀ e', σ'.find? pid = some e' → ∃ e, σ.find? pid = some e ∧ EnLe e e') :=
  findList_le h.2.2 pid

theorem setPf_le {l l' : List (PfEntry α)} (h : List.Forall₂ EnLe l l') {p p' : Portfolio α}
    (hp : PfLe p p') :
    List.Forall₂ EnLe (l.map (fun x => if x.pf.id == p.id then { x with pf := p } else x))
      (l'.map (fun x => if x.pf.id == p'.id then { x with pf := p' } else x)) := by
  refine forall₂_map_map h _ _ ?_
  intro a b hab
  rw [hab.2.id, hp.id]
  split
  · exact ⟨hab.1, hp⟩
  · exact hab

theorem le_setPf {σ σ' : Broker α} (h : Le σ σ') {p p' : Portfolio α} (hp : PfLe p p')
    (τ τ' : Broker α) (he : τ.entries = (σ.setPf p).entries) (he' : τ'.entries = (σ'.setPf p').entries)
    (hm : τ'.master = τ.master) (hc : τ'.clock = τ.clock) : Le τ τ' := by
  refine ⟨hm, hc, ?_⟩
  rw [he, he']
  exact setPf_le h.2.2 hp

/-- replacing the found portfolio by a later-clock version of itself -/
theorem setPf_adv {σ : Broker α} {pid : String} {e : PfEntry α} (hu : UniqueIds σ)
    (hf : σ.find? pid = some e) {p : Portfolio α} (hp : PfLe e.pf p) : Le σ (σ.setPf p) := by
  obtain ⟨l1, l2, hl, hl', -⟩ := setPf_split hu hf p (hp.id.trans (find?_spec hf).2)
  refine ⟨rfl, rfl, ?_⟩
  rw [hl', hl]
  exact List.rel_append (forall₂_refl' EnLe.refl _) (.cons ⟨rfl, hp⟩ (forall₂_refl' EnLe.refl _))

/-! ### accepted ops: explicit results -/

theorem subPf_form (σ : Broker α) (pid : String) (a : α) (h : (σ.subscribePortfolio pid a).2 = none) :
    ∃ e, σ.find? pid = some e ∧ (e.pf.subscribe σ.clock a).2 = none ∧
      (σ.subscribePortfolio pid a).1 =
        { (σ.setPf (e.pf.subscribe σ.clock a).1) with master := σ.master - a } := by
  unfold Broker.subscribePortfolio at h ⊢
  split at h
  · cases h
  · rename_i h1
    rw [if_neg h1]
    cases hf : σ.find? pid with
    | none => rw [hf] at h; cases h
    | some e =>
      rw [hf] at h
      simp only at h ⊢
      split at h
      · cases h
      · rename_i h2
        rw [if_neg h2]
        refine ⟨e, rfl, ?_⟩
        rcases hs : e.pf.subscribe σ.clock a with ⟨pf, _ | err⟩ <;> rw [hs] at h
        · exact ⟨rfl, rfl⟩
        · cases h

theorem wdPf_form (σ : Broker α) (pid : String) (a : α) (h : (σ.withdrawPortfolio pid a).2 = none) :
    ∃ e, σ.find? pid = some e ∧ (e.pf.withdraw σ.clock a).2 = none ∧
      (σ.withdrawPortfolio pid a).1 =
        { (σ.setPf (e.pf.withdraw σ.clock a).1) with master := σ.master + a } := by
  unfold Broker.withdrawPortfolio at h ⊢
  split at h
  · cases h
  · rename_i h1
    rw [if_neg h1]
    cases hf : σ.find? pid with
    | none => rw [hf] at h; cases h
    | some e =>
      rw [hf] at h
      simp only at h ⊢
      split at h
      · cases h
      · rename_i h2
        rw [if_neg h2]
        refine ⟨e, rfl, ?_⟩
        rcases hs : e.pf.withdraw σ.clock a with ⟨pf, _ | err⟩ <;> rw [hs] at h
        · exact ⟨rfl, rfl⟩
        · cases h

theorem applyTxn_form (σ : Broker α) (pid : String) (t : Txn α) (h : (σ.applyTxn pid t).2 = none) :
    ∃ e, σ.find? pid = some e ∧ (e.pf.transactAsset t).2 = none ∧
      (σ.applyTxn pid t).1.entries = (σ.setPf (e.pf.transactAsset t).1).entries ∧
      (σ.applyTxn pid t).1.master = σ.master ∧ (σ.applyTxn pid t).1.clock = σ.clock := by
  unfold Broker.applyTxn at h ⊢
  cases hf : σ.find? pid with
  | none => rw [hf] at h; cases h
  | some e =>
    rw [hf] at h
    simp only at h ⊢
    refine ⟨e, rfl, ?_⟩
    rcases hs : e.pf.transactAsset t with ⟨pf, _ | err⟩ <;> rw [hs] at h
    · exact ⟨rfl, rfl, rfl, rfl⟩
    · cases h

/-- Accepted in the later-clock state ⇒ accepted in the earlier-clock state, with related results. -/
theorem step_acc {σ σ' : Broker α} (h : Le σ σ') (op : Op α) (hnu : ∀ t q, op ≠ .update t q)
    (hacc : (step σ' op).2 = none) : (step σ op).2 = none ∧ Le (step σ op).1 (step σ' op).1 := by
  obtain ⟨hm, hc, hent⟩ := h
  have hL : Le σ σ' := ⟨hm, hc, hent⟩
  cases op with
  | update t q => exact absurd rfl (hnu t q)
  | subAcct a =>
    simp only [step] at hacc ⊢
    rw [subAcct_out] at hacc ⊢
    refine ⟨hacc, ?_⟩
    unfold Broker.subscribeAccount
    split
    · exact hL
    · exact ⟨by simp only [hm], hc, hent⟩
  | wdAcct a =>
    simp only [step] at hacc ⊢
    rw [wdAcct_out] at hacc ⊢
    rw [hm] at hacc
    refine ⟨hacc, ?_⟩
    unfold Broker.withdrawAccount
    rw [hm]
    split
    · exact hL
    · split
      · exact hL
      · exact ⟨rfl, hc, hent⟩
  | create pid =>
    simp only [step] at hacc ⊢
    rw [create_out] at hacc ⊢
    rw [has_of_ids_c01 hL.ids] at hacc
    refine ⟨hacc, ?_⟩
    unfold Broker.createPortfolio
    rw [has_of_ids_c01 hL.ids]
    split
    · exact hL
    · refine ⟨hm, hc, List.rel_append hent (.cons ?_ .nil)⟩
      rw [hc]; exact EnLe.refl _
  | setClock t => exact ⟨rfl, hm, rfl, hent⟩
  | submit pid o =>
    simp only [step] at hacc ⊢
    rw [submit_out] at hacc ⊢
    obtain ⟨hn, hs⟩ := find_le hL pid
    cases hf' : σ'.find? pid with
    | none => rw [hf'] at hacc; cases hacc
    | some e' =>
      obtain ⟨e, hf, hee⟩ := hs e' hf'
      rw [hf]
      refine ⟨rfl, ?_⟩
      unfold Broker.submitOrder
      rw [hf, hf']
      refine ⟨hm, hc, ?_⟩
      simp only [Broker.setEntry]
      refine forall₂_map_map hent _ _ ?_
      intro x y hxy
      rw [hxy.2.id, hee.2.id]
      split
      · exact ⟨by simp only [hee.1], hee.2⟩
      · exact hxy
  | subPf pid a =>
    simp only [step] at hacc ⊢
    obtain ⟨e', hf', ha', hform'⟩ := subPf_form σ' pid a hacc
    obtain ⟨e, hf, hee⟩ := (find_le hL pid).2 e' hf'
    have hout' := subPf_out σ' pid a
    rw [hacc, hf'] at hout'
    have hneg : ¬ a < 0 := by intro hh; rw [if_pos hh] at hout'; cases hout'
    rw [if_neg hneg] at hout'
    simp only at hout'
    have hc2 : ¬ (σ'.master < a ∨ σ'.clock < e'.pf.clock) := by
      intro hh; rw [if_pos hh] at hout'; cases hout'
    push Not at hc2
    have hout := subPf_out σ pid a
    rw [hf, if_neg hneg] at hout
    simp only at hout
    have hc3 : ¬ (σ.master < a ∨ σ.clock < e.pf.clock) := by
      push Not
      rw [← hm, ← hc]
      exact ⟨hc2.1, le_trans hee.2.clock hc2.2⟩
    rw [if_neg hc3] at hout
    refine ⟨hout, ?_⟩
    obtain ⟨e2, hf2, -, hform⟩ := subPf_form σ pid a hout
    rw [hf] at hf2; cases hf2
    rw [hform, hform']
    rw [hc] at ha' ⊢
    obtain ⟨-, k2⟩ := subscribe_le hee.2 σ.clock a ha'
    exact le_setPf hL k2 _ _ rfl rfl (by simp [hm]) (by simp only [setPf_clock_c01, hc])
  | wdPf pid a =>
    simp only [step] at hacc ⊢
    obtain ⟨e', hf', ha', hform'⟩ := wdPf_form σ' pid a hacc
    obtain ⟨e, hf, hee⟩ := (find_le hL pid).2 e' hf'
    have hout' := wdPf_out σ' pid a
    rw [hacc, hf'] at hout'
    have hneg : ¬ a < 0 := by intro hh; rw [if_pos hh] at hout'; cases hout'
    rw [if_neg hneg] at hout'
    simp only at hout'
    have hc2 : ¬ (e'.pf.cash < a ∨ σ'.clock < e'.pf.clock) := by
      intro hh; rw [if_pos hh] at hout'; cases hout'
    push Not at hc2
    have hout := wdPf_out σ pid a
    rw [hf, if_neg hneg] at hout
    simp only at hout
    have hc3 : ¬ (e.pf.cash < a ∨ σ.clock < e.pf.clock) := by
      push Not
      rw [← hee.2.cash, ← hc]
      exact ⟨hc2.1, le_trans hee.2.clock hc2.2⟩
    rw [if_neg hc3] at hout
    refine ⟨hout, ?_⟩
    obtain ⟨e2, hf2, -, hform⟩ := wdPf_form σ pid a hout
    rw [hf] at hf2; cases hf2
    rw [hform, hform']
    rw [hc] at ha' ⊢
    obtain ⟨-, k2⟩ := withdraw_le hee.2 σ.clock a ha'
    exact le_setPf hL k2 _ _ rfl rfl (by simp [hm]) (by simp only [setPf_clock_c01, hc])
  | applyTxn pid t =>
    simp only [step] at hacc ⊢
    obtain ⟨e', hf', ha', hent', hm', hc'⟩ := applyTxn_form σ' pid t hacc
    obtain ⟨e, hf, hee⟩ := (find_le hL pid).2 e' hf'
    obtain ⟨k1, k2⟩ := transactAsset_le hee.2 t ha'
    have hout := applyTxn_out σ pid t
    rw [hf] at hout
    simp only at hout
    rw [k1] at hout
    refine ⟨hout, ?_⟩
    obtain ⟨e2, hf2, -, hent2, hm2, hc2⟩ := applyTxn_form σ pid t hout
    rw [hf] at hf2; cases hf2
    exact le_setPf hL k2 _ _ hent2 hent' (by rw [hm', hm2, hm]) (by rw [hc', hc2, hc])
  | applyMark pid asset price t =>
    simp only [step] at hacc ⊢
    have hout' := applyMark_out σ' pid asset price t
    rw [hacc] at hout'
    cases hf' : σ'.find? pid with
    | none => rw [hf'] at hout'; cases hout'
    | some e' =>
      rw [hf'] at hout'
      simp only at hout'
      obtain ⟨e, hf, hee⟩ := (find_le hL pid).2 e' hf'
      obtain ⟨k1, k2⟩ := mark_le hee.2 asset price t hout'.symm
      have hout := applyMark_out σ pid asset price t
      rw [hf] at hout
      simp only at hout
      rw [k1] at hout
      refine ⟨hout, ?_⟩
      unfold Broker.applyMark
      rw [hf, hf']
      exact le_setPf hL k2 _ _ rfl rfl (by simp [hm]) (by simp only [setPf_clock_c01, hc])
  | pfSubscribe pid t a =>
    simp only [step] at hacc ⊢
    have hout' := pfSubscribe_out σ' pid t a
    rw [hacc] at hout'
    cases hf' : σ'.find? pid with
    | none => rw [hf'] at hout'; cases hout'
    | some e' =>
      obtain ⟨e, hf, hee⟩ := (find_le hL pid).2 e' hf'
      have ha' : (e'.pf.subscribe t a).2 = none := by
        rw [subscribe_out]; rw [hf'] at hout'; exact hout'.symm
      obtain ⟨k1, k2⟩ := subscribe_le hee.2 t a ha'
      unfold Broker.pfSubscribe
      rw [hf, hf']
      refine ⟨k1, ?_⟩
      exact le_setPf hL k2 _ _ rfl rfl (by simp [hm]) (by simp only [setPf_clock_c01, hc])
  | pfWithdraw pid t a =>
    simp only [step] at hacc ⊢
    have hout' := pfWithdraw_out σ' pid t a
    rw [hacc] at hout'
    cases hf' : σ'.find? pid with
    | none => rw [hf'] at hout'; cases hout'
    | some e' =>
      obtain ⟨e, hf, hee⟩ := (find_le hL pid).2 e' hf'
      have ha' : (e'.pf.withdraw t a).2 = none := by
        rw [withdraw_out]; rw [hf'] at hout'; exact hout'.symm
      obtain ⟨k1, k2⟩ := withdraw_le hee.2 t a ha'
      unfold Broker.pfWithdraw
      rw [hf, hf']
      refine ⟨k1, ?_⟩
      exact le_setPf hL k2 _ _ rfl rfl (by simp [hm]) (by simp only [setPf_clock_c01, hc])

/-- A refused op (not `update`) only advances clocks. -/
theorem step_ref (σ : Broker α) (hu : UniqueIds σ) (hp : PosUnique σ) (op : Op α)
    (hnu : ∀ t q, op ≠ .update t q)
    {e : Err} (h : (step σ op).2 = some e) : Le σ (step σ op).1 := by
  cases op with
  | update t q => exact absurd rfl (hnu t q)
  | subAcct a => simp only [step] at h ⊢; rw [subAcct_err σ a h]; exact Le.refl σ
  | wdAcct a => simp only [step] at h ⊢; rw [wdAcct_err σ a h]; exact Le.refl σ
  | create pid => simp only [step] at h ⊢; rw [create_err σ pid h]; exact Le.refl σ
  | submit pid o => simp only [step] at h ⊢; rw [submit_err σ pid o h]; exact Le.refl σ
  | setClock t => cases h
  | subPf pid a =>
    simp only [step] at h ⊢
    unfold Broker.subscribePortfolio at h ⊢
    split
    · exact Le.refl σ
    · rename_i h1
      rw [if_neg h1] at h
      split
      · exact Le.refl σ
      · rename_i en hf
        rw [hf] at h
        simp only at h
        split
        · exact Le.refl σ
        · rename_i h2
          rw [if_neg h2] at h
          have := fun err => subscribe_adv en.pf σ.clock a (e := err)
          rcases hs : en.pf.subscribe σ.clock a with ⟨pf, _ | err⟩ <;> rw [hs] at h this <;> simp only at h ⊢
          · cases h
          · exact setPf_adv hu hf (this err rfl)
  | wdPf pid a =>
    simp only [step] at h ⊢
    unfold Broker.withdrawPortfolio at h ⊢
    split
    · exact Le.refl σ
    · rename_i h1
      rw [if_neg h1] at h
      split
      · exact Le.refl σ
      · rename_i en hf
        rw [hf] at h
        simp only at h
        split
        · exact Le.refl σ
        · rename_i h2
          rw [if_neg h2] at h
          have := fun err => withdraw_adv en.pf σ.clock a (e := err)
          rcases hs : en.pf.withdraw σ.clock a with ⟨pf, _ | err⟩ <;> rw [hs] at h this <;> simp only at h ⊢
          · cases h
          · exact setPf_adv hu hf (this err rfl)
  | applyTxn pid t =>
    simp only [step] at h ⊢
    have hout := applyTxn_out σ pid t
    rw [h] at hout
    unfold Broker.applyTxn
    split
    · exact Le.refl σ
    · rename_i en hf
      rw [hf] at hout
      simp only at hout
      have hadv := transactAsset_adv en.pf t (hp en (find?_spec hf).1) hout.symm
      rcases hta : en.pf.transactAsset t with ⟨pf, _ | err⟩ <;> rw [hta] at hadv hout
      · cases hout
      · exact setPf_adv hu hf hadv
  | applyMark pid asset price t =>
    simp only [step] at h ⊢
    unfold Broker.applyMark at h ⊢
    split
    · exact Le.refl σ
    · rename_i en hf
      rw [hf] at h
      exact setPf_adv hu hf (mark_adv en.pf asset price t (hp en (find?_spec hf).1) h)
  | pfSubscribe pid t a =>
    simp only [step] at h ⊢
    unfold Broker.pfSubscribe at h ⊢
    split
    · exact Le.refl σ
    · rename_i en hf
      rw [hf] at h
      exact setPf_adv hu hf (subscribe_adv en.pf t a h)
  | pfWithdraw pid t a =>
    simp only [step] at h ⊢
    unfold Broker.pfWithdraw at h ⊢
    split
    · exact Le.refl σ
    · rename_i en hf
      rw [hf] at h
      exact setPf_adv hu hf (withdraw_adv en.pf t a h)

/-- the ops of a run that are accepted when their turn comes -/
def acceptedOps (σ : Broker α) : List (Op α) → List (Op α)
  | [] => []
  | o :: os =>
    match (step σ o).2 with
    | none => o :: acceptedOps (step σ o).1 os
    | some _ => acceptedOps (step σ o).1 os

/-- no `update` in the run -/
def NoUpdate (ops : List (Op α)) : Prop := ∀ o ∈ ops, ∀ t q, o ≠ .update t q

/-- Running only the accepted ops, from a state that is equal up to earlier clocks, ends in a state equal
up to earlier clocks. -/
theorem run_accepted_le (σf σo : Broker α) (hle : Le σf σo) (hu : UniqueIds σo) (hp : PosUnique σo)
    (ops : List (Op α)) (hadm : NoUpdate ops) :
    Le (run σf (acceptedOps σo ops)) (run σo ops) := by
  induction ops generalizing σf σo with
  | nil => exact hle
  | cons o os ih =>
    have hnu := hadm o List.mem_cons_self
    have hrest : NoUpdate os := fun o' ho' => hadm o' (List.mem_cons_of_mem _ ho')
    have hu' := (step_total σo o hu).1
    have hp' := step_posUnique σo o hu hp
    simp only [acceptedOps, run]
    cases hs : (step σo o).2 with
    | none =>
      simp only [run]
      obtain ⟨-, k2⟩ := step_acc hle o hnu hs
      exact ih _ _ k2 hu' hp' hrest
    | some e =>
      simp only
      have k := step_ref σo hu hp o hnu hs
      exact ih _ _ (hle.trans k) hu' hp' hrest

end
end Qs
