import QsProofs.Lemmas.RefinementSession
import QsProofs.Lemmas.Calendar

/-!
# C08 helpers (4): the whole run — induction over the business days, the initial state
-/

set_option linter.unusedSectionVars false

namespace Qs.Ref
open NumOps Num

theorem isOpen_open (d : Int) (h : weekday d ≤ 4) : isOpen (d * 86400 + OPEN) = true := by
  rw [isOpen_iff]
  unfold weekday at h
  unfold dayOf OPEN
  omega

theorem isOpen_close (d : Int) : isOpen (d * 86400 + CLOSE) = false := by
  cases h : isOpen (d * 86400 + CLOSE) with
  | false => rfl
  | true =>
    rw [isOpen_iff] at h
    unfold CLOSE at h
    omega

section
variable {α : Type} [Field α] [LinearOrder α] [IsStrictOrderedRing α] [FloorRing α] [NumOps α] [LawfulNumOps α]

/-- **One business day** (`market_open` then `market_close`) against `refDay`. -/
theorem day_sim (cfg : SessionCfg α) (w : List (String × α)) (px : Px α)
    (hpos : ∀ t a p, px t a = some p → 0 < p) (sched : List Int) (A : String → Prop)
    (hA : ∀ t a, a ∈ cfg.uni.assets t → A a) (hAw : ∀ a ∈ w.map (·.1), A a)
    (s : Session α) (st : RefState α) (t0 d : Int) (hsr : SR cfg s st t0) (ht : t0 ≤ d * 86400 + OPEN)
    (hd : weekday d ≤ 4)
    (hq : ∀ a, A a → (px (d * 86400 + OPEN) a).isSome ∧ (px (d * 86400 + CLOSE) a).isSome) (has : Assets A st)
    (s1 s2 : Session α)
    (h1 : s.step cfg (fixedAlpha w) px sched ⟨d * 86400 + OPEN, .marketOpen⟩ = (s1, none))
    (h2 : s1.step cfg (fixedAlpha w) px sched ⟨d * 86400 + CLOSE, .marketClose⟩ = (s2, none)) :
    ∃ st', refDay cfg w px sched st d = some st' ∧ SR cfg s2 st' (d * 86400 + CLOSE) ∧ Assets A st' := by
  have hret1 : (s.step cfg (fixedAlpha w) px sched ⟨d * 86400 + OPEN, .marketOpen⟩).2 = none := by rw [h1]
  obtain ⟨st1, st2, hf1, hf2, hsr1, _, _, has2⟩ :=
    step_open cfg w px hpos sched A hA hAw s st t0 _ hsr ht (isOpen_open d hd) (fun a ha => (hq a ha).1) has hret1
  rw [h1] at hsr1
  have hret2 : (s1.step cfg (fixedAlpha w) px sched ⟨d * 86400 + CLOSE, .marketClose⟩).2 = none := by rw [h2]
  obtain ⟨st3, st4, hf3, hf4, hsr2, has4⟩ :=
    step_close cfg w px hpos sched A hA hAw s1 st2 _ _ hsr1 (by unfold OPEN CLOSE; omega) (isOpen_close d)
      (fun a ha => (hq a ha).2) has2 hret2
  rw [h2] at hsr2
  refine ⟨st4, ?_, hsr2, has4⟩
  rw [refDay_eq, hf1, Option.bind_some, hf2, Option.bind_some, hf3, Option.bind_some, hf4]

/-- **All business days**: induction over the day list. -/
theorem days_sim (cfg : SessionCfg α) (w : List (String × α)) (px : Px α)
    (hpos : ∀ t a p, px t a = some p → 0 < p) (sched : List Int) (A : String → Prop)
    (hA : ∀ t a, a ∈ cfg.uni.assets t → A a) (hAw : ∀ a ∈ w.map (·.1), A a) :
    ∀ (ds : List Int) (s : Session α) (st : RefState α) (t0 : Int),
    SR cfg s st t0 → Assets A st → ds.Pairwise (· < ·) →
    (∀ d ∈ ds, weekday d ≤ 4 ∧ t0 ≤ d * 86400 + OPEN) →
    (∀ d ∈ ds, ∀ a, A a → (px (d * 86400 + OPEN) a).isSome ∧ (px (d * 86400 + CLOSE) a).isSome) →
    ∀ s', Session.runEvents cfg (fixedAlpha w) px sched s (ds.flatMap (dayTemplate false false)) = (s', none) →
    ∃ st' t', refDays cfg w px sched st ds = some st' ∧ SR cfg s' st' t' ∧ Assets A st'
  | [], s, st, t0, hsr, has, _, _, _, s', hrun => by
    simp only [List.flatMap_nil, Session.runEvents, Prod.mk.injEq, and_true] at hrun
    subst hrun
    exact ⟨st, t0, rfl, hsr, has⟩
  | d :: ds, s, st, t0, hsr, has, hpw, hds, hq, s', hrun => by
    have hev : (d :: ds).flatMap (dayTemplate false false) =
        ⟨d * 86400 + OPEN, .marketOpen⟩ :: ⟨d * 86400 + CLOSE, .marketClose⟩ :: ds.flatMap (dayTemplate false false) := by
      simp [List.flatMap_cons, dayTemplate]
    rw [hev] at hrun
    unfold Session.runEvents at hrun
    cases h1 : s.step cfg (fixedAlpha w) px sched ⟨d * 86400 + OPEN, .marketOpen⟩ with
    | mk s1 e1 =>
      rw [h1] at hrun
      cases e1 with
      | some e => simp at hrun
      | none =>
        simp only at hrun
        unfold Session.runEvents at hrun
        cases h2 : s1.step cfg (fixedAlpha w) px sched ⟨d * 86400 + CLOSE, .marketClose⟩ with
        | mk s2 e2 =>
          rw [h2] at hrun
          cases e2 with
          | some e => simp at hrun
          | none =>
            simp only at hrun
            obtain ⟨hd, ht⟩ := hds d List.mem_cons_self
            obtain ⟨st1, hday, hsr1, has1⟩ :=
              day_sim cfg w px hpos sched A hA hAw s st t0 d hsr ht hd (hq d List.mem_cons_self) has s1 s2 h1 h2
            rw [List.pairwise_cons] at hpw
            obtain ⟨st', t', hdays, hsr', has'⟩ :=
              days_sim cfg w px hpos sched A hA hAw ds s2 st1 _ hsr1 has1 hpw.2
                (fun d' hd' => ⟨(hds d' (List.mem_cons_of_mem _ hd')).1, by
                  have := hpw.1 d' hd'
                  unfold OPEN CLOSE; omega⟩)
                (fun d' hd' => hq d' (List.mem_cons_of_mem _ hd')) s' hrun
            refine ⟨st', t', ?_, hsr', has'⟩
            simp only [refDays, hday, Option.bind_some, hdays]

/-- **The initial state** (`BacktestTradingSession.__init__`) represents `{ cash := initialCash }`. -/
theorem init_sim (cfg : SessionCfg α) (hnosig : cfg.signalSpecs = none) (s0 : Session α) (events : List SimEvent)
    (sched : List Int) (h : Session.init cfg = .ok (s0, events, sched)) :
    SR cfg s0 { cash := cfg.initialCash } cfg.start ∧
    simEvents cfg.start cfg.end_ false false = .ok events ∧ scheduleOf cfg = .ok sched := by
  unfold Session.init at h
  cases h0 : Broker.new cfg.start cfg.initialCash cfg.fee with
  | error e => rw [h0] at h; cases h
  | ok b0 =>
    rw [h0] at h
    unfold Broker.new at h0
    split at h0
    · cases h0
    · rename_i hneg
      simp only [lt_eq, zero_eq, decide_eq_true_eq, not_lt] at hneg
      simp only [Except.ok.injEq] at h0
      subst h0
      have hmaster : (if decide ((0 : α) < cfg.initialCash) = true then cfg.initialCash else 0) = cfg.initialCash := by
        simp only [decide_eq_true_eq]
        split
        · rfl
        · rename_i h'; exact le_antisymm hneg (not_lt.mp h')
      simp only [bind, Except.bind, Broker.createPortfolio, Broker.has, List.any_nil, Bool.false_eq_true, if_false,
        List.nil_append, Broker.subscribePortfolio, Broker.find?, List.find?_cons, Portfolio.new, beq_self_eq_true,
        Portfolio.subscribe, lt_irrefl, lt_eq, zero_eq, not_lt.mpr hneg, decide_false, if_false,
        Bool.false_eq_true, Broker.setPf, List.map_cons, List.map_nil, if_true] at h
      simp only [hmaster, lt_irrefl, decide_false, Bool.false_eq_true, if_false] at h
      cases hev : simEvents cfg.start cfg.end_ false false with
      | error e => rw [hev] at h; simp at h
      | ok evs =>
        rw [hev] at h
        cases hsc : scheduleOf cfg with
        | error e => rw [hsc] at h; simp at h
        | ok sc =>
          rw [hsc] at h
          simp only at h
          split at h
          · simp at h
          · simp only [pure, Except.pure, hnosig, Option.map_none, Except.ok.injEq, Prod.mk.injEq] at h
            obtain ⟨rfl, rfl, rfl⟩ := h
            refine ⟨⟨⟨⟨_, rfl, ?_⟩, rfl, rfl, rfl⟩, rfl, rfl, rfl⟩, rfl, rfl⟩
            exact ⟨rfl, by simp, ⟨le_refl _, (by intro pos hp; cases hp), List.nodup_nil⟩, rfl,
              (by intro x hx; cases hx), rfl, (by intro x hx; cases hx)⟩

end
end Qs.Ref
