import QsProofs.Lemmas.HoldingsBroker
import QsProofs.Lemmas.OrdersFees
import QsModel.Reference

/-!
# C08 helpers (1): the position dictionary against `holdAdd`, list form

`Positions.transactPosition` on a dictionary whose `(asset, net)` view is the integer holdings `hold`
produces a dictionary whose view is `holdAdd hold asset qty` — as LISTS (same dictionary order).
-/

set_option linter.unusedSectionVars false

namespace Qs.Ref
open NumOps Num

section
variable {α : Type} [Field α] [LinearOrder α] [IsStrictOrderedRing α] [FloorRing α] [NumOps α] [LawfulNumOps α]

/-- integer holdings embedded in the carrier -/
def castHold (h : List (String × Int)) : List (String × α) := h.map fun x => (x.1, (x.2 : α))

/-- `(asset, net quantity)` of every stored position, in dictionary order -/
def posView (ps : Positions α) : List (String × α) := ps.map fun p => (p.asset, p.net)

theorem posView_keys (ps : Positions α) : (posView ps).map (·.1) = Positions.keys ps := by
  simp [posView, Positions.keys, List.map_map, Function.comp_def]

theorem castHold_keys (h : List (String × Int)) : (castHold (α := α) h).map (·.1) = h.map (·.1) := by
  simp [castHold, List.map_map, Function.comp_def]

theorem keys_of_view {ps : Positions α} {hold : List (String × Int)} (hv : posView ps = castHold hold) :
    Positions.keys ps = hold.map (·.1) := by
  rw [← posView_keys, hv, castHold_keys]

/-- `find?` on the dictionary against `lookup` on the holdings -/
theorem find?_of_view : ∀ (ps : Positions α) (hold : List (String × Int)) (a : String),
    posView ps = castHold hold →
    (Positions.find? ps a = none ∧ hold.lookup a = none) ∨
    (∃ pos h, Positions.find? ps a = some pos ∧ hold.lookup a = some h ∧ pos.net = (h : α) ∧ pos ∈ ps ∧
        pos.asset = a)
  | [], [], a, _ => Or.inl ⟨rfl, rfl⟩
  | [], _ :: _, _, hv => by simp [posView, castHold] at hv
  | _ :: _, [], _, hv => by simp [posView, castHold] at hv
  | p :: ps, x :: hold, a, hv => by
    simp only [posView, castHold, List.map_cons, List.cons.injEq, Prod.mk.injEq] at hv
    obtain ⟨⟨h1, h2⟩, h3⟩ := hv
    obtain ⟨k, v⟩ := x
    simp only at h1 h2
    by_cases hk : a = k
    · subst hk
      refine Or.inr ⟨p, v, ?_, ?_, h2, List.mem_cons_self, h1⟩
      · simp [Positions.find?, h1]
      · simp [List.lookup]
    · have hk' : ¬ p.asset = a := by rw [h1]; exact fun e => hk e.symm
      have e1 : Positions.find? (p :: ps) a = Positions.find? ps a := by
        simp [Positions.find?, hk']
      have e2 : List.lookup a ((k, v) :: hold) = List.lookup a hold := by
        rw [List.lookup_cons]
        have : (a == k) = false := by simpa using hk
        rw [this]
      rw [e1, e2]
      rcases find?_of_view ps hold a h3 with h | ⟨pos, h, h4, h5, h6, h7, h8⟩
      · exact Or.inl h
      · exact Or.inr ⟨pos, h, h4, h5, h6, List.mem_cons_of_mem _ h7, h8⟩

theorem posView_erase (ps : Positions α) (a : String) :
    posView (Positions.erase ps a) = (posView ps).filter (fun x => !(x.1 == a)) := by
  simp only [posView, Positions.erase, List.filter_map, Function.comp_def]

theorem castHold_filter (hold : List (String × Int)) (a : String) :
    castHold (α := α) (hold.filter fun x => !(x.1 == a)) = (castHold hold).filter (fun x => !(x.1 == a)) := by
  simp only [castHold, List.filter_map, Function.comp_def]

theorem posView_set (ps : Positions α) (p : Position α) :
    posView (Positions.set ps p) = (posView ps).map (fun x => if x.1 == p.asset then (p.asset, p.net) else x) := by
  simp only [posView, Positions.set, List.map_map]
  apply List.map_congr_left
  intro q _
  simp only [Function.comp_def]
  by_cases h : q.asset = p.asset <;> simp [h]

theorem castHold_map (hold : List (String × Int)) (a : String) (n : Int) :
    castHold (α := α) (hold.map fun x => if x.1 == a then (a, n) else x)
      = (castHold hold).map (fun x => if x.1 == a then (a, (n : α)) else x) := by
  simp only [castHold, List.map_map]
  apply List.map_congr_left
  intro q _
  simp only [Function.comp_def]
  by_cases h : q.1 = a <;> simp [h]

/-- **One fill on the dictionary, list form.** -/
theorem transactPosition_view (ps : Positions α) (hold : List (String × Int)) (tx : Txn α)
    (hv : posView ps = castHold hold) (hnz : ∀ x ∈ hold, x.2 ≠ 0)
    (hnd : (Positions.keys ps).Nodup) (hclk : ∀ pos ∈ ps, pos.clock ≤ tx.time)
    (hq : tx.qty ≠ 0) (hp : 0 < tx.price) :
    ∃ ps', Positions.transactPosition ps tx = (ps', none) ∧
      posView ps' = castHold (holdAdd hold tx.asset tx.qty) ∧
      (∀ x ∈ holdAdd hold tx.asset tx.qty, x.2 ≠ 0) ∧
      (Positions.keys ps').Nodup ∧ (∀ pos ∈ ps', pos.clock ≤ tx.time) ∧
      (∀ pos ∈ ps', pos ∈ ps ∨ (pos.asset = tx.asset ∧ pos.price = tx.price)) := by
  unfold Positions.transactPosition holdAdd
  rcases find?_of_view ps hold tx.asset hv with ⟨hf, hl⟩ | ⟨pos, h, hf, hl, hnet, hmem, hasset⟩
  · rw [hf, hl]
    have hne : (Position.openFrom tx).net ≠ 0 := by
      rw [Position.openFrom_net]; exact Int.cast_ne_zero.mpr hq
    simp only [beq_eq, zero_eq, hne, decide_false, hq, if_false, Bool.false_eq_true]
    refine ⟨_, rfl, ?_, ?_, ?_, ?_, ?_⟩
    · simp only [posView, castHold, List.map_append, List.map_cons, List.map_nil] at hv ⊢
      rw [hv, Position.openFrom_net, Position.openFrom_asset]
    · intro x hx
      rcases List.mem_append.mp hx with hx | hx
      · exact hnz x hx
      · simp only [List.mem_singleton] at hx; rw [hx]; exact hq
    · rw [Positions.keys_append, Position.openFrom_asset]
      have := Positions.find?_eq_none.mp hf
      exact List.Nodup.append hnd (List.nodup_singleton _) (by simpa using this)
    · intro x hx
      rcases List.mem_append.mp hx with hx | hx
      · exact hclk x hx
      · simp only [List.mem_singleton] at hx
        rw [hx, Position.openFrom_clock]
    · intro x hx
      rcases List.mem_append.mp hx with hx | hx
      · exact Or.inl hx
      · simp only [List.mem_singleton] at hx
        rw [hx]; exact Or.inr ⟨Position.openFrom_asset tx, Position.openFrom_price tx⟩
  · rw [hf, hl]
    obtain ⟨p', he, hasset', hprice, hclock, hnet'⟩ := Position.transact_ok pos tx hq hp (hclk pos hmem)
    have hasset'' : p'.asset = tx.asset := hasset'.trans hasset
    have hnetI : p'.net = ((h + tx.qty : Int) : α) := by rw [hnet', hnet]; push_cast; ring
    simp only [he, beq_eq, zero_eq]
    by_cases hz : h + tx.qty = 0
    · have hz' : p'.net = 0 := by rw [hnetI, hz]; simp
      simp only [hz', hz, decide_true, if_true]
      refine ⟨_, rfl, ?_, ?_, ?_, ?_, ?_⟩
      · rw [posView_erase, castHold_filter, hv]
      · intro x hx; exact hnz x (List.mem_filter.mp hx).1
      · rw [Positions.keys_erase]; exact hnd.filter _
      · intro x hx; exact hclk x (Positions.mem_erase hx)
      · intro x hx; exact Or.inl (Positions.mem_erase hx)
    · have hz' : p'.net ≠ 0 := by rw [hnetI]; exact Int.cast_ne_zero.mpr hz
      simp only [hz', hz, decide_false, if_false, Bool.false_eq_true]
      refine ⟨_, rfl, ?_, ?_, ?_, ?_, ?_⟩
      · rw [posView_set, castHold_map, hv, hasset'', hnetI]
      · intro x hx
        obtain ⟨y, hy, rfl⟩ := List.mem_map.mp hx
        by_cases hya : y.1 = tx.asset
        · simp [hya, hz]
        · simp only [beq_iff_eq, hya, if_false]; exact hnz y hy
      · rw [Positions.keys_set]; exact hnd
      · intro x hx
        rcases Positions.mem_set hx with rfl | hx
        · exact le_of_eq hclock
        · exact hclk x hx
      · intro x hx
        rcases Positions.mem_set hx with rfl | hx
        · exact Or.inr ⟨hasset'', hprice⟩
        · exact Or.inl hx

/-- assets of the new holdings: the old ones and possibly the traded one -/
theorem holdAdd_keys_subset (hold : List (String × Int)) (a : String) (q : Int) :
    ∀ k ∈ (holdAdd hold a q).map (·.1), k ∈ hold.map (·.1) ∨ k = a := by
  intro k hk
  unfold holdAdd at hk
  split at hk
  · split at hk
    · exact Or.inl hk
    · rw [List.map_append, List.mem_append] at hk
      rcases hk with hk | hk
      · exact Or.inl hk
      · simp at hk; exact Or.inr hk
  · split at hk
    · obtain ⟨x, hx, rfl⟩ := List.mem_map.mp hk
      exact Or.inl (List.mem_map.mpr ⟨x, (List.mem_filter.mp hx).1, rfl⟩)
    · obtain ⟨x, hx, rfl⟩ := List.mem_map.mp hk
      obtain ⟨y, hy, rfl⟩ := List.mem_map.mp hx
      by_cases hya : y.1 = a
      · simp [hya]
      · simp only [beq_iff_eq, hya, if_false]
        exact Or.inl (List.mem_map.mpr ⟨y, hy, rfl⟩)

end
end Qs.Ref
