import QsProofs.Lemmas.RefinementHold

/-!
# C08 helpers (2): the single-portfolio broker against the reference state

`BR fee b st t`: the broker `b` (one portfolio `PORTFOLIO_ID`, clock `t`) represents the reference state `st`:
same cash, same holdings (as lists), same pending orders (queue), same fills.
-/

set_option linter.unusedSectionVars false

namespace Qs.Ref
open NumOps Num

section
variable {α : Type} [Field α] [LinearOrder α] [IsStrictOrderedRing α] [FloorRing α] [NumOps α] [LawfulNumOps α]

/-- the fills of a broker, as `Session.fills` reports them -/
def fillsOf (b : Broker α) : List (Fill α) :=
  b.fillLog.map fun (_, t) => { time := t.time, asset := t.asset, qty := t.qty, price := t.price, commission := t.commission }

theorem fills_eq (s : Session α) : s.fills = fillsOf s.broker := rfl

/-- the portfolio entry represents the reference state (clocks not after `t`) -/
structure ER (e : PfEntry α) (st : RefState α) (t : Int) : Prop where
  id : e.pf.id = PORTFOLIO_ID
  cash : e.pf.cash = st.cash
  wf : C02.WF e.pf t
  hold : posView e.pf.positions = castHold st.hold
  nz : ∀ x ∈ st.hold, x.2 ≠ 0
  queue : e.queue.map (fun o => (o.asset, o.qty)) = st.pending
  pnz : ∀ x ∈ st.pending, x.2 ≠ 0

/-- the broker represents the reference state at broker time `t` -/
structure BR (fee : FeeModel α) (b : Broker α) (st : RefState α) (t : Int) : Prop where
  ent : ∃ e, b.entries = [e] ∧ ER e st t
  clock : b.clock = t
  fee : b.fee = fee
  log : fillsOf b = st.fills

/-- every stored position carries the price of instant `t` -/
def Marked (px : Px α) (t : Int) (b : Broker α) : Prop :=
  ∀ e ∈ b.entries, ∀ p ∈ e.pf.positions, px t p.asset = some p.price

theorem WF_mono {p : Portfolio α} {t t' : Int} (h : C02.WF p t) (ht : t ≤ t') : C02.WF p t' :=
  ⟨h.clock_le.trans ht, fun pos hp => (h.pos_clock_le pos hp).trans ht, h.nodup⟩

theorem find?_single {b : Broker α} {e : PfEntry α} (h : b.entries = [e]) (hid : e.pf.id = PORTFOLIO_ID) :
    b.find? PORTFOLIO_ID = some e := by
  simp [Broker.find?, h, hid]

theorem setPf_single {b : Broker α} {e : PfEntry α} (h : b.entries = [e]) (p : Portfolio α) (hid : p.id = e.pf.id) :
    (b.setPf p).entries = [{ e with pf := p }] := by
  simp [Broker.setPf, h, hid]

theorem quotesAt_some {px : Px α} {t : Int} {a : String} {p : α} (h : px t a = some p) :
    quotesAt px t a = some (p, p) := by
  simp [quotesAt, h]

theorem quotesAt_none {px : Px α} {t : Int} {a : String} (h : px t a = none) :
    quotesAt px t a = none := by
  simp [quotesAt, h]

/-- **One order executed** (`_execute_order`) against `refFill`. -/
theorem executeOrder_sim (fee : FeeModel α) (px : Px α) (t : Int) (b : Broker α) (st : RefState α) (o : Order)
    (hbr : BR fee b st t) (hq : o.qty ≠ 0) (hpos : ∀ t a p, px t a = some p → 0 < p)
    (hret : (b.executeOrder (quotesAt px t) PORTFOLIO_ID o).2 = none) :
    ∃ st', refFill fee px t st (o.asset, o.qty) = some st' ∧
      BR fee (b.executeOrder (quotesAt px t) PORTFOLIO_ID o).1 st' t ∧
      (Marked px t b → Marked px t (b.executeOrder (quotesAt px t) PORTFOLIO_ID o).1) ∧
      st'.pending = st.pending ∧ st'.equity = st.equity ∧ st'.allocDates = st.allocDates ∧
      (∀ k ∈ st'.hold.map (·.1), k ∈ st.hold.map (·.1) ∨ k = o.asset) := by
  obtain ⟨⟨e, he, her⟩, hclock, hfee, hlog⟩ := hbr
  cases hpx : px t o.asset with
  | none =>
    exfalso
    simp [Broker.executeOrder, Broker.makeTxn, quotesAt_none hpx] at hret
  | some p =>
    have hp := hpos t o.asset p hpx
    -- the transaction
    let tx : Txn α := { asset := o.asset, qty := o.qty, time := t, price := p,
                        commission := fee.totalCost (ofInt (roundHalfEvenI (p * ofInt o.qty))), orderId := o.id }
    have hmk : b.makeTxn (quotesAt px t) o = .ok tx := by
      simp only [Broker.makeTxn, quotesAt_some hpx, ite_self, hclock, hfee, tx]
    obtain ⟨ps', hps, hview, hnz', hnd', hclk', hmem'⟩ :=
      transactPosition_view e.pf.positions st.hold tx her.hold her.nz her.wf.nodup
        (fun pos h => her.wf.pos_clock_le pos h) hq hp
    have hfind := find?_single he her.id
    obtain ⟨hist, hta⟩ : ∃ hist, e.pf.transactAsset tx =
        ({ e.pf with clock := t, positions := ps', cash := e.pf.cash - (p * ofInt o.qty + tx.commission),
                     history := hist }, none) := by
      unfold Portfolio.transactAsset
      have h1 : ¬ tx.time < e.pf.clock := not_lt.mpr her.wf.clock_le
      rw [if_neg h1]
      simp only [hps]
      exact ⟨_, rfl⟩
    let pf' : Portfolio α :=
      { e.pf with clock := t, positions := ps', cash := e.pf.cash - (p * ofInt o.qty + tx.commission),
                  history := hist }
    let b' : Broker α := b.setPf pf'
    have hex : b.executeOrder (quotesAt px t) PORTFOLIO_ID o =
        ({ b' with fillLog := b.fillLog ++ [(PORTFOLIO_ID, tx)] }, none) := by
      unfold Broker.executeOrder
      rw [hmk]
      simp only [Broker.applyTxn, hfind]
      rw [hta]
    rw [hex]
    refine ⟨{ st with cash := st.cash - (p * ofInt o.qty + tx.commission), hold := holdAdd st.hold o.asset o.qty,
                      fills := st.fills ++ [{ time := t, asset := o.asset, qty := o.qty, price := p, commission := tx.commission }] },
      by simp only [refFill, hpx]; rfl, ⟨⟨_, setPf_single he pf' rfl, ?_⟩, hclock, hfee, ?_⟩, ?_, rfl, rfl, rfl, ?_⟩
    · exact ⟨her.id, by show e.pf.cash - _ = _; rw [her.cash], ⟨le_refl _, hclk', hnd'⟩, hview, hnz', her.queue, her.pnz⟩
    · simp only [fillsOf, List.map_append, List.map_cons, List.map_nil] at hlog ⊢
      rw [hlog]
    · intro hm e' he' pos hp'
      rw [show (_ : Broker α).entries = _ from setPf_single he pf' rfl] at he'
      simp only [List.mem_singleton] at he'
      subst he'
      rcases hmem' pos hp' with h | ⟨h1, h2⟩
      · exact hm e (by rw [he]; exact List.mem_singleton_self _) pos h
      · rw [h1, h2]; exact hpx
    · exact holdAdd_keys_subset st.hold o.asset o.qty

/-- **The order phase of an update** against `refFillAll`. -/
theorem runOrders_sim (fee : FeeModel α) (px : Px α) (t : Int) (hpos : ∀ t a p, px t a = some p → 0 < p) :
    ∀ (batch : List (String × Order)) (b : Broker α) (st : RefState α),
    BR fee b st t → (∀ x ∈ batch, x.1 = PORTFOLIO_ID ∧ x.2.qty ≠ 0) →
    (Broker.runUntilErr (fun b (x : String × Order) => b.executeOrder (quotesAt px t) x.1 x.2) b batch).2 = none →
    ∃ st', refFillAll fee px t st (batch.map fun x => (x.2.asset, x.2.qty)) = some st' ∧
      BR fee (Broker.runUntilErr (fun b (x : String × Order) => b.executeOrder (quotesAt px t) x.1 x.2) b batch).1 st' t ∧
      (Marked px t b →
        Marked px t (Broker.runUntilErr (fun b (x : String × Order) => b.executeOrder (quotesAt px t) x.1 x.2) b batch).1) ∧
      st'.pending = st.pending ∧ st'.equity = st.equity ∧ st'.allocDates = st.allocDates ∧
      (∀ k ∈ st'.hold.map (·.1), k ∈ st.hold.map (·.1) ∨ k ∈ batch.map (·.2.asset))
  | [], b, st, hbr, _, _ => ⟨st, rfl, hbr, id, rfl, rfl, rfl, fun k hk => Or.inl hk⟩
  | x :: xs, b, st, hbr, hb, hret => by
    obtain ⟨hx1, hx2⟩ := hb x List.mem_cons_self
    unfold Broker.runUntilErr at hret ⊢
    simp only [hx1] at hret ⊢
    cases hex : (b.executeOrder (quotesAt px t) PORTFOLIO_ID x.2) with
    | mk b1 err =>
      cases err with
      | some e => rw [hex] at hret; simp at hret
      | none =>
        rw [hex] at hret
        simp only at hret ⊢
        have hret1 : (b.executeOrder (quotesAt px t) PORTFOLIO_ID x.2).2 = none := by rw [hex]
        obtain ⟨st1, hf1, hbr1, hm1, hp1, he1, ha1, hk1⟩ := executeOrder_sim fee px t b st x.2 hbr hx2 hpos hret1
        rw [hex] at hbr1 hm1
        obtain ⟨st2, hf2, hbr2, hm2, hp2, he2, ha2, hk2⟩ :=
          runOrders_sim fee px t hpos xs b1 st1 hbr1 (fun y hy => hb y (List.mem_cons_of_mem _ hy)) hret
        refine ⟨st2, ?_, hbr2, fun h => hm2 (hm1 h), hp2.trans hp1, he2.trans he1, ha2.trans ha1, ?_⟩
        · simp only [List.map_cons, refFillAll, hf1, Option.bind_some, hf2]
        · intro k hk
          rcases hk2 k hk with h | h
          · rcases hk1 k h with h | h
            · exact Or.inl h
            · exact Or.inr (by simp [h])
          · exact Or.inr (by simp only [List.map_cons, List.mem_cons]; exact Or.inr h)

theorem markPos_net (q : Quotes α) (t : Int) (pos : Position α) : (C02.markPos q t pos).net = pos.net := by
  unfold C02.markPos
  split <;> rfl

theorem markPos_clock_le (q : Quotes α) (t : Int) (pos : Position α) (h : pos.clock ≤ t) :
    (C02.markPos q t pos).clock ≤ t := by
  unfold C02.markPos
  split
  · exact le_refl _
  · exact h

/-- the broker after the marks of an update at `t ≥` its clock -/
theorem marks_sim (fee : FeeModel α) (px : Px α) (b : Broker α) (st : RefState α) (t0 t : Int)
    (hbr : BR fee b st t0) (ht : t0 ≤ t) (hq : ∀ x ∈ st.hold, (px t x.1).isSome) :
    BR fee { b with clock := t, entries := b.entries.map (C02.markEntry (quotesAt px t) t) } st t ∧
    Marked px t { b with clock := t, entries := b.entries.map (C02.markEntry (quotesAt px t) t) } := by
  obtain ⟨⟨e, he, her⟩, hclock, hfee, hlog⟩ := hbr
  have hkeys := keys_of_view her.hold
  refine ⟨⟨⟨C02.markEntry (quotesAt px t) t e, by simp [he], ?_⟩, rfl, hfee, hlog⟩, ?_⟩
  · refine ⟨her.id, her.cash, ⟨her.wf.clock_le.trans ht, ?_, ?_⟩, ?_, her.nz, her.queue, her.pnz⟩
    · intro pos hp
      obtain ⟨p0, hp0, rfl⟩ := List.mem_map.mp hp
      exact markPos_clock_le _ _ _ ((her.wf.pos_clock_le p0 hp0).trans ht)
    · show (Positions.keys (List.map (C02.markPos (quotesAt px t) t) e.pf.positions)).Nodup
      have : Positions.keys (List.map (C02.markPos (quotesAt px t) t) e.pf.positions) = Positions.keys e.pf.positions := by
        unfold Positions.keys
        rw [List.map_map]
        apply List.map_congr_left
        intro x _
        exact C02.markPos_asset _ _ _
      rw [this]; exact her.wf.nodup
    · rw [← her.hold]
      show posView (List.map (C02.markPos (quotesAt px t) t) e.pf.positions) = _
      unfold posView
      rw [List.map_map]
      apply List.map_congr_left
      intro x _
      simp only [Function.comp_def, C02.markPos_asset, markPos_net]
  · intro e' he' pos hp
    simp only [he, List.map_cons, List.map_nil, List.mem_singleton] at he'
    subst he'
    obtain ⟨p0, hp0, rfl⟩ := List.mem_map.mp hp
    have hk : p0.asset ∈ st.hold.map (·.1) := by
      rw [← hkeys]; exact List.mem_map.mpr ⟨p0, hp0, rfl⟩
    obtain ⟨x, hx, hxa⟩ := List.mem_map.mp hk
    have hsome := hq x hx
    rw [hxa] at hsome
    obtain ⟨p, hp⟩ := Option.isSome_iff_exists.mp hsome
    rw [C02.markPos_asset, hp]
    unfold C02.markPos
    rw [quotesAt_some hp]
    simp only [Option.some.injEq]
    field_simp
    ring

theorem clearQueues_sim (fee : FeeModel α) (b : Broker α) (st : RefState α) (t : Int) (hbr : BR fee b st t) :
    BR fee b.clearQueues { st with pending := [] } t := by
  obtain ⟨⟨e, he, her⟩, hclock, hfee, hlog⟩ := hbr
  refine ⟨⟨{ e with queue := [] }, by simp [Broker.clearQueues, he], ?_⟩, hclock, hfee, hlog⟩
  exact ⟨her.id, her.cash, her.wf, her.hold, her.nz, rfl, by intro x hx; cases hx⟩

theorem clearQueues_marked (px : Px α) (t : Int) (b : Broker α) (h : Marked px t b) : Marked px t b.clearQueues := by
  intro e he pos hp
  simp only [Broker.clearQueues, List.mem_map] at he
  obtain ⟨e0, he0, rfl⟩ := he
  exact h e0 he0 pos hp

/-- the batch drained from the queue is the pending list, sells first -/
theorem drained_sim (fee : FeeModel α) (b : Broker α) (st : RefState α) (t : Int) (hbr : BR fee b st t) :
    (sellsFirst (fun (x : String × Order) => x.2.isSell) b.drained).map (fun x => (x.2.asset, x.2.qty))
      = sellsFirst (fun (o : String × Int) => decide (o.2 < 0)) st.pending ∧
    ∀ x ∈ sellsFirst (fun (x : String × Order) => x.2.isSell) b.drained, x.1 = PORTFOLIO_ID ∧ x.2.qty ≠ 0 := by
  obtain ⟨⟨e, he, her⟩, hclock, hfee, hlog⟩ := hbr
  have hd : b.drained = e.queue.map (fun o => (e.pf.id, o)) := by
    simp [Broker.drained, he]
  constructor
  · rw [hd, ← her.queue]
    rw [← sellsFirst_map (fun o => (e.pf.id, o)) (fun (x : String × Order) => x.2.isSell) e.queue, List.map_map]
    rw [← sellsFirst_map (fun (o : Order) => (o.asset, o.qty)) (fun (o : String × Int) => decide (o.2 < 0)) e.queue]
    rfl
  · intro x hx
    rw [C02.mem_sellsFirst, hd] at hx
    obtain ⟨o, ho, rfl⟩ := List.mem_map.mp hx
    refine ⟨her.id, ?_⟩
    have : (o.asset, o.qty) ∈ st.pending := by
      rw [← her.queue]; exact List.mem_map.mpr ⟨o, ho, rfl⟩
    exact her.pnz _ this

/-- **One `broker.update(dt)`** of a session against the reference: outside exchange hours only prices
move; in exchange hours the pending orders fill at the prices of `t`, sells first. -/
theorem update_sim (fee : FeeModel α) (px : Px α) (hpos : ∀ t a p, px t a = some p → 0 < p)
    (b : Broker α) (st : RefState α) (t0 t : Int)
    (hbr : BR fee b st t0) (ht : t0 ≤ t) (hq : ∀ x ∈ st.hold, (px t x.1).isSome)
    (hret : (b.update t (quotesAt px t)).2 = none) :
    (isOpen t = false →
      BR fee (b.update t (quotesAt px t)).1 st t ∧ Marked px t (b.update t (quotesAt px t)).1) ∧
    (isOpen t = true →
      ∃ st', refFillAll fee px t { st with pending := [] }
            (sellsFirst (fun (o : String × Int) => decide (o.2 < 0)) st.pending) = some st' ∧
        BR fee (b.update t (quotesAt px t)).1 st' t ∧ Marked px t (b.update t (quotesAt px t)).1 ∧
        st'.pending = [] ∧ st'.equity = st.equity ∧ st'.allocDates = st.allocDates ∧
        (∀ k ∈ st'.hold.map (·.1), k ∈ st.hold.map (·.1) ∨ k ∈ st.pending.map (·.1))) := by
  have hb : C02.BWF b t := by
    obtain ⟨⟨e, he, her⟩, _, _, _⟩ := hbr
    refine ⟨by simp [he], ?_⟩
    intro e' he'
    simp only [he, List.mem_singleton] at he'
    subst he'
    exact WF_mono her.wf ht
  have hpos' : ∀ e ∈ b.entries, ∀ pos ∈ e.pf.positions, ∀ bid ask,
      quotesAt px t pos.asset = some (bid, ask) → 0 < (bid + ask) / 2 := by
    intro e _ pos _ bid ask hqa
    cases hpx : px t pos.asset with
    | none => rw [quotesAt_none hpx] at hqa; cases hqa
    | some p =>
      rw [quotesAt_some hpx] at hqa
      have := hpos t _ p hpx
      cases hqa
      linarith
  have heq := C02.update_eq b t (quotesAt px t) hb hpos'
  obtain ⟨hbr1, hm1⟩ := marks_sim fee px b st t0 t hbr ht hq
  constructor
  · intro ho
    rw [heq]
    simp only [ho, Bool.false_eq_true, if_false]
    exact ⟨hbr1, hm1⟩
  · intro ho
    rw [heq] at hret ⊢
    simp only [ho, if_true] at hret ⊢
    obtain ⟨hbatch, hall⟩ := drained_sim fee _ st t hbr1
    obtain ⟨st', hf, hbr', hm', hp', he', ha', hk'⟩ :=
      runOrders_sim fee px t hpos _ _ _ (clearQueues_sim fee _ st t hbr1) hall hret
    rw [hbatch] at hf
    refine ⟨st', hf, hbr', hm' (clearQueues_marked px t _ hm1), hp', he', ha', ?_⟩
    intro k hk
    rcases hk' k hk with h | h
    · exact Or.inl h
    · right
      have : List.map (fun (x : String × Order) => x.2.asset)
          (sellsFirst (fun (x : String × Order) => x.2.isSell) (Broker.drained
            { b with clock := t, entries := b.entries.map (C02.markEntry (quotesAt px t) t) }))
          = (sellsFirst (fun (o : String × Int) => decide (o.2 < 0)) st.pending).map (·.1) := by
        rw [← hbatch, List.map_map]; rfl
      rw [this] at h
      obtain ⟨y, hy, rfl⟩ := List.mem_map.mp h
      exact List.mem_map.mpr ⟨y, (C02.mem_sellsFirst _ _ _).mp hy, rfl⟩

end
end Qs.Ref
