import QsProofs.Lemmas.RefinementBroker
import QsProofs.Lemmas.Pcm

/-!
# C08 helpers (3): session steps against `refDay`
-/

set_option linter.unusedSectionVars false

namespace Qs.Ref
open NumOps Num

section
variable {α : Type} [Field α] [LinearOrder α] [IsStrictOrderedRing α] [FloorRing α] [NumOps α] [LawfulNumOps α]

/-! ## observations: holdings and equity -/

theorem heldOf_sim (fee : FeeModel α) (b : Broker α) (st : RefState α) (t : Int) (hbr : BR fee b st t) :
    heldOf b = st.hold := by
  obtain ⟨⟨e, he, her⟩, _, _, _⟩ := hbr
  unfold heldOf
  rw [find?_single he her.id]
  have h1 : e.pf.positions.map (fun p => (p.asset, floorI p.net))
      = (posView e.pf.positions).map (fun x => (x.1, floorI x.2)) := by
    simp [posView, List.map_map, Function.comp_def]
  show e.pf.positions.map (fun p => (p.asset, floorI p.net)) = st.hold
  rw [h1, her.hold]
  simp only [castHold, List.map_map, Function.comp_def, floorI_eq, Int.floor_intCast]
  exact List.map_id' _

theorem mv_mapM (px : Px α) (t : Int) : ∀ (ps : Positions α) (hold : List (String × Int)),
    posView ps = castHold hold → (∀ p ∈ ps, px t p.asset = some p.price) →
    hold.mapM (fun (x : String × Int) => (px t x.1).map fun p => p * ofInt x.2) = some (ps.map Position.marketValue)
  | [], [], _, _ => rfl
  | [], _ :: _, hv, _ => by simp [posView, castHold] at hv
  | _ :: _, [], hv, _ => by simp [posView, castHold] at hv
  | p :: ps, x :: hold, hv, hm => by
    simp only [posView, castHold, List.map_cons, List.cons.injEq, Prod.mk.injEq] at hv
    obtain ⟨⟨h1, h2⟩, h3⟩ := hv
    have ih := mv_mapM px t ps hold h3 (fun q hq => hm q (List.mem_cons_of_mem _ hq))
    have hp := hm p List.mem_cons_self
    rw [h1] at hp
    rw [List.mapM_cons, hp, ih]
    simp only [Option.map_some, Option.bind_eq_bind, Option.bind_some, List.map_cons, Position.marketValue, h2,
      ofInt_eq]
    rfl

theorem marked_quoted (fee : FeeModel α) (px : Px α) (b : Broker α) (st : RefState α) (t : Int)
    (hbr : BR fee b st t) (hm : Marked px t b) : ∀ x ∈ st.hold, (px t x.1).isSome := by
  obtain ⟨⟨e, he, her⟩, _, _, _⟩ := hbr
  intro x hx
  have hk : x.1 ∈ Positions.keys e.pf.positions := by
    rw [keys_of_view her.hold]; exact List.mem_map.mpr ⟨x, hx, rfl⟩
  obtain ⟨p, hp, hpa⟩ := List.mem_map.mp hk
  have := hm e (by rw [he]; exact List.mem_singleton_self _) p hp
  rw [← hpa, this]; rfl

theorem equity_sim (fee : FeeModel α) (px : Px α) (b : Broker α) (st : RefState α) (t : Int)
    (hbr : BR fee b st t) (hm : Marked px t b) :
    refEquity px t st = some (equityOf b) ∧ (b.accountTotalEquity).2 = equityOf b := by
  obtain ⟨⟨e, he, her⟩, _, _, _⟩ := hbr
  have hmv := mv_mapM px t e.pf.positions st.hold her.hold
    (fun p hp => hm e (by rw [he]; exact List.mem_singleton_self _) p hp)
  constructor
  · unfold refEquity equityOf
    rw [find?_single he her.id]
    have : (st.hold.mapM fun (x : String × Int) => match x with | (a, q) => (px t a).map fun p => p * ofInt q)
        = some (e.pf.positions.map Position.marketValue) := hmv
    rw [this]
    simp only [Option.map_some, Portfolio.totalEquity, Portfolio.totalMarketValue, Positions.totalMarketValue,
      her.cash]
  · unfold Broker.accountTotalEquity equityOf
    rw [find?_single he her.id]
    simp [he, sumNaive]

/-! ## order submission -/

theorem submit_sim (fee : FeeModel α) (px : Px α) (b : Broker α) (st : RefState α) (t : Int) (o : Order)
    (hbr : BR fee b st t) (hq : o.qty ≠ 0) :
    ∃ b', b.submitOrder PORTFOLIO_ID o = (b', none) ∧
      BR fee b' { st with pending := st.pending ++ [(o.asset, o.qty)] } t ∧
      (Marked px t b → Marked px t b') := by
  obtain ⟨⟨e, he, her⟩, hclock, hfee, hlog⟩ := hbr
  unfold Broker.submitOrder
  rw [find?_single he her.id]
  refine ⟨_, rfl, ⟨⟨{ e with queue := e.queue ++ [o] }, by simp [Broker.setEntry, he], ?_⟩, hclock, hfee, hlog⟩, ?_⟩
  · refine ⟨her.id, her.cash, her.wf, her.hold, her.nz, ?_, ?_⟩
    · simp only [List.map_append, List.map_cons, List.map_nil, her.queue]
    · intro x hx
      rcases List.mem_append.mp hx with hx | hx
      · exact her.pnz x hx
      · simp only [List.mem_singleton] at hx; rw [hx]; exact hq
  · intro hm e' he' pos hp
    simp only [Broker.setEntry, he, List.map_cons, List.map_nil, beq_self_eq_true, if_true,
      List.mem_singleton] at he'
    subst he'
    exact hm e (by rw [he]; exact List.mem_singleton_self _) pos hp

/-! ## `ExecutionHandler.__call__` -/

theorem sellsFirst_single {β : Type} (P : β → Bool) (x : β) : sellsFirst P [x] = [x] := by
  unfold sellsFirst
  cases h : P x <;> simp [h]

/-- orders executed while the exchange is open (a rebalance at the open instant): each fills at once -/
theorem executeOrders_open (fee : FeeModel α) (px : Px α) (hpos : ∀ t a p, px t a = some p → 0 < p) (t : Int)
    (ho : isOpen t = true) :
    ∀ (orders : List (String × Int)) (b : Broker α) (n : Nat) (st : RefState α),
    BR fee b st t → Marked px t b → st.pending = [] → (∀ o ∈ orders, o.2 ≠ 0) →
    (executeOrders px t b n orders).2.2 = none →
    ∃ st', refFillAll fee px t st orders = some st' ∧
      BR fee (executeOrders px t b n orders).1 st' t ∧ Marked px t (executeOrders px t b n orders).1 ∧
      st'.pending = [] ∧ st'.equity = st.equity ∧ st'.allocDates = st.allocDates ∧
      (∀ k ∈ st'.hold.map (·.1), k ∈ st.hold.map (·.1) ∨ k ∈ orders.map (·.1))
  | [], b, n, st, hbr, hm, hp, _, _ => ⟨st, rfl, hbr, hm, hp, rfl, rfl, fun k hk => Or.inl hk⟩
  | (a, q) :: rest, b, n, st, hbr, hm, hp, hnz, hret => by
    have hq : q ≠ 0 := hnz (a, q) List.mem_cons_self
    obtain ⟨b1, hsub, hbr1, hm1⟩ := submit_sim fee px b st t { id := n, asset := a, qty := q } hbr hq
    unfold executeOrders at hret ⊢
    rw [hsub] at hret ⊢
    simp only at hret ⊢
    cases hup : b1.update t (quotesAt px t) with
    | mk b2 err =>
      cases err with
      | some e => rw [hup] at hret; simp at hret
      | none =>
        rw [hup] at hret
        simp only at hret ⊢
        have hret1 : (b1.update t (quotesAt px t)).2 = none := by rw [hup]
        have hquoted := marked_quoted fee px b1 _ t hbr1 (hm1 hm)
        obtain ⟨st1, hf1, hbr2, hm2, hp2, he2, ha2, hk2⟩ :=
          (update_sim fee px hpos b1 _ t t hbr1 (le_refl _) hquoted hret1).2 ho
        rw [hup] at hbr2 hm2
        have hst : ({ ({ st with pending := st.pending ++ [(a, q)] } : RefState α) with pending := [] } : RefState α) = st := by
          cases st; simp only at hp; subst hp; rfl
        simp only [hp, List.nil_append, sellsFirst_single] at hf1
        rw [hp] at hst
        simp only at hst hk2
        rw [hst] at hf1
        obtain ⟨st2, hf3, hbr3, hm3, hp3, he3, ha3, hk3⟩ :=
          executeOrders_open fee px hpos t ho rest b2 (n + 1) st1 hbr2 hm2 hp2
            (fun o h => hnz o (List.mem_cons_of_mem _ h)) hret
        refine ⟨st2, ?_, hbr3, hm3, hp3, he3.trans he2, ha3.trans ha2, ?_⟩
        · simp only [refFillAll] at hf1 ⊢
          cases hrf : refFill fee px t st (a, q) with
          | none => rw [hrf] at hf1; simp at hf1
          | some s1 =>
            rw [hrf] at hf1
            simp only [Option.bind_some, Option.some.injEq] at hf1
            subst hf1
            simp only [Option.bind_some, hf3]
        · intro k hk
          rcases hk3 k hk with h | h
          · rcases hk2 k h with h | h
            · exact Or.inl h
            · right
              simp only [hp, List.nil_append, List.map_cons, List.map_nil, List.mem_singleton] at h
              simp [h]
          · right; simp only [List.map_cons, List.mem_cons]; exact Or.inr h

/-- orders executed while the exchange is closed (a rebalance at the close): they queue up -/
theorem executeOrders_closed (fee : FeeModel α) (px : Px α) (hpos : ∀ t a p, px t a = some p → 0 < p) (t : Int)
    (ho : isOpen t = false) :
    ∀ (orders : List (String × Int)) (b : Broker α) (n : Nat) (st : RefState α),
    BR fee b st t → Marked px t b → (∀ o ∈ orders, o.2 ≠ 0) →
    (executeOrders px t b n orders).2.2 = none →
      BR fee (executeOrders px t b n orders).1 { st with pending := st.pending ++ orders } t ∧
      Marked px t (executeOrders px t b n orders).1
  | [], b, n, st, hbr, hm, _, _ => by
    simp only [List.append_nil]
    exact ⟨hbr, hm⟩
  | (a, q) :: rest, b, n, st, hbr, hm, hnz, hret => by
    have hq : q ≠ 0 := hnz (a, q) List.mem_cons_self
    obtain ⟨b1, hsub, hbr1, hm1⟩ := submit_sim fee px b st t { id := n, asset := a, qty := q } hbr hq
    unfold executeOrders at hret ⊢
    rw [hsub] at hret ⊢
    simp only at hret ⊢
    cases hup : b1.update t (quotesAt px t) with
    | mk b2 err =>
      cases err with
      | some e => rw [hup] at hret; simp at hret
      | none =>
        rw [hup] at hret
        simp only at hret ⊢
        have hret1 : (b1.update t (quotesAt px t)).2 = none := by rw [hup]
        have hquoted := marked_quoted fee px b1 _ t hbr1 (hm1 hm)
        obtain ⟨hbr2, hm2⟩ := (update_sim fee px hpos b1 _ t t hbr1 (le_refl _) hquoted hret1).1 ho
        rw [hup] at hbr2 hm2
        have := executeOrders_closed fee px hpos t ho rest b2 (n + 1) _ hbr2 hm2
            (fun o h => hnz o (List.mem_cons_of_mem _ h)) hret
        simpa only [List.append_assoc, List.singleton_append] using this

/-! ## `QuantTradingSystem.__call__` -/

/-- assets of the rebalance orders: held, universe or weighted assets -/
theorem orders_keys (cfg : SessionCfg α) (eq : α) (px : Px α) (t : Int) (hold : List (String × Int))
    (w : List (String × α)) (tq : List (String × Int))
    (h : (if cfg.longOnly then dwSize cfg.fee eq cfg.param (px t) (fullWeightVector hold (cfg.uni.assets t) w)
          else lsSize cfg.fee eq cfg.param (px t) (fullWeightVector hold (cfg.uni.assets t) w)) = .ok tq) :
    ∀ k ∈ (rebalanceOrders tq hold).map (·.1),
      k ∈ hold.map (·.1) ∨ k ∈ cfg.uni.assets t ∨ k ∈ w.map (·.1) := by
  intro k hk
  have h1 := (rebalanceOrders_keys_sublist tq hold).subset hk
  have h2 : k ∈ tq.map (·.1) := (sortByKey_keys_perm tq).mem_iff.mp h1
  have h3 : tq.map (·.1) = (sortByKey (fullWeightVector hold (cfg.uni.assets t) w)).map (·.1) := by
    split at h
    · exact dwSize_keys _ _ _ _ _ _ h
    · exact lsSize_keys _ _ _ _ _ _ h
  rw [h3] at h2
  have h4 := (sortByKey_keys_perm _).mem_iff.mp h2
  exact mem_fullWeightVector_keys.mp h4

/-- **A rebalance** (`rebalanceAt`) against `refOrders` (+ immediate fills when the exchange is open). -/
theorem rebalanceAt_sim (cfg : SessionCfg α) (w : List (String × α)) (px : Px α)
    (hpos : ∀ t a p, px t a = some p → 0 < p) (t : Int) (s : Session α) (st : RefState α)
    (hbr : BR cfg.fee s.broker st t) (hm : Marked px t s.broker)
    (hret : (rebalanceAt cfg (fixedAlpha w) px t s).2 = none) :
    ∃ os, refOrders cfg w px t st = some os ∧
      (rebalanceAt cfg (fixedAlpha w) px t s).1.equity = s.equity ∧
      (rebalanceAt cfg (fixedAlpha w) px t s).1.signals = s.signals ∧
      (rebalanceAt cfg (fixedAlpha w) px t s).1.allocations.map (·.1) = s.allocations.map (·.1) ++ [t] ∧
      (∀ k ∈ os.map (·.1), k ∈ st.hold.map (·.1) ∨ k ∈ cfg.uni.assets t ∨ k ∈ w.map (·.1)) ∧
      (isOpen t = true → st.pending = [] →
        ∃ st', refFillAll cfg.fee px t st os = some st' ∧
          BR cfg.fee (rebalanceAt cfg (fixedAlpha w) px t s).1.broker st' t ∧
          Marked px t (rebalanceAt cfg (fixedAlpha w) px t s).1.broker ∧
          st'.pending = [] ∧ st'.equity = st.equity ∧ st'.allocDates = st.allocDates ∧
          (∀ k ∈ st'.hold.map (·.1), k ∈ st.hold.map (·.1) ∨ k ∈ os.map (·.1))) ∧
      (isOpen t = false →
        BR cfg.fee (rebalanceAt cfg (fixedAlpha w) px t s).1.broker { st with pending := st.pending ++ os } t ∧
        Marked px t (rebalanceAt cfg (fixedAlpha w) px t s).1.broker) := by
  have hheld := heldOf_sim cfg.fee s.broker st t hbr
  obtain ⟨heq, _⟩ := equity_sim cfg.fee px s.broker st t hbr hm
  unfold rebalanceAt at hret ⊢
  simp only [fixedAlpha, fixedWeight, hheld] at hret ⊢
  generalize htgt : (if cfg.longOnly = true then
      dwSize cfg.fee (equityOf s.broker) cfg.param (px t) (fullWeightVector st.hold (cfg.uni.assets t) w)
    else lsSize cfg.fee (equityOf s.broker) cfg.param (px t) (fullWeightVector st.hold (cfg.uni.assets t) w)) = target
    at hret ⊢
  cases target with
  | error e => simp at hret
  | ok tq =>
    simp only at hret ⊢
    have hnz : ∀ o ∈ rebalanceOrders tq st.hold, o.2 ≠ 0 := fun o ho => rebalanceOrders_ne_zero ho
    refine ⟨rebalanceOrders tq st.hold, ?_, trivial, trivial, by simp, orders_keys cfg _ px t st.hold w tq htgt, ?_, ?_⟩
    · unfold refOrders
      rw [heq]
      simp only [htgt]
    · intro ho hp
      exact executeOrders_open cfg.fee px hpos t ho _ s.broker s.nextId st hbr hm hp hnz hret
    · intro ho
      exact executeOrders_closed cfg.fee px hpos t ho _ s.broker s.nextId st hbr hm hnz hret

/-! ## the stages of `refDay` -/

/-- stage 2 of `refDay`: a rebalance scheduled at the open instant trades at once -/
def refOpenReb (cfg : SessionCfg α) (w : List (String × α)) (px : Px α) (sched : List Int) (t : Int)
    (st1 : RefState α) : Option (RefState α) :=
  if burnOk cfg t && sched.contains t then do
    let os ← refOrders cfg w px t st1
    let st' ← refFillAll cfg.fee px t st1 os
    pure { st' with allocDates := st'.allocDates ++ [t] }
  else pure st1

/-- stage 3 of `refDay`: a rebalance scheduled at the close queues its orders -/
def refCloseReb (cfg : SessionCfg α) (w : List (String × α)) (px : Px α) (sched : List Int) (t : Int)
    (st2 : RefState α) : Option (RefState α) :=
  if burnOk cfg t && sched.contains t then do
    let os ← refOrders cfg w px t st2
    pure { st2 with pending := st2.pending ++ os, allocDates := st2.allocDates ++ [t] }
  else pure st2

/-- stage 4 of `refDay`: the equity record -/
def refCloseEq (cfg : SessionCfg α) (px : Px α) (t : Int) (st3 : RefState α) : Option (RefState α) :=
  if burnOk cfg t then do
    let eq ← refEquity px t st3
    pure { st3 with equity := st3.equity ++ [(t, eq)] }
  else pure st3

theorem refDay_eq (cfg : SessionCfg α) (w : List (String × α)) (px : Px α) (sched : List Int) (st : RefState α)
    (d : Int) :
    refDay cfg w px sched st d =
      (refFillAll cfg.fee px (d * 86400 + OPEN) { st with pending := [] }
          (sellsFirst (fun (o : String × Int) => decide (o.2 < 0)) st.pending)).bind fun st1 =>
        (refOpenReb cfg w px sched (d * 86400 + OPEN) st1).bind fun st2 =>
          (refCloseReb cfg w px sched (d * 86400 + CLOSE) st2).bind fun st3 =>
            refCloseEq cfg px (d * 86400 + CLOSE) st3 := rfl

/-- the session represents the reference state -/
structure SR (cfg : SessionCfg α) (s : Session α) (st : RefState α) (t : Int) : Prop where
  br : BR cfg.fee s.broker st t
  eq : s.equity = st.equity
  alloc : s.allocations.map (·.1) = st.allocDates
  sig : s.signals = none

/-- held and pending assets lie in the asset set `A` -/
def Assets (A : String → Prop) (st : RefState α) : Prop :=
  (∀ k ∈ st.hold.map (·.1), A k) ∧ (∀ k ∈ st.pending.map (·.1), A k)

/-- **The market-open event of a business day** against stages 1–2 of `refDay`. -/
theorem step_open (cfg : SessionCfg α) (w : List (String × α)) (px : Px α)
    (hpos : ∀ t a p, px t a = some p → 0 < p) (sched : List Int) (A : String → Prop)
    (hA : ∀ t a, a ∈ cfg.uni.assets t → A a) (hAw : ∀ a ∈ w.map (·.1), A a)
    (s : Session α) (st : RefState α) (t0 t : Int) (hsr : SR cfg s st t0) (ht : t0 ≤ t)
    (ho : isOpen t = true) (hq : ∀ a, A a → (px t a).isSome) (has : Assets A st)
    (hret : (s.step cfg (fixedAlpha w) px sched ⟨t, .marketOpen⟩).2 = none) :
    ∃ st1 st2, refFillAll cfg.fee px t { st with pending := [] }
          (sellsFirst (fun (o : String × Int) => decide (o.2 < 0)) st.pending) = some st1 ∧
      refOpenReb cfg w px sched t st1 = some st2 ∧
      SR cfg (s.step cfg (fixedAlpha w) px sched ⟨t, .marketOpen⟩).1 st2 t ∧
      Marked px t (s.step cfg (fixedAlpha w) px sched ⟨t, .marketOpen⟩).1.broker ∧
      st2.pending = [] ∧ Assets A st2 := by
  obtain ⟨hbr, heq, hal, hsig⟩ := hsr
  unfold Session.step at hret ⊢
  simp only at hret ⊢
  cases hup : s.broker.update t (quotesAt px t) with
  | mk b err =>
    cases err with
    | some e => rw [hup] at hret; simp at hret
    | none =>
      rw [hup] at hret
      simp only [hsig, reduceCtorEq, decide_false, Bool.false_and, Bool.false_eq_true, if_false] at hret ⊢
      have hret1 : (s.broker.update t (quotesAt px t)).2 = none := by rw [hup]
      obtain ⟨st1, hf1, hbr1, hm1, hp1, he1, ha1, hk1⟩ :=
        (update_sim cfg.fee px hpos s.broker st t0 t hbr ht
          (fun x hx => hq _ (has.1 _ (List.mem_map.mpr ⟨x, hx, rfl⟩))) hret1).2 ho
      rw [hup] at hbr1 hm1
      have has1 : Assets A st1 := by
        refine ⟨fun k hk => ?_, by rw [hp1]; intro k hk; cases hk⟩
        rcases hk1 k hk with h | h
        · exact has.1 k h
        · exact has.2 k h
      refine ⟨st1, ?_⟩
      unfold refOpenReb
      by_cases hc : (burnOk cfg t && sched.contains t) = true
      · simp only [if_pos hc] at hret ⊢
        cases hreb : rebalanceAt cfg (fixedAlpha w) px t
            { broker := b, allocations := s.allocations, equity := s.equity, nextId := s.nextId } with
        | mk s3 err =>
          cases err with
          | some e => rw [hreb] at hret; simp at hret
          | none =>
            have hret2 : (rebalanceAt cfg (fixedAlpha w) px t
                { broker := b, allocations := s.allocations, equity := s.equity, nextId := s.nextId }).2 = none := by
              rw [hreb]
            obtain ⟨os, hos, hre, hrs, hra, hrk, hropen, _⟩ :=
              rebalanceAt_sim cfg w px hpos t _ st1 hbr1 hm1 hret2
            obtain ⟨st', hf', hbr', hm', hp', he', ha', hk'⟩ := hropen ho hp1
            rw [hreb] at hre hrs hra hbr' hm'
            simp only at hre hrs hra hbr' hm' ⊢
            refine ⟨{ st' with allocDates := st'.allocDates ++ [t] }, hf1, ?_, ⟨?_, ?_, ?_, hrs⟩, hm', hp', ?_⟩
            · simp only [hos, hf', Option.bind_eq_bind, Option.bind_some]; rfl
            · obtain ⟨⟨e, he1', her⟩, h2, h3, h4⟩ := hbr'
              exact ⟨⟨e, he1', ⟨her.id, her.cash, her.wf, her.hold, her.nz, her.queue, her.pnz⟩⟩, h2, h3, h4⟩
            · rw [hre, heq, he', he1]
            · rw [hra, hal, ha', ha1]
            · refine ⟨fun k hk => ?_, by show ∀ k ∈ st'.pending.map (·.1), A k; rw [hp']; intro k hk; cases hk⟩
              rcases hk' k hk with h | h
              · exact has1.1 k h
              · rcases hrk k h with h | h | h
                · exact has1.1 k h
                · exact hA t k h
                · exact hAw k h
      · simp only [if_neg hc] at hret ⊢
        exact ⟨st1, hf1, rfl, ⟨hbr1, heq.trans he1.symm, hal.trans ha1.symm, rfl⟩, hm1, hp1, has1⟩

/-- **The market-close event of a business day** against stages 3–4 of `refDay`. -/
theorem step_close (cfg : SessionCfg α) (w : List (String × α)) (px : Px α)
    (hpos : ∀ t a p, px t a = some p → 0 < p) (sched : List Int) (A : String → Prop)
    (hA : ∀ t a, a ∈ cfg.uni.assets t → A a) (hAw : ∀ a ∈ w.map (·.1), A a)
    (s : Session α) (st : RefState α) (t0 t : Int) (hsr : SR cfg s st t0) (ht : t0 ≤ t)
    (ho : isOpen t = false) (hq : ∀ a, A a → (px t a).isSome) (has : Assets A st)
    (hret : (s.step cfg (fixedAlpha w) px sched ⟨t, .marketClose⟩).2 = none) :
    ∃ st3 st4, refCloseReb cfg w px sched t st = some st3 ∧ refCloseEq cfg px t st3 = some st4 ∧
      SR cfg (s.step cfg (fixedAlpha w) px sched ⟨t, .marketClose⟩).1 st4 t ∧ Assets A st4 := by
  obtain ⟨hbr, heq, hal, hsig⟩ := hsr
  unfold Session.step at hret ⊢
  simp only at hret ⊢
  cases hup : s.broker.update t (quotesAt px t) with
  | mk b err =>
    cases err with
    | some e => rw [hup] at hret; simp at hret
    | none =>
      rw [hup] at hret
      simp only [hsig, decide_true, Bool.true_and] at hret ⊢
      have hret1 : (s.broker.update t (quotesAt px t)).2 = none := by rw [hup]
      obtain ⟨hbr1, hm1⟩ :=
        (update_sim cfg.fee px hpos s.broker st t0 t hbr ht
          (fun x hx => hq _ (has.1 _ (List.mem_map.mpr ⟨x, hx, rfl⟩))) hret1).1 ho
      rw [hup] at hbr1 hm1
      simp only at hbr1 hm1
      -- the equity stage, for any state reached after the rebalance stage
      have hfin : ∀ (s3 : Session α) (st3 : RefState α), SR cfg s3 st3 t → Marked px t s3.broker → Assets A st3 →
          ∃ st4, refCloseEq cfg px t st3 = some st4 ∧
            SR cfg (if burnOk cfg t = true then
                ({ s3 with equity := s3.equity ++ [(t, (s3.broker.accountTotalEquity).2)] }, (none : Option Err))
              else (s3, none)).1 st4 t ∧ Assets A st4 := by
        intro s3 st3 hsr3 hm3 has3
        obtain ⟨hbr3, heq3, hal3, hsig3⟩ := hsr3
        obtain ⟨hre, hacc⟩ := equity_sim cfg.fee px s3.broker st3 t hbr3 hm3
        unfold refCloseEq
        by_cases hb : burnOk cfg t = true
        · simp only [if_pos hb, hre, Option.bind_eq_bind, Option.bind_some]
          refine ⟨_, rfl, ⟨?_, ?_, hal3, hsig3⟩, has3⟩
          · obtain ⟨⟨e, he1', her⟩, h2, h3, h4⟩ := hbr3
            exact ⟨⟨e, he1', ⟨her.id, her.cash, her.wf, her.hold, her.nz, her.queue, her.pnz⟩⟩, h2, h3, h4⟩
          · show s3.equity ++ _ = st3.equity ++ _
            rw [heq3, hacc]
        · simp only [if_neg hb]
          exact ⟨st3, rfl, ⟨hbr3, heq3, hal3, hsig3⟩, has3⟩
      unfold refCloseReb
      by_cases hc : (burnOk cfg t && sched.contains t) = true
      · simp only [if_pos hc] at hret ⊢
        cases hreb : rebalanceAt cfg (fixedAlpha w) px t
            { broker := b, allocations := s.allocations, equity := s.equity, nextId := s.nextId } with
        | mk s3 err =>
          cases err with
          | some e => rw [hreb] at hret; simp at hret
          | none =>
            have hret2 : (rebalanceAt cfg (fixedAlpha w) px t
                { broker := b, allocations := s.allocations, equity := s.equity, nextId := s.nextId }).2 = none := by
              rw [hreb]
            obtain ⟨os, hos, hre, hrs, hra, hrk, _, hrclosed⟩ :=
              rebalanceAt_sim cfg w px hpos t _ st hbr1 hm1 hret2
            obtain ⟨hbr', hm'⟩ := hrclosed ho
            rw [hreb] at hre hrs hra hbr' hm'
            simp only at hre hrs hra hbr' hm' ⊢
            have hsr3 : SR cfg s3 { st with pending := st.pending ++ os, allocDates := st.allocDates ++ [t] } t := by
              refine ⟨?_, by rw [hre, heq], by rw [hra, hal], hrs⟩
              obtain ⟨⟨e, he1', her⟩, h2, h3, h4⟩ := hbr'
              exact ⟨⟨e, he1', ⟨her.id, her.cash, her.wf, her.hold, her.nz, her.queue, her.pnz⟩⟩, h2, h3, h4⟩
            have has3 : Assets A { st with pending := st.pending ++ os, allocDates := st.allocDates ++ [t] } := by
              refine ⟨has.1, ?_⟩
              intro k hk
              simp only [List.map_append, List.mem_append] at hk
              rcases hk with h | h
              · exact has.2 k h
              · rcases hrk k h with h | h | h
                · exact has.1 k h
                · exact hA t k h
                · exact hAw k h
            obtain ⟨st4, h4, hsr4, has4⟩ := hfin s3 _ hsr3 hm' has3
            refine ⟨_, st4, ?_, h4, hsr4, has4⟩
            simp only [hos, Option.bind_eq_bind, Option.bind_some]; rfl
      · simp only [if_neg hc] at hret ⊢
        have hsr3 : SR cfg { broker := b, allocations := s.allocations, equity := s.equity, nextId := s.nextId } st t :=
          ⟨hbr1, heq, hal, rfl⟩
        obtain ⟨st4, h4, hsr4, has4⟩ := hfin _ st hsr3 hm1 has
        exact ⟨st, st4, rfl, h4, hsr4, has4⟩

end
end Qs.Ref
