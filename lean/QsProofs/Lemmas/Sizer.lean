import QsProofs.Inst
import QsModel.Sizer
import Mathlib.Algebra.BigOperators.Group.List.Basic
import Mathlib.Algebra.Order.BigOperators.Group.List
import Mathlib.Data.List.Nodup
import Mathlib.Data.List.Perm.Basic

/-!
# Helper lemmas for the order sizers (C10, C11)

* exact-arithmetic meaning of `Num.sumNaive`, `Num.sumNeumaier`, `Num.isCloseZero`, `Num.truncI`,
  `FeeModel.totalCost`;
* `List.mapM` in `Except` (all steps succeed / some step fails);
* `Qs.sortByKey` (permutation, membership, sortedness by key);
* one-asset lemmas for `Qs.dwQuantity` and `Qs.lsQuantity`;
* the shape of a successful `Qs.dwSize` / `Qs.lsSize` call.
-/

set_option linter.unusedSectionVars false

namespace Qs
open NumOps Num

/-! ## `List.mapM` in `Except` -/

section MapM
variable {β γ ε : Type}

theorem mapM_except_ok (f : β → Except ε γ) (g : β → γ) (l : List β)
    (h : ∀ x ∈ l, f x = .ok (g x)) : l.mapM f = .ok (l.map g) := by
  induction l with
  | nil => rfl
  | cons x xs ih =>
    rw [List.mapM_cons, h x (by simp), ih (fun y hy => h y (List.mem_cons_of_mem _ hy))]
    rfl

theorem mapM_except_error (f : β → Except ε γ) (e : ε) (l : List β)
    (hall : ∀ x ∈ l, ∀ e', f x = .error e' → e' = e)
    (hex : ∃ x ∈ l, ∃ e', f x = .error e') : l.mapM f = .error e := by
  induction l with
  | nil => obtain ⟨x, hx, _⟩ := hex; simp at hx
  | cons x xs ih =>
    rw [List.mapM_cons]
    cases hfx : f x with
    | error e' =>
      rw [hall x (by simp) e' hfx]; rfl
    | ok y =>
      have hex' : ∃ z ∈ xs, ∃ e', f z = .error e' := by
        obtain ⟨z, hz, e', hze⟩ := hex
        rcases List.mem_cons.mp hz with rfl | hz'
        · rw [hfx] at hze; cases hze
        · exact ⟨z, hz', e', hze⟩
      rw [ih (fun z hz => hall z (List.mem_cons_of_mem _ hz)) hex']
      rfl

end MapM

/-- The per-asset step of both sizers: look the price up, fail on a NaN price. -/
theorem mapM_price {α : Type} (price : String → Option α) (h : α → α → Int) (d : α) (l : List (String × α)) :
    ((∀ x ∈ l, ∃ p, price x.1 = some p) ∧
      (l.mapM fun (a, weight) =>
        match price a with
        | none => (Except.error Err.value : Except Err (String × Int))
        | some p => .ok (a, h weight p)) = .ok (l.map fun x => (x.1, h x.2 ((price x.1).getD d)))) ∨
    ((∃ x ∈ l, price x.1 = none) ∧
      (l.mapM fun (a, weight) =>
        match price a with
        | none => (Except.error Err.value : Except Err (String × Int))
        | some p => .ok (a, h weight p)) = .error .value) := by
  by_cases hall : ∀ x ∈ l, ∃ p, price x.1 = some p
  · left
    refine ⟨hall, mapM_except_ok _ _ _ ?_⟩
    rintro ⟨a, wt⟩ hx
    obtain ⟨p, hp⟩ := hall _ hx
    simp only [] at hp
    simp only [hp, Option.getD_some]
  · right
    have hex : ∃ x ∈ l, price x.1 = none := by
      by_contra hcon
      apply hall
      intro x hx
      cases hpx : price x.1 with
      | none => exact absurd ⟨x, hx, hpx⟩ hcon
      | some p => exact ⟨p, rfl⟩
    refine ⟨hex, mapM_except_error _ _ _ ?_ ?_⟩
    · rintro ⟨a, wt⟩ _ e' he
      simp only [] at he
      split at he
      · cases he; rfl
      · cases he
    · obtain ⟨⟨a, wt⟩, hx, hxn⟩ := hex
      simp only [] at hxn
      exact ⟨(a, wt), hx, .value, by simp only [hxn]⟩

/-! ## `sortByKey` -/

section SortLemmas
variable {β : Type}

theorem sortByKey_perm (l : List (String × β)) : (sortByKey l).Perm l := List.mergeSort_perm _ _

@[simp] theorem mem_sortByKey {x : String × β} {l : List (String × β)} : x ∈ sortByKey l ↔ x ∈ l :=
  List.mem_mergeSort

@[simp] theorem length_sortByKey (l : List (String × β)) : (sortByKey l).length = l.length :=
  List.length_mergeSort l

theorem sortByKey_pairwise (l : List (String × β)) : (sortByKey l).Pairwise (fun a b => a.1 ≤ b.1) := by
  have h := List.pairwise_mergeSort (le := fun (a b : String × β) => decide (a.1 ≤ b.1))
    (fun a b c hab hbc => by
      simp only [decide_eq_true_eq] at hab hbc ⊢
      exact String.le_trans hab hbc)
    (fun a b => by
      simp only [Bool.or_eq_true, decide_eq_true_eq]
      exact String.le_total a.1 b.1) l
  exact h.imp (fun hab => by simpa using hab)

theorem sortByKey_keys_perm (l : List (String × β)) :
    ((sortByKey l).map (·.1)).Perm (l.map (·.1)) := (sortByKey_perm l).map _

theorem sortByKey_keys_sorted (l : List (String × β)) :
    ((sortByKey l).map (·.1)).Pairwise (· ≤ ·) := by
  rw [List.pairwise_map]; exact sortByKey_pairwise l

theorem sortByKey_singleton (x : String × β) : sortByKey [x] = [x] := by
  simp [sortByKey]

theorem sortByKey_pair (k1 k2 : String) (x y : β) :
    sortByKey [(k1, x), (k2, y)] = if k1 ≤ k2 then [(k1, x), (k2, y)] else [(k2, y), (k1, x)] := by
  unfold sortByKey
  rw [List.mergeSort]
  simp [List.MergeSort.Internal.splitInTwo, List.merge]

theorem string_lt_of_le_of_ne {a b : String} (h : a ≤ b) (hne : a ≠ b) : a < b := by
  by_contra hlt
  exact hne (String.le_antisymm h (String.not_lt.mp hlt))

/-- a list of pairwise-distinct keys in ascending order is in strictly ascending order -/
theorem pairwise_lt_of_le_of_nodup {l : List String} (h : l.Pairwise (· ≤ ·)) (hnd : l.Nodup) :
    l.Pairwise (· < ·) :=
  (h.and hnd).imp (fun hab => string_lt_of_le_of_ne hab.1 hab.2)

/-- with pairwise-distinct keys an association list is a function -/
theorem eq_of_nodup_keys {l : List (String × β)} (hnd : (l.map (·.1)).Nodup) {a : String} {x y : β}
    (hx : (a, x) ∈ l) (hy : (a, y) ∈ l) : x = y := by
  have := List.inj_on_of_nodup_map hnd hx hy rfl
  exact (Prod.mk.inj this).2

end SortLemmas

/-- Both sizers: after normalisation (`nw` has the keys of `w`) the sorted list is mapped through the
price lookup; either every key has a price and the result is the plain `map`, or some key has no price
and the call fails with `ValueError`. -/
theorem sizer_mapM {α : Type} (price : String → Option α) (h : α → α → Int) (d : α)
    (w nw : List (String × α)) (hk : nw.map (·.1) = w.map (·.1)) :
    ((∀ x ∈ w, ∃ p, price x.1 = some p) ∧
      ((sortByKey nw).mapM fun (a, weight) =>
        match price a with
        | none => (Except.error Err.value : Except Err (String × Int))
        | some p => .ok (a, h weight p)) =
        .ok ((sortByKey nw).map fun x => (x.1, h x.2 ((price x.1).getD d)))) ∨
    ((∃ x ∈ w, price x.1 = none) ∧
      ((sortByKey nw).mapM fun (a, weight) =>
        match price a with
        | none => (Except.error Err.value : Except Err (String × Int))
        | some p => .ok (a, h weight p)) = .error .value) := by
  have key : ∀ x ∈ sortByKey nw, ∃ y ∈ w, y.1 = x.1 := by
    intro x hx
    have : x.1 ∈ nw.map (·.1) := List.mem_map_of_mem (mem_sortByKey.mp hx)
    rw [hk] at this
    obtain ⟨y, hy, e⟩ := List.mem_map.mp this
    exact ⟨y, hy, e⟩
  have key' : ∀ y ∈ w, ∃ x ∈ sortByKey nw, x.1 = y.1 := by
    intro y hy
    have : y.1 ∈ w.map (·.1) := List.mem_map_of_mem hy
    rw [← hk] at this
    obtain ⟨x, hx, e⟩ := List.mem_map.mp this
    exact ⟨x, mem_sortByKey.mpr hx, e⟩
  rcases mapM_price price h d (sortByKey nw) with ⟨h1, h2⟩ | ⟨h1, h2⟩
  · left
    refine ⟨?_, h2⟩
    intro y hy
    obtain ⟨x, hx, e⟩ := key' y hy
    rw [← e]; exact h1 x hx
  · right
    refine ⟨?_, h2⟩
    obtain ⟨x, hx, hxn⟩ := h1
    obtain ⟨y, hy, e⟩ := key x hx
    exact ⟨y, hy, by rw [e]; exact hxn⟩

/-! ## Exact-arithmetic meaning of the numeric helpers -/

section Numeric
variable {α : Type} [Field α] [LinearOrder α] [IsStrictOrderedRing α] [FloorRing α] [NumOps α] [LawfulNumOps α]

theorem foldl_add_eq (l : List α) (a : α) : l.foldl (· + ·) a = a + l.sum := by
  induction l generalizing a with
  | nil => simp
  | cons x xs ih => rw [List.foldl_cons, ih, List.sum_cons]; ring

/-- `sum()` over `numpy.float64` items is the plain sum in exact arithmetic -/
theorem sumNaive_eq (l : List α) : sumNaive l = l.sum := by
  unfold sumNaive; rw [foldl_add_eq]; simp

/-- Neumaier's compensation term is exactly `0` in exact arithmetic -/
theorem neumaierStep_zero (a x : α) : neumaierStep (a, 0) x = (a + x, 0) := by
  unfold neumaierStep
  have e1 : (0 : α) + ((a - (a + x)) + x) = 0 := by ring
  have e2 : (0 : α) + ((x - (a + x)) + a) = 0 := by ring
  simp only [e1, e2, ite_self]

theorem foldl_neumaier (l : List α) (a : α) : l.foldl neumaierStep (a, 0) = (a + l.sum, 0) := by
  induction l generalizing a with
  | nil => simp
  | cons x xs ih => rw [List.foldl_cons, neumaierStep_zero, ih, List.sum_cons]; congr 1; ring

/-- CPython's compensated `sum()` is the plain sum in exact arithmetic -/
theorem sumNeumaier_eq (l : List α) : sumNeumaier l = l.sum := by
  unfold sumNeumaier
  simp only [zero_eq]
  rw [foldl_neumaier]; simp

theorem isCloseZero_eq (x : α) : isCloseZero x = decide (|x| ≤ tiny) := by
  simp [isCloseZero]

theorem truncI_eq (x : α) : truncI x = if 0 ≤ x then ⌊x⌋ else ⌈x⌉ := by
  simp [truncI]

/-- total fee rate of a fee model: `commission + tax` (`0` for the zero-fee model) -/
def feeRate : FeeModel α → α
  | .zero => 0
  | .percent c τ => c + τ

/-- both rates of a fee model are non-negative -/
def FeeNonneg : FeeModel α → Prop
  | .zero => True
  | .percent c τ => 0 ≤ c ∧ 0 ≤ τ

@[simp] theorem feeRate_zero : feeRate (FeeModel.zero : FeeModel α) = 0 := rfl
@[simp] theorem feeRate_percent (c τ : α) : feeRate (FeeModel.percent c τ) = c + τ := rfl
@[simp] theorem feeNonneg_zero : FeeNonneg (FeeModel.zero : FeeModel α) := trivial
@[simp] theorem feeNonneg_percent (c τ : α) : FeeNonneg (FeeModel.percent c τ) ↔ 0 ≤ c ∧ 0 ≤ τ := Iff.rfl

theorem feeRate_nonneg {fee : FeeModel α} (h : FeeNonneg fee) : 0 ≤ feeRate fee := by
  cases fee with
  | zero => simp
  | percent c τ => obtain ⟨h1, h2⟩ := h; simp only [feeRate_percent]; linarith

theorem totalCost_eq (fee : FeeModel α) (x : α) : fee.totalCost x = feeRate fee * |x| := by
  cases fee with
  | zero => simp [FeeModel.totalCost]
  | percent c τ => simp only [FeeModel.totalCost, abs_eq', feeRate_percent]; ring

/-! ### truncation toward zero -/

theorem truncI_abs_le (x : α) : |((truncI x : Int) : α)| ≤ |x| ∧ |x| - 1 < |((truncI x : Int) : α)| := by
  rw [truncI_eq]
  split
  · rename_i h
    have h1 := Int.floor_le x
    have h2 := Int.lt_floor_add_one x
    have h0 : (0 : α) ≤ (⌊x⌋ : α) := by exact_mod_cast Int.floor_nonneg.mpr h
    rw [abs_of_nonneg h, abs_of_nonneg h0]
    constructor <;> linarith
  · rename_i h
    have hx : x < 0 := lt_of_not_ge h
    have h1 := Int.le_ceil x
    have h2 := Int.ceil_lt_add_one x
    have h0 : ((⌈x⌉ : Int) : α) ≤ 0 := by exact_mod_cast Int.ceil_le.mpr (by simpa using hx.le)
    rw [abs_of_neg hx, abs_of_nonpos h0]
    constructor <;> linarith

theorem truncI_sign (x : α) : (0 ≤ x → 0 ≤ truncI x) ∧ (x ≤ 0 → truncI x ≤ 0) := by
  rw [truncI_eq]
  constructor
  · intro h; simp [h, Int.floor_nonneg.mpr h]
  · intro h
    split
    · rename_i h'
      have : x = 0 := le_antisymm h h'
      simp [this]
    · exact Int.ceil_le.mpr (by simpa using h)

theorem truncI_of_nonneg_eq {x : α} {z : Int} (h0 : 0 ≤ x) (h1 : (z : α) ≤ x) (h2 : x < z + 1) :
    truncI x = z := by
  rw [truncI_eq, if_pos h0]; exact Int.floor_eq_iff.mpr ⟨h1, h2⟩

theorem truncI_of_neg_eq {x : α} {z : Int} (h0 : x < 0) (h1 : (z : α) - 1 < x) (h2 : x ≤ z) :
    truncI x = z := by
  rw [truncI_eq, if_neg (not_le.mpr h0)]; exact Int.ceil_eq_iff.mpr ⟨h1, h2⟩

end Numeric

/-! ## One asset -/

section OneAsset
variable {α : Type} [Field α] [LinearOrder α] [IsStrictOrderedRing α] [FloorRing α] [NumOps α] [LawfulNumOps α]

theorem dwQuantity_eq (fee : FeeModel α) (B w p : α) :
    dwQuantity fee B w p = ⌊(B * w - feeRate fee * |B * w|) / p⌋ := by
  simp only [dwQuantity, totalCost_eq, floorI_eq]

/-- the long-only quantity is the largest non-negative whole number whose cost plus the fee estimate fits
the allocation `B * w` -/
theorem dwQuantity_spec (fee : FeeModel α) (B w p : α) (hA : 0 ≤ B * w) (hp : 0 < p)
    (hf1 : feeRate fee ≤ 1) :
    0 ≤ dwQuantity fee B w p ∧
    (dwQuantity fee B w p : α) * p + feeRate fee * (B * w) ≤ B * w ∧
    B * w < ((dwQuantity fee B w p : α) + 1) * p + feeRate fee * (B * w) := by
  rw [dwQuantity_eq, abs_of_nonneg hA]
  have hnum : 0 ≤ B * w - feeRate fee * (B * w) := by
    have := mul_nonneg hA (sub_nonneg.mpr hf1); linarith
  refine ⟨Int.floor_nonneg.mpr (div_nonneg hnum hp.le), ?_, ?_⟩
  · have := Int.floor_le ((B * w - feeRate fee * (B * w)) / p)
    have := (le_div_iff₀ hp).mp this
    linarith
  · have := Int.lt_floor_add_one ((B * w - feeRate fee * (B * w)) / p)
    have := (div_lt_iff₀ hp).mp this
    linarith

theorem dwQuantity_zero (fee : FeeModel α) (B p : α) : dwQuantity fee B 0 p = 0 := by
  rw [dwQuantity_eq]; simp

theorem lsQuantity_eq (fee : FeeModel α) (E w p : α) :
    lsQuantity fee E w p = truncI (((truncI (E * w - feeRate fee * |E * w|) : Int) : α) / p) := by
  simp only [lsQuantity, totalCost_eq, ofInt_eq]

theorem lsQuantity_zero (fee : FeeModel α) (E p : α) : lsQuantity fee E 0 p = 0 := by
  rw [lsQuantity_eq]; simp [truncI_eq]

/-- affordability of the long/short quantity against the after-cost dollars `D` -/
theorem lsQuantity_afford (fee : FeeModel α) (E w p : α) (hp : 0 < p) :
    |(lsQuantity fee E w p : α)| * p ≤ |E * w - feeRate fee * _root_.abs (E * w)| ∧
    |E * w - feeRate fee * _root_.abs (E * w)| - 1 < (|(lsQuantity fee E w p : α)| + 1) * p := by
  rw [lsQuantity_eq]
  generalize E * w - feeRate fee * _root_.abs (E * w) = D
  obtain ⟨h1, h2⟩ := truncI_abs_le D
  obtain ⟨h3, h4⟩ := truncI_abs_le (((truncI D : Int) : α) / p)
  rw [abs_div, abs_of_pos hp] at h3 h4
  constructor
  · have := (le_div_iff₀ hp).mp h3
    linarith
  · have : |((truncI D : Int) : α)| / p < |((truncI (((truncI D : Int) : α) / p) : Int) : α)| + 1 := by linarith
    have := (div_lt_iff₀ hp).mp this
    linarith

/-- the long/short quantity carries the sign of the after-cost dollars -/
theorem lsQuantity_sign_D (fee : FeeModel α) (E w p : α) (hp : 0 < p) :
    (0 ≤ E * w - feeRate fee * |E * w| → 0 ≤ lsQuantity fee E w p) ∧
    (E * w - feeRate fee * |E * w| ≤ 0 → lsQuantity fee E w p ≤ 0) := by
  rw [lsQuantity_eq]
  generalize E * w - feeRate fee * _root_.abs (E * w) = D
  constructor
  · intro h
    have h1 : (0 : α) ≤ ((truncI D : Int) : α) := by exact_mod_cast (truncI_sign D).1 h
    exact (truncI_sign _).1 (div_nonneg h1 hp.le)
  · intro h
    have h1 : ((truncI D : Int) : α) ≤ 0 := by exact_mod_cast (truncI_sign D).2 h
    exact (truncI_sign _).2 (div_nonpos_of_nonpos_of_nonneg h1 hp.le)

/-- the long/short quantity carries the sign of the allocation when the fee rate is in `[0, 1]` -/
theorem lsQuantity_sign (fee : FeeModel α) (E w p : α) (hp : 0 < p)
    (hf0 : 0 ≤ feeRate fee) (hf1 : feeRate fee ≤ 1) :
    (0 ≤ E * w → 0 ≤ lsQuantity fee E w p) ∧ (E * w ≤ 0 → lsQuantity fee E w p ≤ 0) := by
  obtain ⟨h1, h2⟩ := lsQuantity_sign_D fee E w p hp
  constructor
  · intro h
    apply h1
    rw [abs_of_nonneg h]; nlinarith
  · intro h
    apply h2
    rw [abs_of_nonpos h]; nlinarith

/-- `|D| ≤ (1 + f) |A|` -/
theorem afterCost_abs_le (f A : α) (hf0 : 0 ≤ f) : |A - f * _root_.abs A| ≤ (1 + f) * |A| := by
  have h1 : |A - f * _root_.abs A| ≤ |A| + |f * _root_.abs A| := abs_sub _ _
  rw [abs_mul, abs_abs, abs_of_nonneg hf0] at h1
  linarith

end OneAsset

/-! ## Shape of a sizer call -/

section Shape
variable {α : Type} [Field α] [LinearOrder α] [IsStrictOrderedRing α] [FloorRing α] [NumOps α] [LawfulNumOps α]

/-- the weights the long-only sizer works with (`_normalise_weights` on non-negative weights) -/
theorem dwNormalise_ok (w : Weights α) (hnn : ∀ x ∈ w, 0 ≤ x.2) :
    dwNormalise w = .ok (if |(w.map (·.2)).sum| ≤ tiny then w
      else w.map fun x => (x.1, x.2 / (w.map (·.2)).sum)) := by
  unfold dwNormalise
  have hany : (w.any fun x => lt x.2 zero) = false := by
    rw [List.any_eq_false]
    intro x hx
    simp [not_lt.mpr (hnn x hx)]
  rw [hany]
  simp only [Bool.false_eq_true, if_false, sumNeumaier_eq, isCloseZero_eq, decide_eq_true_eq]
  split <;> rfl

theorem dwNormalise_neg (w : Weights α) (hneg : ∃ x ∈ w, x.2 < 0) :
    dwNormalise w = .error .value := by
  unfold dwNormalise
  have hany : (w.any fun x => lt x.2 zero) = true := by
    rw [List.any_eq_true]
    obtain ⟨x, hx, h⟩ := hneg
    exact ⟨x, hx, by simp [h]⟩
  rw [hany]; rfl

theorem lsNormalise_eq (L : α) (w : Weights α) :
    lsNormalise L w = if |(w.map fun x => |x.2|).sum| ≤ tiny then w
      else w.map fun x => (x.1, x.2 * (L / (w.map fun x => |x.2|).sum)) := by
  unfold lsNormalise
  simp only [sumNaive_eq, isCloseZero_eq, decide_eq_true_eq, abs_eq']

theorem ite_map_keys (c : Prop) [Decidable c] (w : Weights α) (g : α → α) :
    (if c then w else w.map fun x => (x.1, g x.2)).map (·.1) = w.map (·.1) := by
  split
  · rfl
  · rw [List.map_map]; rfl

/-- the weights the long-only sizer works with: `w / Σw`, or `w` itself when `Σw` is `isclose` to zero -/
def dwNorm (w : Weights α) : Weights α :=
  if |(w.map (·.2)).sum| ≤ tiny then w else w.map fun x => (x.1, x.2 / (w.map (·.2)).sum)

/-- the weights the long/short sizer works with: `w * (L / Σ|w|)`, or `w` itself when `Σ|w|` is `isclose`
to zero -/
def lsNorm (L : α) (w : Weights α) : Weights α :=
  if |(w.map fun x => |x.2|).sum| ≤ tiny then w
  else w.map fun x => (x.1, x.2 * (L / (w.map fun x => |x.2|).sum))

theorem dwNorm_keys (w : Weights α) : (dwNorm w).map (·.1) = w.map (·.1) := by
  unfold dwNorm; exact ite_map_keys _ w (fun v => v / (w.map (·.2)).sum)
theorem lsNorm_keys (L : α) (w : Weights α) : (lsNorm L w).map (·.1) = w.map (·.1) := by
  unfold lsNorm; exact ite_map_keys _ w (fun v => v * (L / (w.map fun x => |x.2|).sum))

theorem dwNorm_of_tiny_lt (w : Weights α) (hS : tiny < (w.map (·.2)).sum) :
    dwNorm w = w.map fun x => (x.1, x.2 / (w.map (·.2)).sum) := by
  unfold dwNorm
  rw [if_neg]
  rw [abs_of_pos (lt_of_le_of_lt tiny_nonneg hS)]
  exact not_le.mpr hS

theorem lsNorm_of_tiny_lt (L : α) (w : Weights α) (hG : tiny < (w.map fun x => |x.2|).sum) :
    lsNorm L w = w.map fun x => (x.1, x.2 * (L / (w.map fun x => |x.2|).sum)) := by
  unfold lsNorm
  rw [if_neg]
  rw [abs_of_pos (lt_of_le_of_lt tiny_nonneg hG)]
  exact not_le.mpr hG

theorem dwNorm_of_le_tiny (w : Weights α) (hS : |(w.map (·.2)).sum| ≤ tiny) : dwNorm w = w := by
  unfold dwNorm; rw [if_pos hS]

theorem lsNorm_of_le_tiny (L : α) (w : Weights α) (hG : |(w.map fun x => |x.2|).sum| ≤ tiny) :
    lsNorm L w = w := by
  unfold lsNorm; rw [if_pos hG]

theorem dwNorm_of_zero (w : Weights α) (h0 : ∀ x ∈ w, x.2 = 0) : dwNorm w = w := by
  unfold dwNorm
  have : (w.map (·.2)).sum = 0 := by
    apply List.sum_eq_zero
    intro y hy
    obtain ⟨x, hx, rfl⟩ := List.mem_map.mp hy
    exact h0 x hx
  rw [this, abs_zero, if_pos tiny_nonneg]

theorem lsNorm_of_zero (L : α) (w : Weights α) (h0 : ∀ x ∈ w, x.2 = 0) : lsNorm L w = w := by
  unfold lsNorm
  have : (w.map fun x => |x.2|).sum = 0 := by
    apply List.sum_eq_zero
    intro y hy
    obtain ⟨x, hx, rfl⟩ := List.mem_map.mp hy
    simp [h0 x hx]
  rw [this, abs_zero, if_pos tiny_nonneg]

theorem isEmpty_false_of_ne_nil {β : Type} {w : List β} (h : w ≠ []) : w.isEmpty = false := by
  cases w with
  | nil => exact absurd rfl h
  | cons _ _ => rfl

/-- a long-only sizing call on non-empty, non-negative weights: every key priced and the result is the
plain map over the sorted normalised weights, or some key unpriced and the call fails -/
theorem dwSize_cases (fee : FeeModel α) (E b : α) (price : String → Option α) (w : Weights α)
    (hne : w ≠ []) (hnn : ∀ x ∈ w, 0 ≤ x.2) :
    ((∀ x ∈ w, ∃ p, price x.1 = some p) ∧
      dwSize fee E b price w = .ok ((sortByKey (dwNorm w)).map fun x =>
        (x.1, dwQuantity fee (E * (1 - b)) x.2 ((price x.1).getD 0)))) ∨
    ((∃ x ∈ w, price x.1 = none) ∧ dwSize fee E b price w = .error .value) := by
  have hun : dwSize fee E b price w = (sortByKey (dwNorm w)).mapM fun (a, weight) =>
      match price a with
      | none => (Except.error Err.value : Except Err (String × Int))
      | some p => .ok (a, dwQuantity fee (E * (1 - b)) weight p) := by
    unfold dwSize
    simp only [isEmpty_false_of_ne_nil hne, Bool.false_eq_true, if_false, dwNormalise_ok w hnn, one_eq]
    rfl
  rw [hun]
  exact sizer_mapM price (dwQuantity fee (E * (1 - b))) 0 w (dwNorm w) (dwNorm_keys w)

/-- a long/short sizing call on non-empty weights -/
theorem lsSize_cases (fee : FeeModel α) (E L : α) (price : String → Option α) (w : Weights α)
    (hne : w ≠ []) :
    ((∀ x ∈ w, ∃ p, price x.1 = some p) ∧
      lsSize fee E L price w = .ok ((sortByKey (lsNorm L w)).map fun x =>
        (x.1, lsQuantity fee E x.2 ((price x.1).getD 0)))) ∨
    ((∃ x ∈ w, price x.1 = none) ∧ lsSize fee E L price w = .error .value) := by
  have hun : lsSize fee E L price w = (sortByKey (lsNorm L w)).mapM fun (a, weight) =>
      match price a with
      | none => (Except.error Err.value : Except Err (String × Int))
      | some p => .ok (a, lsQuantity fee E weight p) := by
    unfold lsSize
    simp only [isEmpty_false_of_ne_nil hne, Bool.false_eq_true, if_false, lsNormalise_eq]
    rfl
  rw [hun]
  exact sizer_mapM price (lsQuantity fee E) 0 w (lsNorm L w) (lsNorm_keys L w)

/-- an entry of a sized target comes from an entry of the normalised weights -/
theorem mem_sized {nw : Weights α} {price : String → Option α} {h : α → α → Int} {a : String} {qa : Int}
    (hm : (a, qa) ∈ (sortByKey nw).map fun x => (x.1, h x.2 ((price x.1).getD 0))) :
    ∃ v, (a, v) ∈ nw ∧ qa = h v ((price a).getD 0) := by
  obtain ⟨⟨k, v⟩, hx, e⟩ := List.mem_map.mp hm
  obtain ⟨rfl, rfl⟩ := Prod.mk.inj e
  exact ⟨v, mem_sortByKey.mp hx, rfl⟩

/-- keys, order and length of a sized target -/
theorem sized_keys (w nw : Weights α) (hk : nw.map (·.1) = w.map (·.1)) (g : String × α → Int) :
    let q := (sortByKey nw).map fun x => (x.1, g x)
    (q.map (·.1)).Perm (w.map (·.1)) ∧ (q.map (·.1)).Pairwise (· ≤ ·) ∧ q.length = w.length := by
  intro q
  have e : q.map (·.1) = (sortByKey nw).map (·.1) := by
    simp only [q, List.map_map]; rfl
  refine ⟨?_, ?_, ?_⟩
  · rw [e, ← hk]; exact sortByKey_keys_perm nw
  · rw [e]; exact sortByKey_keys_sorted nw
  · simp only [q, List.length_map, length_sortByKey]
    have := congrArg List.length hk
    simpa using this

/-- in the normal case an entry of the long-only target is the one-asset quantity of its weight -/
theorem dwSize_mem (fee : FeeModel α) (E b : α) (price : String → Option α) (w : Weights α) (q : Quantities)
    (hw : ∀ x ∈ w, 0 ≤ x.2) (hnd : (w.map (·.1)).Nodup) (hS : tiny < (w.map (·.2)).sum)
    (hq : dwSize fee E b price w = .ok q) {a : String} {qa : Int} {wa pa : α}
    (hm : (a, qa) ∈ q) (hwa : (a, wa) ∈ w) (hpa : price a = some pa) :
    qa = dwQuantity fee (E * (1 - b)) (wa / (w.map (·.2)).sum) pa := by
  have hne : w ≠ [] := by rintro rfl; simp at hwa
  rcases dwSize_cases fee E b price w hne hw with ⟨_, h2⟩ | ⟨_, h2⟩
  · rw [h2] at hq; cases hq
    obtain ⟨v, hv, rfl⟩ := mem_sized hm
    rw [dwNorm_of_tiny_lt w hS] at hv
    obtain ⟨⟨k, wa'⟩, hy, e⟩ := List.mem_map.mp hv
    obtain ⟨rfl, rfl⟩ := Prod.mk.inj e
    have : wa' = wa := eq_of_nodup_keys hnd hy hwa
    subst this
    rw [hpa, Option.getD_some]
  · rw [h2] at hq; cases hq

/-- in the normal case an entry of the long/short target is the one-asset quantity of its weight -/
theorem lsSize_mem (fee : FeeModel α) (E L : α) (price : String → Option α) (w : Weights α) (q : Quantities)
    (hnd : (w.map (·.1)).Nodup) (hG : tiny < (w.map fun x => |x.2|).sum)
    (hq : lsSize fee E L price w = .ok q) {a : String} {qa : Int} {wa pa : α}
    (hm : (a, qa) ∈ q) (hwa : (a, wa) ∈ w) (hpa : price a = some pa) :
    qa = lsQuantity fee E (wa * (L / (w.map fun x => |x.2|).sum)) pa := by
  have hne : w ≠ [] := by rintro rfl; simp at hwa
  rcases lsSize_cases fee E L price w hne with ⟨_, h2⟩ | ⟨_, h2⟩
  · rw [h2] at hq; cases hq
    obtain ⟨v, hv, rfl⟩ := mem_sized hm
    rw [lsNorm_of_tiny_lt L w hG] at hv
    obtain ⟨⟨k, wa'⟩, hy, e⟩ := List.mem_map.mp hv
    obtain ⟨rfl, rfl⟩ := Prod.mk.inj e
    have : wa' = wa := eq_of_nodup_keys hnd hy hwa
    subst this
    rw [hpa, Option.getD_some]
  · rw [h2] at hq; cases hq

/-! ### sums over the normalised weights -/

theorem sum_map_mul_div (w : Weights α) (B S : α) :
    (w.map fun x => B * (x.2 / S)).sum = B * ((w.map (·.2)).sum / S) := by
  induction w with
  | nil => simp
  | cons x xs ih => simp only [List.map_cons, List.sum_cons, ih, add_div]; ring

theorem sum_map_abs_scaled (w : Weights α) (c E r : α) :
    (w.map fun x => c * |E * (x.2 * r)|).sum = c * (|E| * |r|) * (w.map fun x => |x.2|).sum := by
  induction w with
  | nil => simp
  | cons x xs ih => rw [List.map_cons, List.sum_cons, ih, List.map_cons, List.sum_cons, abs_mul, abs_mul]; ring

end Shape

end Qs
