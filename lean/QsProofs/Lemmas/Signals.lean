import QsProofs.Lemmas.Sizer
import QsModel.Signals
import Mathlib.Algebra.BigOperators.Group.List.Basic
import Mathlib.Data.List.Basic

/-!
# Helper lemmas for the trading signals (C16)

* the bounded deque: `dequePush`/`lastN` window lemma;
* `pctChanges` (length, entries), telescoping product of gross returns, `cumReturn`, `momentumOf`,
  `meanOf`, `popVar`, `smaOf`, `volOf`;
* the buffer store of a `Signal`: `Sig.winBufs` (the canonical store: one buffer per tracked asset and
  lookback, holding `lastN l (stream of the asset)`), `Signal.append` on a canonical store,
  `Signal.feed`, `feedAll`, `SignalsCollection.update`.

Everything lives in `Qs.Sig` to avoid clashes with the other lemma files.
-/

set_option linter.unusedSectionVars false

namespace Qs
namespace Sig
open NumOps Num

/-! ## The bounded window -/

section Window
variable {β : Type}

theorem lastN_append_lastN (k : Nat) (l m : List β) :
    lastN k (lastN k l ++ m) = lastN k (l ++ m) := by
  unfold lastN
  have h1 : l.drop (l.length - k) ++ m = (l ++ m).drop (l.length - k) := by
    rw [List.drop_append_of_le_length (by omega)]
  rw [h1, List.drop_drop]
  congr 1
  simp only [List.length_drop, List.length_append]
  omega

theorem dequePush_eq (k : Nat) (buf : List β) (x : β) : dequePush k buf x = lastN k (buf ++ [x]) := rfl

theorem lastN_nil (k : Nat) : lastN k ([] : List β) = [] := by simp [lastN]

theorem lastN_length (k : Nat) (l : List β) : (lastN k l).length = min k l.length := by
  simp only [lastN, List.length_drop]; omega

theorem lastN_of_length_le (k : Nat) (l : List β) (h : l.length ≤ k) : lastN k l = l := by
  simp [lastN, Nat.sub_eq_zero_of_le h]

theorem lastN_suffix (k : Nat) (l : List β) : lastN k l <:+ l := List.drop_suffix _ _

theorem lastN_zero (l : List β) : lastN 0 l = [] := by simp [lastN]

theorem mem_of_mem_lastN {k : Nat} {l : List β} {x : β} (h : x ∈ lastN k l) : x ∈ l :=
  List.mem_of_mem_drop h

theorem ne_nil_of_not_lt_two {l : List β} (h : ¬ l.length < 2) : l ≠ [] := by
  rintro rfl; simp at h

/-- pushing onto a held window keeps it the window of the extended stream -/
theorem dequePush_lastN (k : Nat) (l : List β) (x : β) :
    dequePush k (lastN k l) x = lastN k (l ++ [x]) := by
  rw [dequePush_eq, lastN_append_lastN]

theorem window_gen (k : Nat) (xs pre : List β) :
    xs.foldl (dequePush k) (lastN k pre) = lastN k (pre ++ xs) := by
  induction xs generalizing pre with
  | nil => simp
  | cons x xs ih =>
    rw [List.foldl_cons, dequePush_lastN, ih (pre ++ [x])]
    simp

theorem window (k : Nat) (xs : List β) : xs.foldl (dequePush k) [] = lastN k xs := by
  have := window_gen k xs []
  simpa [lastN] using this

end Window

/-! ## Returns, momentum, mean, variance -/

section Numeric
variable {α : Type} [Field α] [LinearOrder α] [IsStrictOrderedRing α] [FloorRing α] [NumOps α] [LawfulNumOps α]

theorem pctChanges_nil : pctChanges ([] : List α) = [] := rfl
theorem pctChanges_single (a : α) : pctChanges [a] = [] := rfl
theorem pctChanges_cons_cons (a b : α) (rest : List α) :
    pctChanges (a :: b :: rest) = (b / a - 1) :: pctChanges (b :: rest) := by
  simp [pctChanges]

theorem pctChanges_length (w : List α) : (pctChanges w).length = w.length - 1 := by
  induction w with
  | nil => rfl
  | cons a t ih =>
    cases t with
    | nil => rfl
    | cons b rest =>
      rw [pctChanges_cons_cons, List.length_cons, ih]
      simp

theorem pctChanges_getElem? (w : List α) (i : Nat) (x y : α)
    (hx : w[i]? = some x) (hy : w[i + 1]? = some y) : (pctChanges w)[i]? = some (y / x - 1) := by
  induction w generalizing i with
  | nil => simp at hx
  | cons a t ih =>
    cases t with
    | nil => simp at hy
    | cons b rest =>
      rw [pctChanges_cons_cons]
      cases i with
      | zero =>
        simp only [List.getElem?_cons_zero, Option.some.injEq, zero_add, List.getElem?_cons_succ] at hx hy ⊢
        subst hx; subst hy; rfl
      | succ j =>
        simp only [List.getElem?_cons_succ] at hx hy ⊢
        exact ih j hx (by simpa using hy)

theorem pctChanges_eq_nil_iff (w : List α) : pctChanges w = [] ↔ w.length < 2 := by
  rw [← List.length_eq_zero_iff, pctChanges_length]; omega

/-- `cumReturn` is the product of the gross returns minus one -/
theorem foldl_gross (rs : List α) (acc : α) :
    rs.foldl (fun acc r => acc * (one + r)) acc = acc * (rs.map (1 + ·)).prod := by
  induction rs generalizing acc with
  | nil => simp
  | cons r rs ih => rw [List.foldl_cons, ih]; simp [mul_assoc]

theorem cumReturn_eq (rs : List α) : cumReturn rs = (rs.map (1 + ·)).prod - 1 := by
  unfold cumReturn; rw [foldl_gross]; simp

/-- telescoping: the product of the gross returns of a positive window is last / first -/
theorem prod_returns (a : α) (rest : List α) (hpos : ∀ x ∈ a :: rest, 0 < x) :
    ((pctChanges (a :: rest)).map (1 + ·)).prod = ((a :: rest).getLast (by simp)) / a := by
  induction rest generalizing a with
  | nil => simp [pctChanges, (hpos a (by simp)).ne']
  | cons b bs ih =>
    have ha : a ≠ 0 := (hpos a (by simp)).ne'
    have hb : b ≠ 0 := (hpos b (by simp)).ne'
    rw [pctChanges_cons_cons, List.map_cons, List.prod_cons,
      ih b (fun x hx => hpos x (List.mem_cons_of_mem _ hx))]
    have hl : (a :: b :: bs).getLast (by simp) = (b :: bs).getLast (by simp) :=
      List.getLast_cons (by simp)
    rw [hl]
    field_simp
    ring

theorem momentumOf_cons_cons (a b : α) (rest : List α) (hpos : ∀ x ∈ a :: b :: rest, 0 < x) :
    momentumOf (a :: b :: rest) = (a :: b :: rest).getLast (by simp) / a - 1 := by
  unfold momentumOf
  simp only [List.isEmpty_iff, pctChanges_eq_nil_iff]
  rw [if_neg (by simp), cumReturn_eq, prod_returns a (b :: rest) hpos]

theorem momentumOf_short (w : List α) (h : w.length < 2) : momentumOf w = 0 := by
  unfold momentumOf
  simp only [List.isEmpty_iff, pctChanges_eq_nil_iff]
  rw [if_pos h]; simp

theorem momentumOf_eq (w : List α) (hpos : ∀ x ∈ w, 0 < x) :
    momentumOf w = if h : w.length < 2 then 0
      else w.getLast (ne_nil_of_not_lt_two h) / w.head (ne_nil_of_not_lt_two h) - 1 := by
  split
  · rename_i h; exact momentumOf_short w h
  · rename_i h
    match w, hpos, h with
    | a :: b :: rest, hpos, _ => exact momentumOf_cons_cons a b rest hpos
    | [a], _, h => simp at h
    | [], _, h => simp at h

theorem meanOf_eq (l : List α) : meanOf l = l.sum / (l.length : α) := by
  unfold meanOf; rw [sumNaive_eq]; simp

theorem smaOf_eq (l : List α) : smaOf l = l.sum / (l.length : α) := meanOf_eq l

theorem popVar_eq (l : List α) :
    popVar l = (l.map fun x => (x - l.sum / (l.length : α)) ^ 2).sum / (l.length : α) := by
  unfold popVar
  simp only [meanOf_eq, List.length_map]
  congr 2
  apply List.map_congr_left
  intro x _
  ring

theorem volOf_eq [TransOps α] (w : List α) :
    volOf w = if pctChanges w = [] then 0
      else TransOps.sqrt (popVar (pctChanges w)) * TransOps.sqrt (252 : α) := by
  unfold volOf
  simp only [List.isEmpty_iff, ofInt_eq]
  norm_num

end Numeric

/-! ## The buffer store of a signal -/

section Store
variable {α : Type} [Field α] [LinearOrder α] [IsStrictOrderedRing α] [FloorRing α] [NumOps α] [LawfulNumOps α]

/-- the canonical buffer store: for every tracked asset (in order) and every stored lookback one buffer
holding the last `l` items of the asset's stream -/
def winBufs (L : List Nat) (T : List String) (σ : String → List α) : List (Buffer α) :=
  T.flatMap fun a => L.map fun l => ({ asset := a, lookback := l, items := lastN l (σ a) } : Buffer α)

theorem find_row (a a' : String) (l : Nat) (L : List Nat) (w : Nat → List α) :
    List.find? (fun b : Buffer α => b.asset == a && b.lookback == l)
        (L.map fun l' => ({ asset := a', lookback := l', items := w l' } : Buffer α)) =
      if a' = a ∧ l ∈ L then some { asset := a', lookback := l, items := w l } else none := by
  induction L with
  | nil => simp
  | cons l' L ih =>
    rw [List.map_cons, List.find?_cons, ih]
    by_cases ha : a' = a
    · by_cases hl : l' = l
      · subst ha; subst hl; simp
      · have hl' : ¬ l = l' := fun h => hl h.symm
        have hb : (l' == l) = false := by simpa using hl
        simp [ha, hl', hb]
    · have hb : (a' == a) = false := by simpa using ha
      simp [ha, hb]

theorem find_winBufs (a : String) (l : Nat) (L : List Nat) (T : List String) (σ : String → List α) :
    List.find? (fun b : Buffer α => b.asset == a && b.lookback == l) (winBufs L T σ) =
      if a ∈ T ∧ l ∈ L then some { asset := a, lookback := l, items := lastN l (σ a) } else none := by
  induction T with
  | nil => simp [winBufs]
  | cons a' T ih =>
    unfold winBufs at ih ⊢
    rw [List.flatMap_cons, List.find?_append, find_row, ih]
    by_cases ha : a' = a
    · by_cases hl : l ∈ L
      · subst ha; simp [hl]
      · simp [hl]
    · have : ¬ a = a' := fun h => ha h.symm
      simp [ha, this]

theorem winBufs_append (L : List Nat) (T T' : List String) (σ : String → List α) :
    winBufs L (T ++ T') σ = winBufs L T σ ++ winBufs L T' σ := by
  simp [winBufs, List.flatMap_append]

theorem winBufs_congr (L : List Nat) (T : List String) (σ τ : String → List α)
    (h : ∀ a ∈ T, σ a = τ a) : winBufs L T σ = winBufs L T τ := by
  induction T with
  | nil => rfl
  | cons a T ih =>
    unfold winBufs at ih ⊢
    rw [List.flatMap_cons, List.flatMap_cons, ih (fun b hb => h b (List.mem_cons_of_mem _ hb)),
      h a (by simp)]

/-- the per-buffer step of `Signal.append` -/
def pushStep (L : List Nat) (a : String) (p : α) (b : Buffer α) : Buffer α :=
  if b.asset == a && L.contains b.lookback then { b with items := dequePush b.lookback b.items p } else b

theorem map_pushStep_winBufs (L : List Nat) (a : String) (p : α) (T : List String) (σ : String → List α) :
    (winBufs L T σ).map (pushStep L a p) =
      winBufs L T (fun b => if b = a then σ a ++ [p] else σ b) := by
  induction T with
  | nil => rfl
  | cons a' T ih =>
    unfold winBufs at ih ⊢
    rw [List.flatMap_cons, List.flatMap_cons, List.map_append, ih, List.map_map]
    congr 1
    apply List.map_congr_left
    intro l hl
    by_cases ha : a' = a
    · subst ha
      simp [pushStep, hl, dequePush_lastN]
    · simp [pushStep, ha]

/-! ### `Signal.append` -/

theorem append_refuse (s : Signal α) (a : String) (p : α) (hp : ¬ 0 < p) :
    s.append a p = (s, some .value) := by
  unfold Signal.append
  have : p ≤ 0 := not_lt.mp hp
  simp [this]

/-- the buffers `Signal.append` works on: new empty buffers are created when the asset is not yet stored -/
def appendBufs (s : Signal α) (a : String) (l0 : Nat) : List (Buffer α) :=
  if (s.findBuffer a l0).isSome then s.buffers
  else s.buffers ++ s.lookbacks.map fun l => ({ asset := a, lookback := l, items := [] } : Buffer α)

theorem append_eq (s : Signal α) (a : String) (p : α) (hp : 0 < p) (l0 : Nat) (L' : List Nat)
    (hL : s.lookbacks = l0 :: L') :
    s.append a p =
      ({ s with buffers := (appendBufs s a l0).map (pushStep s.lookbacks a p) }, none) := by
  unfold Signal.append appendBufs
  have : ¬ p ≤ 0 := not_le.mpr hp
  simp only [le_eq, zero_eq, this, decide_false, Bool.false_eq_true, if_false, hL]
  rfl

theorem append_lookbacks (s : Signal α) (a : String) (p : α) : (s.append a p).1.lookbacks = s.lookbacks := by
  unfold Signal.append
  split
  · rfl
  · split <;> rfl

theorem append_kind (s : Signal α) (a : String) (p : α) : (s.append a p).1.kind = s.kind := by
  unfold Signal.append
  split
  · rfl
  · split <;> rfl

theorem append_assets (s : Signal α) (a : String) (p : α) : (s.append a p).1.assets = s.assets := by
  unfold Signal.append
  split
  · rfl
  · split <;> rfl

theorem append_snd (s : Signal α) (a : String) (p : α) (hL : s.lookbacks ≠ []) :
    (s.append a p).2 = none ↔ 0 < p := by
  constructor
  · intro h
    by_contra hp
    rw [append_refuse s a p hp] at h
    cases h
  · intro hp
    obtain ⟨l0, L', hL'⟩ := List.exists_cons_of_ne_nil hL
    rw [append_eq s a p hp l0 L' hL']

/-- appending to asset `a` never touches a buffer of another asset -/
theorem append_findBuffer_ne (s : Signal α) (a b : String) (p : α) (l : Nat) (hb : b ≠ a) :
    (s.append a p).1.findBuffer b l = s.findBuffer b l := by
  by_cases hp : 0 < p
  · cases hL : s.lookbacks with
    | nil =>
      unfold Signal.append
      simp [hL]
    | cons l0 L' =>
      rw [append_eq s a p hp l0 L' hL]
      unfold Signal.findBuffer
      simp only
      rw [List.find?_map]
      have hcomp : ((fun b' : Buffer α => b'.asset == b && b'.lookback == l) ∘ pushStep (l0 :: L') a p) =
          (fun b' : Buffer α => b'.asset == b && b'.lookback == l) := by
        funext b'
        simp only [Function.comp, pushStep]
        split <;> rfl
      rw [hL, hcomp]
      have hfix : ∀ (x : Option (Buffer α)), (∀ y, x = some y → y.asset = b) →
          x.map (pushStep (l0 :: L') a p) = x := by
        intro x hx
        cases x with
        | none => rfl
        | some y =>
          have := hx y rfl
          have hne : (y.asset == a) = false := by simpa [this] using hb
          simp [pushStep, hne]
      unfold appendBufs
      split
      · apply hfix
        intro y hy
        have := List.find?_some hy
        simp only [Bool.and_eq_true, beq_iff_eq] at this
        exact this.1
      · rw [List.find?_append]
        have hnone : List.find? (fun b' : Buffer α => b'.asset == b && b'.lookback == l)
            (s.lookbacks.map fun l => ({ asset := a, lookback := l, items := [] } : Buffer α)) = none := by
          rw [find_row]
          have : ¬ a = b := fun h => hb h.symm
          simp [this]
        rw [hnone, Option.or_none]
        apply hfix
        intro y hy
        have := List.find?_some hy
        simp only [Bool.and_eq_true, beq_iff_eq] at this
        exact this.1
  · rw [append_refuse s a p hp]

/-- a signal whose buffer store is canonical for the tracked assets `T` and the streams `σ` -/
structure Store (s : Signal α) (T : List String) (σ : String → List α) : Prop where
  lbs_ne : s.lookbacks ≠ []
  bufs : s.buffers = winBufs s.lookbacks T σ
  fresh : ∀ a, a ∉ T → σ a = []

theorem Store.findBuffer {s : Signal α} {T : List String} {σ : String → List α} (h : Store s T σ)
    (a : String) (l : Nat) :
    s.findBuffer a l =
      if a ∈ T ∧ l ∈ s.lookbacks then some { asset := a, lookback := l, items := lastN l (σ a) } else none := by
  unfold Signal.findBuffer
  rw [h.bufs, find_winBufs]

theorem store_new (kind : SignalKind) (lbs : List Nat) (assets : List String) (hl : lbs ≠ []) :
    Store (Signal.new kind lbs assets : Signal α) assets (fun _ => []) := by
  refine ⟨?_, ?_, fun _ _ => rfl⟩
  · simpa [Signal.new] using hl
  · simp [Signal.new, winBufs, lastN_nil]

/-- the tracked list after an append -/
def track (T : List String) (a : String) : List String := if a ∈ T then T else T ++ [a]

theorem mem_track (T : List String) (a b : String) : b ∈ track T a ↔ b ∈ T ∨ b = a := by
  unfold track
  split
  · rename_i h
    constructor
    · exact Or.inl
    · rintro (h' | rfl)
      · exact h'
      · exact h
  · simp

theorem append_store {s : Signal α} {T : List String} {σ : String → List α} (h : Store s T σ)
    (a : String) (p : α) (hp : 0 < p) :
    (s.append a p).2 = none ∧
      Store (s.append a p).1 (track T a) (fun b => if b = a then σ a ++ [p] else σ b) := by
  obtain ⟨l0, L', hL⟩ := List.exists_cons_of_ne_nil h.lbs_ne
  refine ⟨(append_snd s a p h.lbs_ne).mpr hp, ?_, ?_, ?_⟩
  · rw [append_lookbacks]; exact h.lbs_ne
  · rw [append_lookbacks, append_eq s a p hp l0 L' hL]
    simp only
    unfold appendBufs
    rw [h.findBuffer a l0, h.bufs]
    have hl0 : l0 ∈ s.lookbacks := by rw [hL]; simp
    by_cases ha : a ∈ T
    · simp only [ha, hl0, and_self, if_true, Option.isSome_some, track]
      exact map_pushStep_winBufs _ _ _ _ _
    · simp only [ha, false_and, if_false, Option.isSome_none, Bool.false_eq_true, track]
      have hnew : (s.lookbacks.map fun l => ({ asset := a, lookback := l, items := [] } : Buffer α)) =
          winBufs s.lookbacks [a] σ := by
        simp [winBufs, h.fresh a ha, lastN_nil]
      rw [hnew, ← winBufs_append]
      exact map_pushStep_winBufs _ _ _ _ _
  · intro b hb
    rw [mem_track] at hb
    have hba : b ≠ a := fun e => hb (Or.inr e)
    simp only [hba, if_false]
    exact h.fresh b (fun e => hb (Or.inl e))

/-! ### Sequences of appends -/

/-- apply a sequence of `(asset, price)` appends, ignoring refusals (a refused append changes nothing) -/
def appendAll (s : Signal α) (ops : List (String × α)) : Signal α :=
  ops.foldl (fun s op => (s.append op.1 op.2).1) s

/-- the prices supplied for asset `a`, in order -/
def streamOf (a : String) (ops : List (String × α)) : List α :=
  (ops.filter fun op => op.1 == a).map (·.2)

def trackAll (T : List String) (ops : List (String × α)) : List String :=
  ops.foldl (fun T op => track T op.1) T

theorem appendAll_nil (s : Signal α) : appendAll s [] = s := rfl
theorem appendAll_cons (s : Signal α) (op : String × α) (ops : List (String × α)) :
    appendAll s (op :: ops) = appendAll (s.append op.1 op.2).1 ops := rfl
theorem appendAll_append (s : Signal α) (ops ops' : List (String × α)) :
    appendAll s (ops ++ ops') = appendAll (appendAll s ops) ops' := by
  simp [appendAll, List.foldl_append]

theorem streamOf_nil (a : String) : streamOf a ([] : List (String × α)) = [] := rfl
theorem streamOf_cons (a : String) (op : String × α) (ops : List (String × α)) :
    streamOf a (op :: ops) = if op.1 = a then op.2 :: streamOf a ops else streamOf a ops := by
  unfold streamOf
  rw [List.filter_cons]
  by_cases h : op.1 = a <;> simp [h]
theorem streamOf_append (a : String) (ops ops' : List (String × α)) :
    streamOf a (ops ++ ops') = streamOf a ops ++ streamOf a ops' := by
  simp [streamOf]

theorem streamOf_pos (a : String) (ops : List (String × α)) (hpos : ∀ op ∈ ops, 0 < op.2) :
    ∀ x ∈ streamOf a ops, 0 < x := by
  intro x hx
  unfold streamOf at hx
  obtain ⟨op, hop, rfl⟩ := List.mem_map.mp hx
  exact hpos op (List.mem_of_mem_filter hop)

theorem lastN_pos (k : Nat) (l : List α) (h : ∀ x ∈ l, 0 < x) : ∀ x ∈ lastN k l, 0 < x :=
  fun x hx => h x (mem_of_mem_lastN hx)

theorem mem_trackAll (T : List String) (ops : List (String × α)) (b : String) :
    b ∈ trackAll T ops ↔ b ∈ T ∨ b ∈ ops.map (·.1) := by
  induction ops generalizing T with
  | nil => simp [trackAll]
  | cons op ops ih =>
    unfold trackAll at ih ⊢
    rw [List.foldl_cons, ih, mem_track]
    simp only [List.map_cons, List.mem_cons]
    tauto

theorem appendAll_lookbacks (s : Signal α) (ops : List (String × α)) :
    (appendAll s ops).lookbacks = s.lookbacks := by
  induction ops generalizing s with
  | nil => rfl
  | cons op ops ih => rw [appendAll_cons, ih, append_lookbacks]

theorem appendAll_kind (s : Signal α) (ops : List (String × α)) : (appendAll s ops).kind = s.kind := by
  induction ops generalizing s with
  | nil => rfl
  | cons op ops ih => rw [appendAll_cons, ih, append_kind]

theorem appendAll_assets (s : Signal α) (ops : List (String × α)) : (appendAll s ops).assets = s.assets := by
  induction ops generalizing s with
  | nil => rfl
  | cons op ops ih => rw [appendAll_cons, ih, append_assets]

/-- refused prices can be dropped from the sequence -/
theorem appendAll_filter_pos (s : Signal α) (ops : List (String × α)) :
    appendAll s ops = appendAll s (ops.filter fun op => decide (0 < op.2)) := by
  induction ops generalizing s with
  | nil => rfl
  | cons op ops ih =>
    rw [List.filter_cons]
    by_cases hp : 0 < op.2
    · simp only [hp, decide_true, if_true, appendAll_cons]; exact ih _
    · simp only [hp, decide_false, Bool.false_eq_true, if_false, appendAll_cons, append_refuse s _ _ hp]
      exact ih _

theorem appendAll_store {s : Signal α} {T : List String} {σ : String → List α} (h : Store s T σ)
    (ops : List (String × α)) (hpos : ∀ op ∈ ops, 0 < op.2) :
    Store (appendAll s ops) (trackAll T ops) (fun b => σ b ++ streamOf b ops) := by
  induction ops generalizing s T σ with
  | nil => simpa [appendAll, trackAll, streamOf] using h
  | cons op ops ih =>
    have h1 := (append_store h op.1 op.2 (hpos op (by simp))).2
    have h2 := ih h1 (fun o ho => hpos o (List.mem_cons_of_mem _ ho))
    rw [appendAll_cons]
    have hT : trackAll T (op :: ops) = trackAll (track T op.1) ops := rfl
    rw [hT]
    have hσ : (fun b => σ b ++ streamOf b (op :: ops)) =
        (fun b => (fun b => if b = op.1 then σ op.1 ++ [op.2] else σ b) b ++ streamOf b ops) := by
      funext b
      rw [streamOf_cons]
      by_cases hb : b = op.1
      · subst hb; simp
      · have : ¬ op.1 = b := fun e => hb e.symm
        simp [hb, this]
    rw [hσ]
    exact h2

/-! ### `Signal.feed`, `feedAll`, `SignalsCollection.update` -/

theorem feed_nil (mid : String → α) (s : Signal α) : Signal.feed mid s [] = (s, none) := by
  rw [Signal.feed]

theorem feed_cons_ok (mid : String → α) (s : Signal α) (a : String) (as : List String)
    (h : (s.append a (mid a)).2 = none) :
    Signal.feed mid s (a :: as) = Signal.feed mid (s.append a (mid a)).1 as := by
  rw [Signal.feed]
  cases hh : s.append a (mid a) with
  | mk s' e =>
    rw [hh] at h
    simp only at h
    subst h
    rfl

theorem feed_cons_err (mid : String → α) (s : Signal α) (a : String) (as : List String) (e : Err)
    (h : (s.append a (mid a)).2 = some e) :
    Signal.feed mid s (a :: as) = ((s.append a (mid a)).1, some e) := by
  rw [Signal.feed]
  cases hh : s.append a (mid a) with
  | mk s' e' =>
    rw [hh] at h
    simp only at h
    subst h
    rfl

theorem feed_eq (mid : String → α) (s : Signal α) (as : List String) (hL : s.lookbacks ≠ [])
    (hpos : ∀ a ∈ as, 0 < mid a) :
    Signal.feed mid s as = (appendAll s (as.map fun a => (a, mid a)), none) := by
  induction as generalizing s with
  | nil => rw [feed_nil]; rfl
  | cons a as ih =>
    rw [feed_cons_ok mid s a as ((append_snd s a (mid a) hL).mpr (hpos a (by simp))),
      ih _ (by rw [append_lookbacks]; exact hL) (fun b hb => hpos b (List.mem_cons_of_mem _ hb))]
    rfl

/-- a feed succeeds exactly when every supplied price is positive -/
theorem feed_snd (mid : String → α) (s : Signal α) (as : List String) (hL : s.lookbacks ≠ []) :
    (Signal.feed mid s as).2 = none ↔ ∀ a ∈ as, 0 < mid a := by
  induction as generalizing s with
  | nil => rw [feed_nil]; simp
  | cons a as ih =>
    by_cases hp : 0 < mid a
    · rw [feed_cons_ok mid s a as ((append_snd s a (mid a) hL).mpr hp),
        ih _ (by rw [append_lookbacks]; exact hL)]
      simp [hp]
    · have : (s.append a (mid a)).2 = some .value := by rw [append_refuse s a _ hp]
      rw [feed_cons_err mid s a as _ this]
      simp [hp]

theorem feedAll_nil (mid : String → α) : feedAll mid ([] : List (Signal α)) = ([], none) := by
  rw [feedAll]

theorem feedAll_ok (mid : String → α) (sigs : List (Signal α))
    (h : ∀ s ∈ sigs, (Signal.feed mid s s.assets).2 = none) :
    feedAll mid sigs = (sigs.map fun s => (Signal.feed mid s s.assets).1, none) := by
  induction sigs with
  | nil => rw [feedAll_nil]; rfl
  | cons s rest ih =>
    rw [feedAll]
    have h1 := h s (by simp)
    cases hh : Signal.feed mid s s.assets with
    | mk s' e =>
      rw [hh] at h1
      simp only at h1
      subst h1
      simp only [ih (fun t ht => h t (List.mem_cons_of_mem _ ht)), List.map_cons, hh]

/-- what `SignalsCollection.update` does to one signal: track the new universe members, then feed the
latest mid price of every tracked asset -/
def dayStep (uni : List String) (mid : String → α) (s : Signal α) : Signal α :=
  (Signal.feed mid (s.updateAssets uni) (s.updateAssets uni).assets).1

theorem update_ok (c : SignalsCollection α) (uni : List String) (mid : String → α)
    (h : ∀ s ∈ c.signals, (Signal.feed mid (s.updateAssets uni) (s.updateAssets uni).assets).2 = none) :
    c.update uni mid = ({ signals := c.signals.map (dayStep uni mid), warmup := c.warmup + 1 }, none) := by
  unfold SignalsCollection.update
  rw [feedAll_ok mid _ (by
    intro s hs
    obtain ⟨s0, hs0, rfl⟩ := List.mem_map.mp hs
    exact h s0 hs0)]
  simp only [List.map_map]
  rfl

/-! ### Tracked assets -/

theorem nodup_eraseDups (l : List String) : l.eraseDups.Nodup := by
  induction hn : l.length using Nat.strong_induction_on generalizing l with
  | _ n ih =>
    cases l with
    | nil => simp
    | cons a as =>
      rw [List.eraseDups_cons, List.nodup_cons]
      constructor
      · rw [List.mem_eraseDups, List.mem_filter]
        simp
      · apply ih (as.filter fun b => !b == a).length _ _ rfl
        subst hn
        exact Nat.lt_succ_of_le (List.length_filter_le _ _)

theorem updateAssets_assets (s : Signal α) (uni : List String) :
    (s.updateAssets uni).assets = s.assets ++ (uni.filter fun a => !s.assets.contains a).eraseDups := rfl

theorem mem_updateAssets (s : Signal α) (uni : List String) (a : String) :
    a ∈ (s.updateAssets uni).assets ↔ a ∈ s.assets ∨ a ∈ uni := by
  rw [updateAssets_assets, List.mem_append, List.mem_eraseDups, List.mem_filter]
  by_cases h : a ∈ s.assets <;> simp [h]

theorem updateAssets_nodup (s : Signal α) (uni : List String) (h : s.assets.Nodup) :
    (s.updateAssets uni).assets.Nodup := by
  rw [updateAssets_assets, List.nodup_append]
  refine ⟨h, nodup_eraseDups _, ?_⟩
  intro a ha b hb
  rw [List.mem_eraseDups, List.mem_filter] at hb
  rintro rfl
  simp [ha] at hb

theorem trackAll_map_self (T B : List String) (g : String → α) (h : ∀ a ∈ B, a ∈ T) :
    trackAll T (B.map fun a => (a, g a)) = T := by
  induction B with
  | nil => rfl
  | cons a B ih =>
    unfold trackAll at ih ⊢
    rw [List.map_cons, List.foldl_cons]
    simp only [track, h a (by simp), if_true]
    exact ih (fun b hb => h b (List.mem_cons_of_mem _ hb))

theorem trackAll_map_new (T N : List String) (g : String → α) (hN : N.Nodup) (h : ∀ a ∈ N, a ∉ T) :
    trackAll T (N.map fun a => (a, g a)) = T ++ N := by
  induction N generalizing T with
  | nil => simp [trackAll]
  | cons a N ih =>
    have hn := List.nodup_cons.mp hN
    have : trackAll T ((a :: N).map fun a => (a, g a)) = trackAll (track T a) (N.map fun a => (a, g a)) := rfl
    rw [this]
    simp only [track, h a (by simp), if_false]
    rw [ih (T ++ [a]) hn.2]
    · simp
    · intro b hb hbT
      rcases List.mem_append.mp hbT with h1 | h1
      · exact h b (List.mem_cons_of_mem _ hb) h1
      · simp only [List.mem_singleton] at h1
        subst h1
        exact hn.1 hb

theorem trackAll_append (T : List String) (ops ops' : List (String × α)) :
    trackAll T (ops ++ ops') = trackAll (trackAll T ops) ops' := by
  simp [trackAll, List.foldl_append]

theorem streamOf_map_nodup (A : List String) (g : String → α) (b : String) (hA : A.Nodup) :
    streamOf b (A.map fun a => (a, g a)) = if b ∈ A then [g b] else [] := by
  induction A with
  | nil => rfl
  | cons a A ih =>
    have hn := List.nodup_cons.mp hA
    rw [List.map_cons, streamOf_cons, ih hn.2]
    by_cases hab : a = b
    · subst hab
      simp [hn.1]
    · have : ¬ b = a := fun e => hab e.symm
      simp [hab, this]

/-- a signal of a collection: the store is canonical for exactly the tracked assets, which are distinct -/
structure Holds (s : Signal α) (σ : String → List α) : Prop where
  store : Store s s.assets σ
  nodup : s.assets.Nodup

theorem holds_new (kind : SignalKind) (lbs : List Nat) (assets : List String) (hl : lbs ≠ [])
    (hn : assets.Nodup) : Holds (Signal.new kind lbs assets : Signal α) (fun _ => []) :=
  ⟨store_new kind lbs assets hl, hn⟩

theorem dayStep_spec {s : Signal α} {σ : String → List α} (h : Holds s σ) (uni : List String)
    (mid : String → α) (hpos : ∀ a, a ∈ s.assets ∨ a ∈ uni → 0 < mid a) :
    (Signal.feed mid (s.updateAssets uni) (s.updateAssets uni).assets).2 = none ∧
    (dayStep uni mid s).kind = s.kind ∧ (dayStep uni mid s).lookbacks = s.lookbacks ∧
    (dayStep uni mid s).assets = (s.updateAssets uni).assets ∧
    Holds (dayStep uni mid s)
      (fun a => if a ∈ s.assets ∨ a ∈ uni then σ a ++ [mid a] else []) := by
  have hL : (s.updateAssets uni).lookbacks ≠ [] := h.store.lbs_ne
  have hpos' : ∀ a ∈ (s.updateAssets uni).assets, 0 < mid a := fun a ha =>
    hpos a ((mem_updateAssets s uni a).mp ha)
  have hfeed := feed_eq mid (s.updateAssets uni) _ hL hpos'
  have hstep : dayStep uni mid s =
      appendAll (s.updateAssets uni) ((s.updateAssets uni).assets.map fun a => (a, mid a)) := by
    unfold dayStep; rw [hfeed]
  have hnd := updateAssets_nodup s uni h.nodup
  refine ⟨by rw [hfeed], ?_, ?_, ?_, ?_⟩
  · rw [hstep, appendAll_kind]; rfl
  · rw [hstep, appendAll_lookbacks]; rfl
  · rw [hstep, appendAll_assets]
  · have hst0 : Store (s.updateAssets uni) s.assets σ := ⟨h.store.lbs_ne, h.store.bufs, h.store.fresh⟩
    have hst := appendAll_store hst0 ((s.updateAssets uni).assets.map fun a => (a, mid a))
      (by
        intro op hop
        obtain ⟨a, ha, rfl⟩ := List.mem_map.mp hop
        exact hpos' a ha)
    have hT : trackAll s.assets ((s.updateAssets uni).assets.map fun a => (a, mid a)) =
        (s.updateAssets uni).assets := by
      rw [updateAssets_assets, List.map_append, trackAll_append,
        trackAll_map_self _ _ _ (fun a ha => ha), trackAll_map_new _ _ _ (nodup_eraseDups _)]
      intro a ha
      rw [List.mem_eraseDups, List.mem_filter] at ha
      simpa using ha.2
    have hσ : (fun b => σ b ++ streamOf b ((s.updateAssets uni).assets.map fun a => (a, mid a))) =
        (fun a => if a ∈ s.assets ∨ a ∈ uni then σ a ++ [mid a] else []) := by
      funext b
      rw [streamOf_map_nodup _ _ _ hnd]
      simp only [mem_updateAssets]
      by_cases hb : b ∈ s.assets ∨ b ∈ uni
      · simp [hb]
      · have : b ∉ s.assets := fun e => hb (Or.inl e)
        simp [hb, h.store.fresh b this]
    rw [hT, hσ] at hst
    refine ⟨?_, ?_⟩
    · rw [hstep, appendAll_assets]; exact hst
    · rw [hstep, appendAll_assets]; exact hnd

/-! ### Several days -/

/-- one `SignalsCollection.update` per day `(universe, mid prices)`, seen from one signal -/
def runDays (s : Signal α) (days : List (List String × (String → α))) : Signal α :=
  days.foldl (fun s d => dayStep d.1 d.2 s) s

/-- the observations of asset `a`: one mid price per day, from the first day on which `a` is tracked
(`tracked0`: it is tracked from the start) -/
def dayStream (tracked0 : Bool) (a : String) (days : List (List String × (String → α))) : List α :=
  (days.dropWhile fun d => !(tracked0 || decide (a ∈ d.1))).map fun d => d.2 a

/-- the mid price of every asset is positive on every day on which the asset is tracked
(tracked from the start, or a universe member on that day or an earlier one) -/
def DaysPos (A : List String) (days : List (List String × (String → α))) : Prop :=
  ∀ pre d post, days = pre ++ d :: post →
    ∀ a, (a ∈ A ∨ ∃ e ∈ pre ++ [d], a ∈ e.1) → 0 < d.2 a

theorem dayStream_tracked (a : String) (days : List (List String × (String → α))) :
    dayStream true a days = days.map fun d => d.2 a := by
  unfold dayStream
  cases days with
  | nil => rfl
  | cons d ds => simp

theorem dayStream_cons (b : Bool) (a : String) (d : List String × (String → α))
    (ds : List (List String × (String → α))) :
    dayStream b a (d :: ds) =
      if b = true ∨ a ∈ d.1 then d.2 a :: dayStream true a ds else dayStream b a ds := by
  by_cases h : b = true ∨ a ∈ d.1
  · rw [if_pos h, dayStream_tracked]
    unfold dayStream
    rw [List.dropWhile_cons]
    have : (!(b || decide (a ∈ d.1))) = false := by
      rcases h with h | h <;> simp [h]
    simp [this]
  · rw [if_neg h]
    unfold dayStream
    rw [List.dropWhile_cons]
    have : (!(b || decide (a ∈ d.1))) = true := by
      simp only [not_or] at h
      simp [h.1, h.2]
    simp [this]

theorem runDays_spec {s : Signal α} {σ : String → List α} (h : Holds s σ)
    (days : List (List String × (String → α))) (hpos : DaysPos s.assets days) :
    (runDays s days).kind = s.kind ∧ (runDays s days).lookbacks = s.lookbacks ∧
    (∀ a, a ∈ (runDays s days).assets ↔ a ∈ s.assets ∨ ∃ d ∈ days, a ∈ d.1) ∧
    Holds (runDays s days) (fun a => σ a ++ dayStream (decide (a ∈ s.assets)) a days) := by
  induction days generalizing s σ with
  | nil =>
    refine ⟨rfl, rfl, by simp [runDays], ?_⟩
    simpa [runDays, dayStream] using h
  | cons d ds ih =>
    have hp0 : ∀ a, a ∈ s.assets ∨ a ∈ d.1 → 0 < d.2 a := by
      intro a ha
      apply hpos [] d ds rfl a
      rcases ha with ha | ha
      · exact Or.inl ha
      · exact Or.inr ⟨d, by simp, ha⟩
    obtain ⟨_, hk, hl, has, hh⟩ := dayStep_spec h d.1 d.2 hp0
    have hmem : ∀ a, a ∈ (dayStep d.1 d.2 s).assets ↔ a ∈ s.assets ∨ a ∈ d.1 := by
      intro a; rw [has, mem_updateAssets]
    have hpos' : DaysPos (dayStep d.1 d.2 s).assets ds := by
      intro pre e post hsplit a ha
      apply hpos (d :: pre) e post (by rw [hsplit]; rfl) a
      rcases ha with ha | ⟨e', he', ha⟩
      · rcases (hmem a).mp ha with ha | ha
        · exact Or.inl ha
        · exact Or.inr ⟨d, by simp, ha⟩
      · exact Or.inr ⟨e', by simp at he' ⊢; tauto, ha⟩
    obtain ⟨ik, il, ias, ih'⟩ := ih hh hpos'
    have hrun : runDays s (d :: ds) = runDays (dayStep d.1 d.2 s) ds := rfl
    rw [hrun]
    refine ⟨ik.trans hk, il.trans hl, ?_, ?_⟩
    · intro a
      rw [ias, hmem]
      simp only [List.mem_cons, exists_eq_or_imp]
      tauto
    · have hσ : (fun a => σ a ++ dayStream (decide (a ∈ s.assets)) a (d :: ds)) =
          (fun a => (fun a => if a ∈ s.assets ∨ a ∈ d.1 then σ a ++ [d.2 a] else []) a ++
            dayStream (decide (a ∈ (dayStep d.1 d.2 s).assets)) a ds) := by
        funext a
        rw [dayStream_cons]
        by_cases ha : a ∈ s.assets ∨ a ∈ d.1
        · have ha' : a ∈ (dayStep d.1 d.2 s).assets := (hmem a).mpr ha
          simp [ha, ha']
        · have ha' : a ∉ (dayStep d.1 d.2 s).assets := fun e => ha ((hmem a).mp e)
          have h1 : a ∉ s.assets := fun e => ha (Or.inl e)
          have h2 : a ∉ d.1 := fun e => ha (Or.inr e)
          simp [ha', h1, h2, h.store.fresh a h1]
      rw [hσ]
      exact ih'

/-- run `SignalsCollection.update` once per day, stopping at the first error -/
def updateAll (c : SignalsCollection α) :
    List (List String × (String → α)) → SignalsCollection α × Option Err
  | [] => (c, none)
  | d :: ds =>
    match c.update d.1 d.2 with
    | (c', some e) => (c', some e)
    | (c', none) => updateAll c' ds

theorem DaysPos.head {A : List String} {d : List String × (String → α)}
    {ds : List (List String × (String → α))} (h : DaysPos A (d :: ds)) :
    ∀ a, a ∈ A ∨ a ∈ d.1 → 0 < d.2 a := by
  intro a ha
  apply h [] d ds rfl a
  rcases ha with ha | ha
  · exact Or.inl ha
  · exact Or.inr ⟨d, by simp, ha⟩

theorem DaysPos.tail {s : Signal α} {d : List String × (String → α)}
    {ds : List (List String × (String → α))} (h : DaysPos s.assets (d :: ds)) :
    DaysPos (s.updateAssets d.1).assets ds := by
  intro pre e post hsplit a ha
  apply h (d :: pre) e post (by rw [hsplit]; rfl) a
  rcases ha with ha | ⟨e', he', ha⟩
  · rcases (mem_updateAssets s d.1 a).mp ha with ha | ha
    · exact Or.inl ha
    · exact Or.inr ⟨d, by simp, ha⟩
  · exact Or.inr ⟨e', by simp at he' ⊢; tauto, ha⟩

theorem updateAll_spec (c : SignalsCollection α) (days : List (List String × (String → α)))
    (hwf : ∀ s ∈ c.signals, ∃ σ, Holds s σ) (hpos : ∀ s ∈ c.signals, DaysPos s.assets days) :
    updateAll c days =
      ({ signals := c.signals.map fun s => runDays s days, warmup := c.warmup + days.length }, none) := by
  induction days generalizing c with
  | nil =>
    rw [updateAll]
    simp [runDays]
  | cons d ds ih =>
    rw [updateAll]
    have hstep := update_ok c d.1 d.2 (by
      intro s hs
      obtain ⟨σ, hσ⟩ := hwf s hs
      exact (dayStep_spec hσ d.1 d.2 (hpos s hs).head).1)
    rw [hstep]
    simp only
    rw [ih]
    · simp only [List.map_map, List.length_cons]
      congr 2
      omega
    · intro s' hs'
      obtain ⟨s, hs, rfl⟩ := List.mem_map.mp hs'
      obtain ⟨σ, hσ⟩ := hwf s hs
      exact ⟨_, (dayStep_spec hσ d.1 d.2 (hpos s hs).head).2.2.2.2⟩
    · intro s' hs'
      obtain ⟨s, hs, rfl⟩ := List.mem_map.mp hs'
      obtain ⟨σ, hσ⟩ := hwf s hs
      rw [(dayStep_spec hσ d.1 d.2 (hpos s hs).head).2.2.2.1]
      exact (hpos s hs).tail

end Store

end Sig
end Qs
