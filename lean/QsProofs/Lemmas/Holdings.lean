import QsProofs.Inst
import QsModel.Broker
import Mathlib.Algebra.BigOperators.Group.List.Basic
import Mathlib.Data.List.Perm.Basic
import Mathlib.Data.List.Nodup
import Mathlib.Data.List.Dedup

/-!
# Helper lemmas for property C02 (holdings = net of fills, valued at the latest price)
-/

set_option linter.unusedSectionVars false

namespace Qs
open NumOps Num

/-! ## The positions dictionary (carrier-independent facts) -/

namespace Positions
section dict
variable {α : Type}

/-- the dictionary keys, in dictionary order -/
def keys (ps : Positions α) : List String := ps.map (·.asset)

theorem find?_some {ps : Positions α} {a : String} {pos : Position α}
    (h : find? ps a = some pos) : pos.asset = a ∧ pos ∈ ps := by
  unfold find? at h
  have h1 := List.find?_some h
  have h2 := List.mem_of_find?_eq_some h
  exact ⟨by simpa using h1, h2⟩

theorem find?_eq_none {ps : Positions α} {a : String} : find? ps a = none ↔ a ∉ keys ps := by
  unfold find? keys
  simp [List.find?_eq_none]

theorem contains_iff_mem_keys {ps : Positions α} {a : String} :
    contains ps a = true ↔ a ∈ keys ps := by
  unfold contains keys
  simp

theorem contains_iff_find? {ps : Positions α} {a : String} :
    contains ps a = true ↔ ∃ pos, find? ps a = some pos := by
  rw [contains_iff_mem_keys]
  cases h : find? ps a with
  | none => simp [find?_eq_none.mp h]
  | some pos =>
    have := find?_some h
    simp only [Option.some.injEq, exists_eq', iff_true]
    unfold keys
    exact List.mem_map.mpr ⟨pos, this.2, this.1⟩

theorem keys_set (ps : Positions α) (p : Position α) : keys (set ps p) = keys ps := by
  unfold keys set
  induction ps with
  | nil => rfl
  | cons q qs ih =>
    simp only [List.map_cons, List.cons.injEq]
    refine ⟨?_, ih⟩
    by_cases h : q.asset = p.asset <;> simp [h]

theorem find?_set_ne (ps : Positions α) (p : Position α) {b : String} (hb : b ≠ p.asset) :
    find? (set ps p) b = find? ps b := by
  unfold find? set
  induction ps with
  | nil => rfl
  | cons q qs ih =>
    rw [List.map_cons, List.find?_cons, List.find?_cons, ih]
    have h1 : (p.asset == b) = false := by
      rw [beq_eq_false_iff_ne]; exact fun e => hb e.symm
    by_cases h : q.asset = p.asset
    · have h2 : (q.asset == b) = false := by rw [h]; exact h1
      have h3 : (q.asset == p.asset) = true := by rw [h]; exact beq_self_eq_true _
      rw [h3, if_pos rfl, h1, h2]
    · have h3 : (q.asset == p.asset) = false := by rw [beq_eq_false_iff_ne]; exact h
      rw [h3, if_neg (by decide)]

theorem find?_set_self (ps : Positions α) (p : Position α) (h : p.asset ∈ keys ps) :
    find? (set ps p) p.asset = some p := by
  unfold find? set
  unfold keys at h
  induction ps with
  | nil => simp at h
  | cons q qs ih =>
    rw [List.map_cons, List.find?_cons]
    by_cases hq : q.asset = p.asset
    · have h3 : (q.asset == p.asset) = true := by rw [hq]; exact beq_self_eq_true _
      rw [h3, if_pos rfl, beq_self_eq_true]
    · have h3 : (q.asset == p.asset) = false := by rw [beq_eq_false_iff_ne]; exact hq
      have : p.asset ∈ List.map (·.asset) qs := by
        simp only [List.map_cons, List.mem_cons] at h
        rcases h with h | h
        · exact absurd h.symm hq
        · exact h
      rw [h3, if_neg (by decide), h3]
      exact ih this

theorem mem_set {ps : Positions α} {p x : Position α} (h : x ∈ set ps p) : x = p ∨ x ∈ ps := by
  unfold set at h
  rcases List.mem_map.mp h with ⟨q, hq, rfl⟩
  by_cases hh : q.asset = p.asset <;> simp [hh, hq]

theorem keys_erase (ps : Positions α) (a : String) :
    keys (erase ps a) = (keys ps).filter (fun k => !(k == a)) := by
  unfold keys erase
  induction ps with
  | nil => rfl
  | cons q qs ih =>
    by_cases h : q.asset = a <;> simp [h, ih]

theorem find?_erase_self (ps : Positions α) (a : String) : find? (erase ps a) a = none := by
  rw [find?_eq_none, keys_erase]
  simp

theorem find?_erase_ne (ps : Positions α) {a b : String} (hb : b ≠ a) :
    find? (erase ps a) b = find? ps b := by
  unfold find? erase
  induction ps with
  | nil => rfl
  | cons q qs ih =>
    rw [List.filter_cons, List.find?_cons]
    by_cases h : q.asset = a
    · have h1 : (q.asset == a) = true := by rw [h]; exact beq_self_eq_true _
      have h2 : (q.asset == b) = false := by
        rw [beq_eq_false_iff_ne, h]; exact fun e => hb e.symm
      rw [h1, h2]
      simpa using ih
    · have h1 : (q.asset == a) = false := by rw [beq_eq_false_iff_ne]; exact h
      rw [h1]
      simp only [Bool.not_false, if_true]
      rw [List.find?_cons, ih]

theorem mem_erase {ps : Positions α} {a : String} {x : Position α} (h : x ∈ erase ps a) : x ∈ ps := by
  unfold erase at h
  exact (List.mem_filter.mp h).1

theorem keys_append (ps : Positions α) (p : Position α) : keys (ps ++ [p]) = keys ps ++ [p.asset] := by
  unfold keys; simp

theorem find?_append_of_none (ps : Positions α) (p : Position α) (h : find? ps p.asset = none) :
    find? (ps ++ [p]) p.asset = some p := by
  unfold find? at *
  simp [List.find?_append, h]

theorem find?_append_ne (ps : Positions α) (p : Position α) {b : String} (hb : b ≠ p.asset) :
    find? (ps ++ [p]) b = find? ps b := by
  unfold find?
  have : ¬ p.asset = b := fun e => hb e.symm
  simp [List.find?_append, this]

/-- with pairwise distinct keys, every stored position is the one found under its key -/
theorem find?_of_mem {ps : Positions α} (hnd : (keys ps).Nodup) {pos : Position α} (h : pos ∈ ps) :
    find? ps pos.asset = some pos := by
  unfold find?
  unfold keys at hnd
  induction ps with
  | nil => cases h
  | cons q qs ih =>
    rw [List.map_cons, List.nodup_cons] at hnd
    rw [List.find?_cons]
    by_cases hq : q.asset = pos.asset
    · have h3 : (q.asset == pos.asset) = true := by rw [hq]; exact beq_self_eq_true _
      rw [h3]
      rcases List.mem_cons.mp h with h | h
      · rw [h]
      · exact absurd (hq ▸ List.mem_map.mpr ⟨pos, h, rfl⟩) hnd.1
    · have h3 : (q.asset == pos.asset) = false := by rw [beq_eq_false_iff_ne]; exact hq
      rw [h3]
      rcases List.mem_cons.mp h with h | h
      · exact absurd (h ▸ rfl) hq
      · exact ih hnd.2 h

end dict
end Positions

/-! ## One position: effect of a fill / a mark on quantity, price, clock -/

section field
variable {α : Type} [Field α] [LinearOrder α] [IsStrictOrderedRing α] [FloorRing α] [NumOps α] [LawfulNumOps α]

namespace Position

theorem openFrom_asset (t : Txn α) : (openFrom t).asset = t.asset := by
  unfold openFrom; split <;> rfl

theorem openFrom_price (t : Txn α) : (openFrom t).price = t.price := by
  unfold openFrom; split <;> rfl

theorem openFrom_clock (t : Txn α) : (openFrom t).clock = t.time := by
  unfold openFrom; split <;> rfl

theorem openFrom_net (t : Txn α) : (openFrom t).net = (t.qty : α) := by
  unfold openFrom net
  split <;> simp

/-- a mark with a positive price at a time not before the position's clock succeeds and only
changes `price` and `clock` -/
theorem updatePrice_ok (p : Position α) {price : α} {t : Int} (hp : 0 < price) (ht : p.clock ≤ t) :
    p.updatePrice price t = ({ p with clock := t, price := price }, none) := by
  unfold updatePrice
  rw [if_neg (not_lt.mpr ht)]
  simp [not_le.mpr hp]

/-- a fill with non-zero quantity, positive price, at a time not before the position's clock -/
theorem transact_ok (p : Position α) (t : Txn α) (hq : t.qty ≠ 0) (hp : 0 < t.price)
    (ht : p.clock ≤ t.time) :
    ∃ p', p.transact t = (p', none) ∧ p'.asset = p.asset ∧ p'.price = t.price ∧ p'.clock = t.time ∧
      p'.net = p.net + (t.qty : α) := by
  unfold transact
  rw [if_neg hq]
  by_cases hpos : 0 < t.qty
  · simp only [hpos, if_true]
    rw [updatePrice_ok _ hp (by simpa [transactBuy] using ht)]
    refine ⟨_, rfl, rfl, rfl, rfl, ?_⟩
    simp only [net, transactBuy, ofInt_eq]
    ring
  · simp only [hpos, if_false]
    rw [updatePrice_ok _ hp (by simpa [transactSell] using ht)]
    refine ⟨_, rfl, rfl, rfl, rfl, ?_⟩
    simp only [net, transactSell, ofInt_eq, Int.cast_neg]
    ring

end Position

namespace Positions

/-- One fill applied to the dictionary (`PositionHandler.transact_position`). -/
theorem transactPosition_spec (ps : Positions α) (t : Txn α)
    (hnd : (keys ps).Nodup) (hclk : ∀ pos ∈ ps, pos.clock ≤ t.time)
    (hq : t.qty ≠ 0) (hp : 0 < t.price) :
    ∃ ps', transactPosition ps t = (ps', none) ∧ (keys ps').Nodup ∧
      (∀ pos ∈ ps', pos.clock ≤ t.time) ∧
      (∀ b, b ≠ t.asset → find? ps' b = find? ps b) ∧
      (∀ pos, find? ps t.asset = some pos →
        (pos.net + (t.qty : α) = 0 → find? ps' t.asset = none) ∧
        (pos.net + (t.qty : α) ≠ 0 → ∃ pos', find? ps' t.asset = some pos' ∧
            pos'.net = pos.net + (t.qty : α) ∧ pos'.price = t.price)) ∧
      (find? ps t.asset = none → ∃ pos', find? ps' t.asset = some pos' ∧
            pos'.net = (t.qty : α) ∧ pos'.price = t.price) := by
  unfold transactPosition
  cases hf : find? ps t.asset with
  | some pos =>
    have hpos := find?_some hf
    obtain ⟨p', he, hasset, hprice, hclock, hnet⟩ :=
      Position.transact_ok pos t hq hp (hclk pos hpos.2)
    have hasset' : p'.asset = t.asset := hasset.trans hpos.1
    simp only [he, beq_eq, zero_eq]
    by_cases hz : p'.net = 0
    · simp only [hz, decide_true, if_true]
      refine ⟨_, rfl, ?_, ?_, ?_, ?_, ?_⟩
      · rw [keys_erase]; exact hnd.filter _
      · intro x hx; exact hclk x (mem_erase hx)
      · intro b hb; exact find?_erase_ne ps hb
      · intro pos0 h0
        cases h0
        refine ⟨fun _ => find?_erase_self ps t.asset, fun hne => absurd (hnet ▸ hz) hne⟩
      · intro h; cases h
    · simp only [hz, decide_false]
      refine ⟨_, rfl, ?_, ?_, ?_, ?_, ?_⟩
      · rw [keys_set]; exact hnd
      · intro x hx
        rcases mem_set hx with rfl | hx
        · exact le_of_eq hclock
        · exact hclk x hx
      · intro b hb; exact find?_set_ne ps p' (hasset' ▸ hb)
      · intro pos0 h0
        cases h0
        refine ⟨fun h => absurd (hnet ▸ h) hz, fun _ => ⟨p', ?_, hnet, hprice⟩⟩
        rw [← hasset']
        apply find?_set_self
        rw [hasset']
        exact List.mem_map.mpr ⟨pos, hpos.2, hpos.1⟩
      · intro h; cases h
  | none =>
    have hne : (Position.openFrom t).net ≠ 0 := by
      rw [Position.openFrom_net]; exact Int.cast_ne_zero.mpr hq
    simp only [beq_eq, zero_eq, hne, decide_false]
    refine ⟨_, rfl, ?_, ?_, ?_, ?_, ?_⟩
    · rw [keys_append, Position.openFrom_asset]
      have := find?_eq_none.mp hf
      exact List.Nodup.append hnd (List.nodup_singleton _) (by simpa using this)
    · intro x hx
      rcases List.mem_append.mp hx with hx | hx
      · exact hclk x hx
      · simp only [List.mem_singleton] at hx
        rw [hx, Position.openFrom_clock]
    · intro b hb
      exact find?_append_ne ps _ (by rw [Position.openFrom_asset]; exact hb)
    · intro pos0 h0; cases h0
    · intro _
      refine ⟨Position.openFrom t, ?_, Position.openFrom_net t, Position.openFrom_price t⟩
      have := find?_append_of_none ps (Position.openFrom t) (by rw [Position.openFrom_asset]; exact hf)
      rwa [Position.openFrom_asset] at this

end Positions
end field

/-! ## Portfolio-level event runs -/

namespace C02

/-- the inputs of C02 at the `Portfolio` level: a fill (a `Transaction`) or a price mark -/
inductive PEv (α : Type)
  | fill (t : Txn α)
  | mark (asset : String) (price : α) (time : Int)

section model
variable {α : Type} [Add α] [Sub α] [Mul α] [Div α] [Neg α] [NumOps α]

/-- one event applied with the model's own functions; second component = the raised error, if any -/
def stepEv (p : Portfolio α) : PEv α → Portfolio α × Option Err
  | .fill t => p.transactAsset t
  | .mark a pr t => p.mark a pr t

def applyEv (p : Portfolio α) (e : PEv α) : Portfolio α := (stepEv p e).1

def run (p : Portfolio α) (es : List (PEv α)) : Portfolio α := es.foldl applyEv p

/-- no step of the run raises -/
def NoErr : Portfolio α → List (PEv α) → Prop
  | _, [] => True
  | p, e :: es => (stepEv p e).2 = none ∧ NoErr (applyEv p e) es

end model

section spec
variable {α : Type}

def PEv.time : PEv α → Int
  | .fill t => t.time
  | .mark _ _ t => t

/-- per-event domain: non-zero integer quantity, positive price, non-negative commission -/
def PEv.Ok [Zero α] [LT α] [LE α] : PEv α → Prop
  | .fill t => t.qty ≠ 0 ∧ 0 < t.price ∧ 0 ≤ t.commission
  | .mark _ pr _ => 0 < pr

/-- `Valid c es`: every event is in the domain and the times are non-decreasing, starting at or
after the clock value `c` -/
def Valid [Zero α] [LT α] [LE α] (c : Int) : List (PEv α) → Prop
  | [] => True
  | e :: es => e.Ok ∧ c ≤ e.time ∧ Valid e.time es

/-- signed quantity an event fills in asset `a` -/
def fillQty (a : String) : PEv α → Int
  | .fill t => if t.asset = a then t.qty else 0
  | .mark _ _ _ => 0

/-- signed sum of all quantities filled in asset `a` -/
def fillSum (a : String) (es : List (PEv α)) : Int := (es.map (fillQty a)).sum

/-- ghost state per asset: (running signed sum of fills, price of the last event that was a fill of
`a` or a mark of `a` made while the running sum was non-zero) -/
def seenStep (a : String) (s : Int × Option α) : PEv α → Int × Option α
  | .fill t => if t.asset = a then (s.1 + t.qty, some t.price) else s
  | .mark b pr _ => if b = a ∧ s.1 ≠ 0 then (s.1, some pr) else s

def seenFrom (a : String) (s : Int × Option α) (es : List (PEv α)) : Int × Option α :=
  es.foldl (seenStep a) s

def seen (a : String) (es : List (PEv α)) : Int × Option α := seenFrom a (0, none) es

/-- price of the last event of `es` that is a fill of `a`, or a mark of `a` made while `a` was held -/
def lastSeen (a : String) (es : List (PEv α)) : Option α := (seen a es).2

theorem fillSum_nil (a : String) : fillSum a ([] : List (PEv α)) = 0 := rfl

theorem fillSum_append (a : String) (es fs : List (PEv α)) :
    fillSum a (es ++ fs) = fillSum a es + fillSum a fs := by
  unfold fillSum; simp

theorem fillSum_cons (a : String) (e : PEv α) (es : List (PEv α)) :
    fillSum a (e :: es) = fillQty a e + fillSum a es := by
  unfold fillSum; simp

theorem seenStep_fst (a : String) (s : Int × Option α) (e : PEv α) :
    (seenStep a s e).1 = s.1 + fillQty a e := by
  cases e with
  | fill t => by_cases h : t.asset = a <;> simp [seenStep, fillQty, h]
  | mark b pr t =>
    show (if b = a ∧ s.1 ≠ 0 then (s.1, some pr) else s).1 = s.1 + 0
    split <;> simp

theorem seenFrom_fst (a : String) (s : Int × Option α) (es : List (PEv α)) :
    (seenFrom a s es).1 = s.1 + fillSum a es := by
  unfold seenFrom
  induction es generalizing s with
  | nil => simp [fillSum]
  | cons e es ih =>
    rw [List.foldl_cons, ih, seenStep_fst, fillSum_cons]; ring

theorem seen_fst (a : String) (es : List (PEv α)) : (seen a es).1 = fillSum a es := by
  unfold seen; rw [seenFrom_fst]; simp

theorem seen_snoc (a : String) (es : List (PEv α)) (e : PEv α) :
    seen a (es ++ [e]) = seenStep a (seen a es) e := by
  unfold seen seenFrom; simp

/-- `lastSeen` after a fill of `a` is that fill's price -/
theorem lastSeen_snoc_fill (es : List (PEv α)) (t : Txn α) :
    lastSeen t.asset (es ++ [.fill t]) = some t.price := by
  unfold lastSeen; rw [seen_snoc]; simp [seenStep]

/-- `lastSeen` after a mark of `a` made while `a` is held is that mark's price -/
theorem lastSeen_snoc_mark_held (a : String) (es : List (PEv α)) (pr : α) (t : Int)
    (h : fillSum a es ≠ 0) : lastSeen a (es ++ [.mark a pr t]) = some pr := by
  unfold lastSeen; rw [seen_snoc]; simp [seenStep, seen_fst, h]

/-- a mark of `a` made while `a` is not held is ignored -/
theorem lastSeen_snoc_mark_unheld (a : String) (es : List (PEv α)) (pr : α) (t : Int)
    (h : fillSum a es = 0) : lastSeen a (es ++ [.mark a pr t]) = lastSeen a es := by
  unfold lastSeen; rw [seen_snoc]; simp [seenStep, seen_fst, h]

/-- events of other assets do not change `lastSeen a` -/
theorem lastSeen_snoc_fill_ne (a : String) (es : List (PEv α)) (t : Txn α) (h : t.asset ≠ a) :
    lastSeen a (es ++ [.fill t]) = lastSeen a es := by
  unfold lastSeen; rw [seen_snoc]; simp [seenStep, h]

theorem lastSeen_snoc_mark_ne (a b : String) (es : List (PEv α)) (pr : α) (t : Int) (h : b ≠ a) :
    lastSeen a (es ++ [.mark b pr t]) = lastSeen a es := by
  unfold lastSeen; rw [seen_snoc]; simp [seenStep, h]

end spec

section field
variable {α : Type} [Field α] [LinearOrder α] [IsStrictOrderedRing α] [FloorRing α] [NumOps α] [LawfulNumOps α]

/-- structural invariant relative to the "current time" `c` (the latest event time so far):
clocks are not ahead of `c` and the dictionary keys are pairwise distinct -/
structure WF (p : Portfolio α) (c : Int) : Prop where
  clock_le : p.clock ≤ c
  pos_clock_le : ∀ pos ∈ p.positions, pos.clock ≤ c
  nodup : (Positions.keys p.positions).Nodup

/-- the ghost state `s` (per asset: running fill sum, last seen price) describes the dictionary -/
def Tracks (p : Portfolio α) (s : String → Int × Option α) : Prop :=
  ∀ a, (∀ pos, p.positions.find? a = some pos →
          pos.net = ((s a).1 : α) ∧ (s a).1 ≠ 0 ∧ (s a).2 = some pos.price) ∧
       (p.positions.find? a = none → (s a).1 = 0)

theorem WF_of_empty {p : Portfolio α} {c : Int} (h : p.positions = []) (hc : p.clock ≤ c) : WF p c :=
  ⟨hc, by simp [h], by simp [h, Positions.keys]⟩

theorem Tracks_of_empty {p : Portfolio α} (h : p.positions = []) : Tracks p (fun _ => (0, none)) := by
  intro a
  simp [h, Positions.find?]

/-- effect of `Portfolio.mark` in the domain -/
theorem mark_spec (p : Portfolio α) (c : Int) (hwf : WF p c) (a : String) {pr : α} {t : Int}
    (hp : 0 < pr) (ht : c ≤ t) :
    (p.positions.find? a = none → p.mark a pr t = (p, none)) ∧
    (∀ pos, p.positions.find? a = some pos →
      p.mark a pr t =
        ({ p with positions := p.positions.set { pos with clock := t, price := pr } }, none)) := by
  constructor
  · intro h; unfold Portfolio.mark; rw [h]
  · intro pos h
    unfold Portfolio.mark
    rw [h]
    have h1 : ¬ pr < 0 := not_lt.mpr hp.le
    have h2 : ¬ t < p.clock := not_lt.mpr (hwf.clock_le.trans ht)
    simp only [lt_eq, zero_eq, h1, decide_false, h2, if_false, Bool.false_eq_true]
    rw [Position.updatePrice_ok pos hp ((hwf.pos_clock_le pos (Positions.find?_some h).2).trans ht)]

/-- effect of `Portfolio.transactAsset` in the domain, on the positions dictionary -/
theorem transactAsset_spec (p : Portfolio α) (c : Int) (hwf : WF p c) (t : Txn α)
    (hq : t.qty ≠ 0) (hp : 0 < t.price) (ht : c ≤ t.time) :
    ∃ ps', p.positions.transactPosition t = (ps', none) ∧
      (p.transactAsset t).2 = none ∧ (p.transactAsset t).1.positions = ps' ∧
      (p.transactAsset t).1.clock = t.time := by
  obtain ⟨ps', he, _⟩ := Positions.transactPosition_spec p.positions t hwf.nodup
    (fun pos h => (hwf.pos_clock_le pos h).trans ht) hq hp
  refine ⟨ps', he, ?_⟩
  unfold Portfolio.transactAsset
  rw [if_neg (not_lt.mpr (hwf.clock_le.trans ht))]
  simp [he]

/-- **One step**: in the domain no error is raised and both invariants are carried to the next state. -/
theorem step_ok (p : Portfolio α) (c : Int) (s : String → Int × Option α) (e : PEv α)
    (hwf : WF p c) (htr : Tracks p s) (hok : e.Ok) (hc : c ≤ e.time) :
    (stepEv p e).2 = none ∧ WF (applyEv p e) e.time ∧
      Tracks (applyEv p e) (fun a => seenStep a (s a) e) := by
  cases e with
  | fill t =>
    obtain ⟨hq, hp, _⟩ := hok
    have hc' : c ≤ t.time := hc
    obtain ⟨ps', he, hnd', hclk', hother, hsome, hnone⟩ :=
      Positions.transactPosition_spec p.positions t hwf.nodup
        (fun pos h => (hwf.pos_clock_le pos h).trans hc') hq hp
    obtain ⟨ps'', he', herr, hpos, hclock⟩ := transactAsset_spec p c hwf t hq hp hc'
    rw [he] at he'
    cases (Prod.mk.inj he').1
    refine ⟨herr, ⟨?_, ?_, ?_⟩, ?_⟩
    · show (p.transactAsset t).1.clock ≤ t.time
      rw [hclock]
    · show ∀ pos ∈ (p.transactAsset t).1.positions, pos.clock ≤ t.time
      rw [hpos]; exact hclk'
    · show (Positions.keys (p.transactAsset t).1.positions).Nodup
      rw [hpos]; exact hnd'
    · intro a
      show (∀ pos, (p.transactAsset t).1.positions.find? a = some pos → _) ∧
        ((p.transactAsset t).1.positions.find? a = none → _)
      rw [hpos]
      by_cases ha : a = t.asset
      · subst ha
        simp only [seenStep, if_true]
        cases hf : Positions.find? p.positions t.asset with
        | some pos =>
          obtain ⟨hnet, hnz, _⟩ := (htr t.asset).1 pos hf
          obtain ⟨hz, hnzz⟩ := hsome pos hf
          by_cases h0 : pos.net + (t.qty : α) = 0
          · rw [hz h0]
            refine ⟨fun _ h => (by cases h), fun _ => ?_⟩
            rw [hnet] at h0
            exact_mod_cast h0
          · obtain ⟨pos', hf', hnet', hprice'⟩ := hnzz h0
            rw [hf']
            refine ⟨fun q hq' => ?_, fun h => by cases h⟩
            cases hq'
            refine ⟨?_, ?_, ?_⟩
            · rw [hnet', hnet]; push_cast; ring
            · intro h; apply h0; rw [hnet]; exact_mod_cast h
            · rw [hprice']
        | none =>
          have hs0 := (htr t.asset).2 hf
          obtain ⟨pos', hf', hnet', hprice'⟩ := hnone hf
          rw [hf']
          refine ⟨fun q hq' => ?_, fun h => by cases h⟩
          cases hq'
          refine ⟨?_, ?_, ?_⟩
          · rw [hnet', hs0]; simp
          · rw [hs0]; simpa using hq
          · rw [hprice']
      · have ha' : ¬ t.asset = a := fun h => ha h.symm
        simp only [seenStep, ha', if_false]
        rw [hother a ha]
        exact htr a
  | mark b pr t =>
    have hp : 0 < pr := hok
    have hc' : c ≤ t := hc
    obtain ⟨hmn, hms⟩ := mark_spec p c hwf b hp hc'
    cases hf : Positions.find? p.positions b with
    | none =>
      have hm := hmn hf
      refine ⟨?_, ?_, ?_⟩
      · show (p.mark b pr t).2 = none
        rw [hm]
      · show WF (p.mark b pr t).1 t
        rw [hm]
        exact ⟨hwf.clock_le.trans hc', fun pos h => (hwf.pos_clock_le pos h).trans hc', hwf.nodup⟩
      · show Tracks (p.mark b pr t).1 _
        rw [hm]
        intro a
        by_cases ha : b = a
        · subst ha
          have h0 := (htr b).2 hf
          have hs : seenStep b (s b) (PEv.mark b pr t) = s b := by
            simp [seenStep, h0]
          simp only [hs]
          exact htr b
        · have hs : seenStep a (s a) (PEv.mark b pr t) = s a := by
            simp [seenStep, ha]
          simp only [hs]
          exact htr a
    | some pos =>
      have hm := hms pos hf
      have hposm := Positions.find?_some hf
      refine ⟨?_, ?_, ?_⟩
      · show (p.mark b pr t).2 = none
        rw [hm]
      · show WF (p.mark b pr t).1 t
        rw [hm]
        refine ⟨hwf.clock_le.trans hc', ?_, ?_⟩
        · intro x hx
          rcases Positions.mem_set hx with rfl | hx
          · exact le_refl _
          · exact (hwf.pos_clock_le x hx).trans hc'
        · show (Positions.keys (Positions.set _ _)).Nodup
          rw [Positions.keys_set]; exact hwf.nodup
      · show Tracks (p.mark b pr t).1 _
        rw [hm]
        intro a
        show (∀ q, Positions.find? (Positions.set p.positions _) a = some q → _) ∧
          (Positions.find? (Positions.set p.positions _) a = none → _)
        by_cases ha : b = a
        · subst ha
          obtain ⟨hnet, hnz, _⟩ := (htr b).1 pos hf
          have hself := Positions.find?_set_self p.positions { pos with clock := t, price := pr }
            (show pos.asset ∈ Positions.keys p.positions from
              List.mem_map.mpr ⟨pos, hposm.2, rfl⟩)
          have hself' : Positions.find? (Positions.set p.positions { pos with clock := t, price := pr }) b
              = some { pos with clock := t, price := pr } := by
            have : ({ pos with clock := t, price := pr } : Position α).asset = b := hposm.1
            rw [← this]; exact hself
          rw [hself']
          refine ⟨fun q hq' => ?_, fun h => by cases h⟩
          cases hq'
          have hs : seenStep b (s b) (PEv.mark b pr t) = ((s b).1, some pr) := by
            simp [seenStep, hnz]
          simp only [hs]
          exact ⟨hnet, hnz, trivial⟩
        · have hne : a ≠ ({ pos with clock := t, price := pr } : Position α).asset := by
            show a ≠ pos.asset
            rw [hposm.1]; exact fun h => ha h.symm
          rw [Positions.find?_set_ne _ _ hne]
          have hs : seenStep a (s a) (PEv.mark b pr t) = s a := by
            simp [seenStep, ha]
          simp only [hs]
          exact htr a

/-- **Run**: from any state satisfying the invariants, a valid event list raises no error and the
invariants hold at the end, with the ghost state folded over the list. -/
theorem run_ok (es : List (PEv α)) : ∀ (p : Portfolio α) (c : Int) (s : String → Int × Option α),
    WF p c → Tracks p s → Valid c es →
    NoErr p es ∧ (∃ c', WF (run p es) c') ∧ Tracks (run p es) (fun a => seenFrom a (s a) es) := by
  induction es with
  | nil => intro p c s hwf htr _; exact ⟨trivial, ⟨c, hwf⟩, htr⟩
  | cons e es ih =>
    intro p c s hwf htr hv
    obtain ⟨hok, hc, hv'⟩ := hv
    obtain ⟨herr, hwf', htr'⟩ := step_ok p c s e hwf htr hok hc
    obtain ⟨hne, hwf'', htr''⟩ := ih (applyEv p e) e.time _ hwf' htr' hv'
    exact ⟨⟨herr, hne⟩, hwf'', htr''⟩

/-! ### valuation -/

/-- `sumNaive` (left fold from `0.0`) is the list sum in a field -/
theorem sumNaive_eq_sum (l : List α) : Num.sumNaive l = l.sum := by
  unfold Num.sumNaive
  have : ∀ (acc : α), List.foldl (· + ·) acc l = acc + l.sum := by
    induction l with
    | nil => intro acc; simp
    | cons x xs ih => intro acc; rw [List.foldl_cons, ih, List.sum_cons]; ring
  rw [this]; simp

theorem totalMarketValue_eq_sum (ps : Positions α) :
    ps.totalMarketValue = (ps.map (fun pos => pos.net * pos.price)).sum := by
  unfold Positions.totalMarketValue
  rw [sumNaive_eq_sum]
  congr 1
  apply List.map_congr_left
  intro pos _
  unfold Position.marketValue
  ring

/-- value of one asset according to the ghost state -/
def ghostValue (s : String → Int × Option α) (a : String) : α := ((s a).1 : α) * ((s a).2).getD 0

theorem totalMarketValue_ghost_keys (p : Portfolio α) (c : Int) (s : String → Int × Option α)
    (hwf : WF p c) (htr : Tracks p s) :
    p.totalMarketValue = ((Positions.keys p.positions).map (ghostValue s)).sum := by
  unfold Portfolio.totalMarketValue
  rw [totalMarketValue_eq_sum]
  unfold Positions.keys
  rw [List.map_map]
  congr 1
  apply List.map_congr_left
  intro pos hpos
  obtain ⟨hnet, _, hlast⟩ := (htr pos.asset).1 pos (Positions.find?_of_mem hwf.nodup hpos)
  simp only [Function.comp, ghostValue, hlast, Option.getD_some, hnet]

theorem mem_keys_iff_ghost (p : Portfolio α) (s : String → Int × Option α) (htr : Tracks p s)
    (a : String) : a ∈ Positions.keys p.positions ↔ (s a).1 ≠ 0 := by
  rw [← Positions.contains_iff_mem_keys, Positions.contains_iff_find?]
  cases hf : Positions.find? p.positions a with
  | none => simp [(htr a).2 hf]
  | some pos => simp [((htr a).1 pos hf).2.1]

/-- market value as a sum over ANY duplicate-free enumeration `L` of the held assets -/
theorem totalMarketValue_ghost (p : Portfolio α) (c : Int) (s : String → Int × Option α)
    (hwf : WF p c) (htr : Tracks p s) (L : List String) (hL : L.Nodup)
    (hmem : ∀ a, a ∈ L ↔ (s a).1 ≠ 0) :
    p.totalMarketValue = (L.map (ghostValue s)).sum := by
  rw [totalMarketValue_ghost_keys p c s hwf htr]
  apply List.Perm.sum_eq
  apply List.Perm.map
  rw [List.perm_ext_iff_of_nodup hwf.nodup hL]
  intro a
  rw [mem_keys_iff_ghost p s htr a, hmem a]

end field

/-! ### a canonical enumeration of the held assets, computed from the event list alone -/

section held
variable {α : Type}

def fillAsset? : PEv α → Option String
  | .fill t => some t.asset
  | .mark _ _ _ => none

/-- assets with a non-zero signed fill sum, each once (`List.dedup` keeps the last occurrence, so: in order of last fill) -/
def heldAssets (es : List (PEv α)) : List String :=
  ((es.filterMap fillAsset?).dedup).filter (fun a => decide (fillSum a es ≠ 0))

theorem fillSum_eq_zero_of_not_filled (a : String) (es : List (PEv α))
    (h : a ∉ es.filterMap fillAsset?) : fillSum a es = 0 := by
  induction es with
  | nil => rfl
  | cons e es ih =>
    rw [fillSum_cons]
    cases e with
    | fill t =>
      simp only [List.filterMap_cons, fillAsset?, List.mem_cons, not_or] at h
      rw [ih h.2]
      have : ¬ t.asset = a := fun e => h.1 e.symm
      simp [fillQty, this]
    | mark b pr t =>
      simp only [List.filterMap_cons, fillAsset?] at h
      rw [ih h]
      simp [fillQty]

theorem heldAssets_nodup (es : List (PEv α)) : (heldAssets es).Nodup :=
  (List.nodup_dedup _).filter _

theorem mem_heldAssets (es : List (PEv α)) (a : String) : a ∈ heldAssets es ↔ fillSum a es ≠ 0 := by
  unfold heldAssets
  rw [List.mem_filter, List.mem_dedup]
  constructor
  · intro h; simpa using h.2
  · intro h
    refine ⟨?_, by simpa using h⟩
    by_contra hn
    exact h (fillSum_eq_zero_of_not_filled a es hn)

end held
end C02
end Qs
