import QsGen.Position
import QsProofs.Inst

/-!
# List facts behind the `PositionHandler` tie (hand-written)

`Positions` is an association list keyed by `asset`; the handler's dictionary operations on one key are `find?`, `set`,
`erase` and appending a new entry.
-/

open NumOps Num

namespace Qs.Tie

section
variable {α : Type} [Add α] [Sub α] [Mul α] [Div α] [Neg α] [NumOps α]

theorem find_set (ps : Qs.Positions α) (p q : Qs.Position α) (a : String) (h : Qs.Positions.find? ps a = some p) (hq : q.asset = a) :
    Qs.Positions.find? (Qs.Positions.set ps q) a = some q := by
  subst hq
  induction ps with
  | nil => simp [Qs.Positions.find?] at h
  | cons x xs ih =>
    unfold Qs.Positions.find? Qs.Positions.set at *
    by_cases hx : (x.asset == q.asset) = true
    · have hq : (q.asset == q.asset) = true := by simp
      rw [List.map_cons, if_pos hx, List.find?_cons, hq]
    · have hx' : (x.asset == q.asset) = false := by simpa using hx
      rw [List.find?_cons, hx'] at h
      rw [List.map_cons, if_neg hx, List.find?_cons, hx']
      exact ih h

theorem find_erase (ps : Qs.Positions α) (a : String) : Qs.Positions.find? (Qs.Positions.erase ps a) a = none := by
  simp [Qs.Positions.find?, Qs.Positions.erase, List.find?_eq_none]

theorem find_append_new (ps : Qs.Positions α) (q : Qs.Position α) (a : String) (h : Qs.Positions.find? ps a = none) (hq : q.asset = a) :
    Qs.Positions.find? (ps ++ [q]) a = some q := by
  simp only [Qs.Positions.find?] at h ⊢
  rw [List.find?_append, h]
  simp [hq]

theorem find_asset (ps : Qs.Positions α) (p : Qs.Position α) (a : String) (h : Qs.Positions.find? ps a = some p) : p.asset = a := by
  have := List.find?_some h
  simpa using this

theorem openFrom_asset (t : Qs.Txn α) : (Qs.Position.openFrom t).asset = t.asset := by
  unfold Qs.Position.openFrom; split_ifs <;> rfl

theorem transact_asset (p : Qs.Position α) (t : Qs.Txn α) : (Qs.Position.transact p t).1.asset = p.asset := by
  simp only [Qs.Position.transact, Qs.Position.updatePrice, Qs.Position.transactBuy, Qs.Position.transactSell]
  split_ifs <;> rfl

end
end Qs.Tie
