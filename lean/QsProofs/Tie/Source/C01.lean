import QsGen.Kernels
import QsProofs.Inst

/-!
# C01 clauses proved directly of the translated `Portfolio` methods (no model in between)

`Qs.Gen.Portfolio.*` are the effects of `Portfolio.subscribe_funds / withdraw_funds / transact_asset` as read off the Python
source of this run (`QsGen/Kernels.lean`, generated).  These theorems are about that code itself: if the source changes so
that one of them stops holding, this file stops building and C01's check reports the broken obligation.
-/

set_option linter.unusedTactic false
set_option linter.unreachableTactic false
set_option linter.unusedSectionVars false
set_option linter.unnecessarySeqFocus false

open NumOps Num

namespace Qs.Src

variable {α : Type} [Field α] [LinearOrder α] [IsStrictOrderedRing α] [FloorRing α] [NumOps α] [LawfulNumOps α]

/-- an accepted subscription credits exactly the amount, and records one event whose credit and balance are the amount and the
new cash rounded to cents, with nothing on the debit side -/
theorem C01_src_subscribe (clock : Int) (cash : α) (t : Int) (amount : α)
    (h : (Qs.Gen.Portfolio.subscribe clock cash t amount).err = none) :
    let v := Qs.Gen.Portfolio.subscribe clock cash t amount
    v.cash = cash + amount ∧ v.appended = true ∧ v.evKind = "subscription" ∧ v.evTime = t ∧
      v.evCredit = round2 amount ∧ v.evDebit = 0 ∧ v.evBalance = round2 (cash + amount) ∧ clock ≤ t ∧ 0 ≤ amount := by
  simp only [Qs.Gen.Portfolio.subscribe] at h ⊢
  split_ifs at h ⊢ <;> simp_all <;> omega

/-- an accepted withdrawal debits exactly the amount (which the cash covered) and records it on the debit side -/
theorem C01_src_withdraw (clock : Int) (cash : α) (t : Int) (amount : α)
    (h : (Qs.Gen.Portfolio.withdraw clock cash t amount).err = none) :
    let v := Qs.Gen.Portfolio.withdraw clock cash t amount
    v.cash = cash - amount ∧ v.appended = true ∧ v.evKind = "withdrawal" ∧ v.evTime = t ∧
      v.evDebit = round2 amount ∧ v.evCredit = 0 ∧ v.evBalance = round2 (cash - amount) ∧ clock ≤ t ∧ 0 ≤ amount ∧ amount ≤ cash := by
  simp only [Qs.Gen.Portfolio.withdraw] at h ⊢
  split_ifs at h ⊢ <;> simp_all <;> omega

/-- an accepted fill debits exactly `price × signed quantity + commission` — once — and records that amount, rounded to cents,
on the debit side for a buy and (negated) on the credit side for a sell; the balance shown is the new cash rounded to cents -/
theorem C01_src_transact (clock : Int) (cash : α) (t : Qs.Txn α) (posErr : Option Qs.Err)
    (h : (Qs.Gen.Portfolio.transactAsset clock cash t posErr).err = none) :
    let v := Qs.Gen.Portfolio.transactAsset clock cash t posErr
    let cost := t.price * (t.qty : α) + t.commission
    v.cash = cash - cost ∧ v.appended = true ∧ v.evKind = "asset_transaction" ∧ v.evTime = t.time ∧
      v.evBalance = round2 (cash - cost) ∧
      (0 ≤ t.qty → v.evDebit = round2 cost ∧ v.evCredit = 0) ∧
      (t.qty < 0 → v.evDebit = 0 ∧ v.evCredit = -(round2 cost)) := by
  simp only [Qs.Gen.Portfolio.transactAsset] at h ⊢
  split_ifs at h ⊢ <;> simp_all <;> (try constructor) <;> (try intro _) <;> simp_all <;> omega

end Qs.Src
