import QsProofs.Inst
import Mathlib.Tactic.Ring
import Mathlib.Tactic.FieldSimp
import Mathlib.Tactic.Linarith
import Mathlib.Tactic.SplitIfs
import Mathlib.Tactic.Push
import Mathlib.Tactic.Order
import QsGen.Views

/-!
# The fixed tactic that discharges the translator's tie obligations `Gen.f = Qs.f`

`Gen.f` is what `harness/translate.py` read off the Python source in `/repo`'s working tree; `Qs.f` is the
hand-written model the property theorems are about.  The tactic tries, in order: definitional equality;
unfolding plus `simp` with the carrier laws; case analysis on every `if` followed by field arithmetic
(`ring`), linear arithmetic for impossible branches, and `grind` as the last resort.  It is deliberately
stronger than needed for the current source, so that algebraically equivalent rewrites of the Python
formulas still check.
-/

open NumOps Num

/-- close one leaf goal of a tie obligation (every alternative either closes the goal or fails) -/
macro "qs_tie_leaf" : tactic => `(tactic| first
  | with_reducible rfl
  | (exfalso; linarith)
  | (exfalso; omega)
  | ring1
  | (simp_all <;> done)
  | (simp_all <;> ring1)
  | (simp_all <;> ring_nf <;> done)
  | (field_simp <;> ring1)
  | (simp_all <;> field_simp <;> ring1)
  | (simp_all <;> first | linarith | order)
  | (exfalso; simp_all <;> first | linarith | omega | order)
  | (exfalso; simp_all [sub_eq_zero] <;> first | linarith | omega | order | grind)
  | (simp_all [sub_eq_zero] <;> first | ring1 | linarith | order | (field_simp <;> ring1) | grind)
  | grind)

syntax "qs_tie" "[" Lean.Parser.Tactic.simpLemma,* "]" : tactic
macro_rules
  | `(tactic| qs_tie [$ds,*]) => `(tactic| first
      | with_reducible rfl
      | (simp only [$ds,*] <;> done)
      | (simp [$ds,*] <;> done)
      | (simp [$ds,*] <;> ring_nf <;> done)
      | (simp only [$ds,*] <;> split_ifs <;> qs_tie_leaf)
      | (simp [$ds,*] <;> split_ifs <;> qs_tie_leaf)
      | (simp only [$ds,*] <;> grind))

/-- the same, for obligations that carry a hypothesis `h` (rewritten into the goal first) -/
syntax "qs_tie_h" ident "[" Lean.Parser.Tactic.simpLemma,* "]" : tactic
macro_rules
  | `(tactic| qs_tie_h $h:ident [$ds,*]) => `(tactic| first
      | (simp only [$ds,*, $h:ident] <;> done)
      | (simp [$ds,*, $h:ident] <;> done)
      | (simp only [$ds,*, $h:ident] <;> split_ifs <;> qs_tie_leaf)
      | (simp [$ds,*, $h:ident] <;> split_ifs <;> qs_tie_leaf)
      | (simp only [$ds,*, $h:ident] <;> grind))

/-! ## views of `Portfolio` steps -/

section
variable {α : Type} [Add α] [Sub α] [Mul α] [Div α] [Neg α] [NumOps α]

@[simp] theorem Qs.Tie.view_same (p : Qs.Portfolio α) (e : Option Qs.Err) :
    Qs.Gen.pfView p (p, e) = Qs.Gen.PfView.mk e p.clock p.cash false 0 "" (ofInt 0) (ofInt 0) (ofInt 0) := by
  simp [Qs.Gen.pfView]

@[simp] theorem Qs.Tie.view_upd (p : Qs.Portfolio α) (e : Option Qs.Err) (i : String) (c : Int) (m : α) (ps : Qs.Positions α) :
    Qs.Gen.pfView p ({ id := i, clock := c, cash := m, positions := ps, history := p.history }, e)
      = Qs.Gen.PfView.mk e c m false 0 "" (ofInt 0) (ofInt 0) (ofInt 0) := by
  simp [Qs.Gen.pfView]

@[simp] theorem Qs.Tie.view_grow (p : Qs.Portfolio α) (e : Option Qs.Err) (i : String) (c : Int) (m : α) (ps : Qs.Positions α)
    (ev : Qs.Event α) :
    Qs.Gen.pfView p ({ id := i, clock := c, cash := m, positions := ps, history := p.history ++ [ev] }, e)
      = Qs.Gen.PfView.mk e c m true ev.time ev.kind.name ev.debit ev.credit ev.balance := by
  simp [Qs.Gen.pfView]

end

/-- obligations of the form `pfView p (model step) = Gen step …` (or one component of it): unfold, split every `if` and the
model's `match` on the position handler's outcome, rewrite the view of each resulting state, close the arithmetic -/
syntax "qs_tie_view" "[" Lean.Parser.Tactic.simpLemma,* "]" : tactic
macro_rules
  | `(tactic| qs_tie_view [$ds,*]) => `(tactic|
      (simp only [$ds,*] <;> split_ifs <;> (try split) <;> (try simp_all [Qs.EventKind.name, Qs.dirOf]) <;>
        (first | done | omega | (exfalso; omega) | linarith | (exfalso; linarith) | qs_tie_leaf)))
