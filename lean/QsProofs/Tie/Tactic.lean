import QsProofs.Inst
import Mathlib.Tactic.Ring
import Mathlib.Tactic.FieldSimp
import Mathlib.Tactic.Linarith
import Mathlib.Tactic.SplitIfs
import Mathlib.Tactic.Push
import Mathlib.Tactic.Order

/-!
# The fixed tactic that discharges the translator's tie obligations `Gen.f = Qs.f`

`Gen.f` is what `harness/translate.py` read off the Python source in `/repo`'s working tree; `Qs.f` is the
hand-written model the property theorems are about.  The tactic tries, in order: definitional equality;
unfolding plus `simp` with the carrier laws; case analysis on every `if` followed by field arithmetic
(`ring`), linear arithmetic for impossible branches, and `grind` as the last resort.  It is deliberately
stronger than needed for the current source, so that algebraically equivalent rewrites of the Python
formulas still check.
-/

open NumOps Num

/-- close one leaf goal of a tie obligation (every alternative either closes the goal or fails) -/
macro "qs_tie_leaf" : tactic => `(tactic| first
  | with_reducible rfl
  | (exfalso; linarith)
  | (exfalso; omega)
  | ring1
  | (simp_all <;> done)
  | (simp_all <;> ring1)
  | (simp_all <;> ring_nf <;> done)
  | (field_simp <;> ring1)
  | (simp_all <;> field_simp <;> ring1)
  | (simp_all <;> first | linarith | order)
  | (exfalso; simp_all <;> first | linarith | omega | order)
  | (exfalso; simp_all [sub_eq_zero] <;> first | linarith | omega | order | grind)
  | (simp_all [sub_eq_zero] <;> first | ring1 | linarith | order | (field_simp <;> ring1) | grind)
  | grind)

syntax "qs_tie" "[" Lean.Parser.Tactic.simpLemma,* "]" : tactic
macro_rules
  | `(tactic| qs_tie [$ds,*]) => `(tactic| first
      | with_reducible rfl
      | (simp only [$ds,*] <;> done)
      | (simp [$ds,*] <;> done)
      | (simp [$ds,*] <;> ring_nf <;> done)
      | (simp only [$ds,*] <;> split_ifs <;> qs_tie_leaf)
      | (simp [$ds,*] <;> split_ifs <;> qs_tie_leaf)
      | (simp only [$ds,*] <;> grind))

/-- the same, for obligations that carry a hypothesis `h` (rewritten into the goal first) -/
syntax "qs_tie_h" ident "[" Lean.Parser.Tactic.simpLemma,* "]" : tactic
macro_rules
  | `(tactic| qs_tie_h $h:ident [$ds,*]) => `(tactic| first
      | (simp only [$ds,*, $h:ident] <;> done)
      | (simp [$ds,*, $h:ident] <;> done)
      | (simp only [$ds,*, $h:ident] <;> split_ifs <;> qs_tie_leaf)
      | (simp [$ds,*, $h:ident] <;> split_ifs <;> qs_tie_leaf)
      | (simp only [$ds,*, $h:ident] <;> grind))
