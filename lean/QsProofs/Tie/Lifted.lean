import QsProofs.Tie.PositionGen
import QsProofs.Tie.KernelsGen
import QsProofs.Lemmas.Position
import QsProofs.Lemmas.Sizer
import QsProofs.Props.C03
import QsProofs.Props.C05

/-!
# Property statements about the *translated source*

`Qs.Gen.*` is what `harness/translate.py` read off the Python source of `/repo`'s working tree in this run
(`QsGen/*.lean`, generated); the tie theorems of `QsProofs/Tie/*Gen.lean` prove it equal to the model.
The theorems below restate kernel-level clauses of C02, C03, C05, C10 and C11 directly for `Qs.Gen.*`:
they are what the property theorems say about the code as it is written now, with the model rewritten away.
(They are corollaries: every other theorem about a tied model function transfers the same way.)
-/

open NumOps Num

namespace Qs.Tie

variable {α : Type} [Field α] [LinearOrder α] [IsStrictOrderedRing α] [FloorRing α] [NumOps α] [LawfulNumOps α]

/-- **C05 on the source.** The `Transaction` that `SimulatedBroker._execute_order` builds from a quote `(bid, ask)`:
stamped with the broker's clock, priced at the ask for a buy and the bid for a sell, for the order's full quantity, and
carrying the fee model's total cost on the consideration rounded half-to-even — whatever the portfolio's cash. -/
theorem C05_src_fill (clock : Int) (fee : Qs.FeeModel α) (cash bid ask : α) (o : Qs.Order) :
    let tx := Qs.Gen.Broker.makeTxn clock fee cash bid ask o
    tx.time = clock ∧ tx.price = (if o.qty < 0 then bid else ask) ∧ tx.qty = o.qty ∧ tx.asset = o.asset ∧
      tx.orderId = o.id ∧
      tx.commission = fee.totalCost ((roundHalfEvenI (tx.price * (o.qty : α)) : Int) : α) := by
  intro tx
  let b : Qs.Broker α := { clock := clock, master := 0, fee := fee }
  let q : Qs.Quotes α := fun _ => some (bid, ask)
  have h := tie_Broker_makeTxn b q o cash bid ask rfl
  obtain ⟨bid', ask', hq, h2, h3, h4, h5, h6, h7⟩ := Qs.C05_fill_general b q o _ h
  have : (bid', ask') = (bid, ask) := by
    have : some (bid, ask) = some (bid', ask') := hq
    exact (Option.some.inj this).symm
  obtain ⟨rfl, rfl⟩ := Prod.mk.inj this
  exact ⟨h2, h3, h4, h5, h6, h7⟩

/-- **C05 on the source** (symmetry): the percentage fee model's `calc_total_cost` is `(c + τ)·|x|`, non-negative for
non-negative rates and the same for a buy and a sell of the same consideration. -/
theorem C05_src_percent (c τ x : α) (asset : String) (q : Int) (hc : 0 ≤ c) (hτ : 0 ≤ τ) :
    Qs.Gen.PercentFee.totalCost c τ asset q x = (c + τ) * |x| ∧ 0 ≤ Qs.Gen.PercentFee.totalCost c τ asset q x ∧
    Qs.Gen.PercentFee.totalCost c τ asset q (-x) = Qs.Gen.PercentFee.totalCost c τ asset q x := by
  rw [tie_PercentFee_totalCost, tie_PercentFee_totalCost]
  exact Qs.C05_percent c τ x hc hτ

/-- **C05 on the source**: the zero fee model charges nothing. -/
theorem C05_src_zero (asset : String) (q : Int) (x : α) : Qs.Gen.ZeroFee.totalCost (α := α) asset q x = 0 := by
  rw [tie_ZeroFee_totalCost]; exact Qs.C05_zero x

/-- **C03 on the source.** `total_pnl = realised_pnl + unrealised_pnl` and
`unrealised_pnl = (current_price − avg_price) × net_quantity`, for every `Position` object. -/
theorem C03_src_total (p : Qs.Position α) :
    Qs.Gen.Position.totalPnl p = Qs.Gen.Position.realised p + Qs.Gen.Position.unrealised p ∧
    Qs.Gen.Position.unrealised p = (p.price - Qs.Gen.Position.avgPrice p) * Qs.Gen.Position.net p := by
  simp only [tie_Position_totalPnl, tie_Position_realised, tie_Position_unrealised, tie_Position_avgPrice, tie_Position_net]
  exact ⟨Qs.C03_total p, Qs.C03_unrealised p⟩

/-- **C03 on the source**: average cost on the side held — `(avg_bought·buy_quantity + buy_commission)/buy_quantity` when long,
`(avg_sold·sell_quantity − sell_commission)/sell_quantity` when short, `0` when flat. -/
theorem C03_src_avgPrice (p : Qs.Position α) :
    (0 < Qs.Gen.Position.net p → Qs.Gen.Position.avgPrice p = (p.avgB * p.buyQ + p.comB) / p.buyQ) ∧
    (Qs.Gen.Position.net p < 0 → Qs.Gen.Position.avgPrice p = (p.avgS * p.sellQ - p.comS) / p.sellQ) ∧
    (Qs.Gen.Position.net p = 0 → Qs.Gen.Position.avgPrice p = 0) := by
  simp only [tie_Position_avgPrice, tie_Position_net]
  refine ⟨Qs.avgPrice_long p, Qs.avgPrice_short p, ?_⟩
  intro h
  simp [Qs.Position.avgPrice, h]

/-- **C02 on the source**: an accepted fill (matching asset) moves the net quantity by exactly its signed quantity and leaves
the position marked at the fill price; a refused one leaves every quantity and the price as they were. -/
theorem C02_src_transact (p : Qs.Position α) (t : Qs.Txn α) (ha : p.asset = t.asset) (hq : t.qty ≠ 0) :
    ((Qs.Gen.Position.transact p t).2 = none →
      Qs.Gen.Position.net (Qs.Gen.Position.transact p t).1 = Qs.Gen.Position.net p + (t.qty : α) ∧
      (Qs.Gen.Position.transact p t).1.price = t.price) ∧
    (∀ e, (Qs.Gen.Position.transact p t).2 = some e →
      (Qs.Gen.Position.transact p t).1.buyQ = p.buyQ ∧ (Qs.Gen.Position.transact p t).1.sellQ = p.sellQ ∧
      (Qs.Gen.Position.transact p t).1.price = p.price) := by
  rw [tie_Position_transact p t ha]
  simp only [tie_Position_net]
  constructor
  · intro h
    simp only [Qs.Position.transact, if_neg hq] at h ⊢
    simp only [Qs.Position.updatePrice] at h ⊢
    split_ifs at h ⊢ <;> simp_all [Qs.Position.transactBuy, Qs.Position.transactSell, Qs.Position.net] <;> ring
  · intro e h
    simp only [Qs.Position.transact, if_neg hq] at h ⊢
    simp only [Qs.Position.updatePrice] at h ⊢
    split_ifs at h ⊢ <;> simp_all

/-- **C10 on the source** (per asset): the quantity the long-only sizer's loop body computes from the allocation
`A = equity·(1 − buffer)·weight ≥ 0` and a positive price is non-negative, affordable after the fee estimate, and maximal. -/
theorem C10_src_quantity (fee : Qs.FeeModel α) (equity buffer weight price : α)
    (hA : 0 ≤ equity * (1 - buffer) * weight) (hp : 0 < price) (hf1 : Qs.feeRate fee ≤ 1) :
    let A := equity * (1 - buffer) * weight
    let q := Qs.Gen.DW.quantity fee equity buffer weight price
    0 ≤ q ∧ (q : α) * price + Qs.feeRate fee * A ≤ A ∧ A < ((q : α) + 1) * price + Qs.feeRate fee * A := by
  intro A q
  have h := Qs.dwQuantity_spec fee (equity * (1 - buffer)) weight price hA hp hf1
  have e : q = Qs.dwQuantity fee (equity * (1 - buffer)) weight price := by
    show Qs.Gen.DW.quantity fee equity buffer weight price = _
    rw [tie_DW_quantity]; simp
  rw [e]; exact h

/-- **C11 on the source** (per asset): the quantity the long/short sizer's loop body computes carries the sign of its
allocation (or is zero) and is affordable against the after-cost dollars, to within one unit of currency and one share. -/
theorem C11_src_quantity (fee : Qs.FeeModel α) (equity weight price : α) (hp : 0 < price)
    (hf0 : 0 ≤ Qs.feeRate fee) (hf1 : Qs.feeRate fee ≤ 1) :
    let q := Qs.Gen.LS.quantity fee equity weight price
    (0 ≤ equity * weight → 0 ≤ q) ∧ (equity * weight ≤ 0 → q ≤ 0) ∧
    |(q : α)| * price ≤ |equity * weight - Qs.feeRate fee * _root_.abs (equity * weight)| := by
  intro q
  have e : q = Qs.lsQuantity fee equity weight price := tie_LS_quantity fee equity weight price
  rw [e]
  obtain ⟨h1, h2⟩ := Qs.lsQuantity_sign fee equity weight price hp hf0 hf1
  exact ⟨h1, h2, (Qs.lsQuantity_afford fee equity weight price hp).1⟩

/-- **C10 on the source** (parameter domain): the cash buffer is accepted, unchanged, exactly when it lies in `[0, 1]`;
any other value is refused with `ValueError`. -/
theorem C10_src_buffer (b : α) :
    (0 ≤ b ∧ b ≤ 1 → Qs.Gen.DW.checkBuffer b = .ok b) ∧
    (b < 0 ∨ 1 < b → Qs.Gen.DW.checkBuffer b = .error .value) := by
  rw [tie_DW_checkBuffer]
  constructor
  · rintro ⟨h0, h1⟩
    simp [Qs.dwCheckBuffer, lt_eq, not_lt.mpr h0, not_lt.mpr h1]
  · rintro (h | h)
    · simp [Qs.dwCheckBuffer, lt_eq, h]
    · simp [Qs.dwCheckBuffer, lt_eq, h]

/-- **C11 on the source** (parameter domain): the gross leverage is accepted, unchanged, exactly when it is positive. -/
theorem C11_src_leverage (l : α) :
    (0 < l → Qs.Gen.LS.checkLeverage l = .ok l) ∧ (l ≤ 0 → Qs.Gen.LS.checkLeverage l = .error .value) := by
  rw [tie_LS_checkLeverage]
  constructor
  · intro h; simp [Qs.lsCheckLeverage, le_eq, not_le.mpr h]
  · intro h; simp [Qs.lsCheckLeverage, le_eq, h]

end Qs.Tie
