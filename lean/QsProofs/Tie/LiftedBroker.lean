import QsProofs.Tie.KernelsGen
import QsProofs.Props.C15

/-!
# Account-level broker requests: statements about the *translated source*

`Qs.Gen.Broker.checkCurrency / checkFunds / subscribeAccount / withdrawAccount` are what `harness/translate.py` read off
`SimulatedBroker._set_base_currency`, `_set_initial_funds`, `subscribe_funds_to_account` and
`withdraw_funds_from_account` in this run (`QsGen/Kernels.lean`, generated).  The theorems below say, about that code:

* which constructions and account transfers are refused, with which error class, and that a refusal yields no new state
  (C15);
* what an accepted transfer does to the master balance, and that the hand-written model's broker requests
  (`Broker.create`, `Broker.subscribeAccount`, `Broker.withdrawAccount`, on which C01 and C15 are proved) are exactly
  these kernels lifted to the broker state (C01, C15).
-/

open NumOps Num

namespace Qs.Tie

variable {α : Type} [Field α] [LinearOrder α] [IsStrictOrderedRing α] [FloorRing α] [NumOps α] [LawfulNumOps α]

/-- **C15 on the source** (base currency): accepted exactly when the code is an element of the list of supported
currencies — equality with an element, not containment in a rendering of the list — and returned unchanged; otherwise
`ValueError`. -/
theorem C15_src_currency (supported : List String) (cur : String) :
    (cur ∈ supported → Qs.Gen.Broker.checkCurrency supported cur = .ok cur) ∧
    (cur ∉ supported → Qs.Gen.Broker.checkCurrency supported cur = .error .value) := by
  rw [tie_Broker_checkCurrency]
  constructor <;> intro h <;> simp [Qs.Broker.checkCurrency, h]

/-- **C15 on the source** (initial funds): negative funds are refused with `ValueError`, any other amount is kept as it is. -/
theorem C15_src_funds (funds : α) :
    (funds < 0 → Qs.Gen.Broker.checkFunds funds = .error .value) ∧
    (¬ funds < 0 → Qs.Gen.Broker.checkFunds funds = .ok funds) := by
  rw [tie_Broker_checkFunds]
  constructor <;> intro h <;> simp [Qs.Broker.checkFunds, lt_eq, h]

/-- the model's constructor is the two source checks in the order the code runs them, followed by the initial balances -/
theorem C15_src_create (supported : List String) (cur : String) (t : Int) (funds : α) (fee : Qs.FeeModel α) :
    Qs.Broker.create supported cur t funds fee =
      (match Qs.Gen.Broker.checkCurrency supported cur with
       | .error e => .error e
       | .ok _ =>
         match Qs.Gen.Broker.checkFunds funds with
         | .error e => .error e
         | .ok f => .ok { clock := t, master := (if lt zero f then f else zero), fee := fee }) := by
  rw [tie_Broker_checkCurrency, tie_Broker_checkFunds]
  by_cases hc : cur ∈ supported
  · by_cases hf : funds < 0
    · simp [Qs.Broker.create, Qs.Broker.checkCurrency, Qs.Broker.checkFunds, Qs.Broker.new, lt_eq, hc, hf]
    · simp [Qs.Broker.create, Qs.Broker.checkCurrency, Qs.Broker.checkFunds, Qs.Broker.new, lt_eq, hc, hf]
  · simp [Qs.Broker.create, Qs.Broker.checkCurrency, hc]

/-- **C01 / C15 on the source** (account subscription): a negative amount is refused with `ValueError`; any other amount
is added to the master balance, which is the only thing that changes. -/
theorem C01_src_subscribeAccount (master amount : α) :
    (amount < 0 → Qs.Gen.Broker.subscribeAccount master amount = .error .value) ∧
    (¬ amount < 0 → Qs.Gen.Broker.subscribeAccount master amount = .ok (master + amount)) := by
  rw [tie_Broker_subscribeAccount]
  constructor <;> intro h <;> simp [Qs.Broker.subscribeAccountMaster, lt_eq, h]

/-- **C01 / C15 on the source** (account withdrawal): refused with `ValueError` when the amount is negative or exceeds the
master balance; otherwise the balance drops by exactly the amount, and so never becomes negative. -/
theorem C01_src_withdrawAccount (master amount : α) :
    (amount < 0 ∨ master < amount → Qs.Gen.Broker.withdrawAccount master amount = .error .value) ∧
    (¬ amount < 0 → ¬ master < amount →
      Qs.Gen.Broker.withdrawAccount master amount = .ok (master - amount) ∧ 0 ≤ master - amount) := by
  rw [tie_Broker_withdrawAccount]
  constructor
  · rintro (h | h)
    · simp [Qs.Broker.withdrawAccountMaster, lt_eq, h]
    · by_cases h0 : amount < 0 <;> simp [Qs.Broker.withdrawAccountMaster, lt_eq, h, h0]
  · intro h0 h1
    refine ⟨by simp [Qs.Broker.withdrawAccountMaster, lt_eq, h0, h1], ?_⟩
    have := not_lt.mp h1
    linarith

/-- the model's account requests are the source kernels lifted to the broker state: a refusal returns the broker
unchanged together with the kernel's error, an acceptance replaces the master balance by the kernel's result -/
theorem C01_src_account_ops (b : Qs.Broker α) (amount : α) :
    b.subscribeAccount amount =
      (match Qs.Gen.Broker.subscribeAccount b.master amount with
       | .ok m => ({ b with master := m }, none)
       | .error e => (b, some e)) ∧
    b.withdrawAccount amount =
      (match Qs.Gen.Broker.withdrawAccount b.master amount with
       | .ok m => ({ b with master := m }, none)
       | .error e => (b, some e)) := by
  rw [tie_Broker_subscribeAccount, tie_Broker_withdrawAccount]
  constructor
  · by_cases h : amount < 0 <;>
      simp [Qs.Broker.subscribeAccount, Qs.Broker.subscribeAccountMaster, lt_eq, h]
  · by_cases h : amount < 0
    · simp [Qs.Broker.withdrawAccount, Qs.Broker.withdrawAccountMaster, lt_eq, h]
    · by_cases h2 : b.master < amount <;>
        simp [Qs.Broker.withdrawAccount, Qs.Broker.withdrawAccountMaster, lt_eq, h, h2]

end Qs.Tie

namespace Qs.Tie

variable {α : Type} [Field α] [LinearOrder α] [IsStrictOrderedRing α] [FloorRing α] [NumOps α] [LawfulNumOps α]

/-- **C01 / C15 on the source** (transfer from the master account to a portfolio, broker side).  Refused with `ValueError` for a
negative amount, `KeyError` for an unknown portfolio id, `ValueError` when the amount exceeds the master balance — in that order;
otherwise the portfolio's own `subscribe_funds` is handed the broker's clock and **exactly the amount by which the master
balance is reduced**: the transfer is zero-sum. -/
theorem C01_src_subscribePortfolio (pids : List String) (clock : Int) (master : α) (pid : String) (amount : α) :
    (amount < 0 → Qs.Gen.Broker.subscribePortfolio pids clock master pid amount = .error .value) ∧
    (¬ amount < 0 → pid ∉ pids → Qs.Gen.Broker.subscribePortfolio pids clock master pid amount = .error .key) ∧
    (¬ amount < 0 → pid ∈ pids → master < amount →
      Qs.Gen.Broker.subscribePortfolio pids clock master pid amount = .error .value) ∧
    (∀ x, Qs.Gen.Broker.subscribePortfolio pids clock master pid amount = .ok x →
      x.master + x.amount = master ∧ x.amount = amount ∧ x.time = clock ∧ 0 ≤ x.master ∧ 0 ≤ x.amount) := by
  rw [tie_Broker_subscribePortfolio]
  refine ⟨?_, ?_, ?_, ?_⟩
  · intro h; simp [Qs.Broker.subscribePortfolioXfer, lt_eq, h]
  · intro h0 hp; simp [Qs.Broker.subscribePortfolioXfer, lt_eq, h0, hp]
  · intro h0 hp hm; simp [Qs.Broker.subscribePortfolioXfer, lt_eq, h0, hp, hm]
  · intro x hx
    by_cases h0 : amount < 0
    · simp [Qs.Broker.subscribePortfolioXfer, lt_eq, h0] at hx
    · by_cases hp : pid ∈ pids
      · by_cases hm : master < amount
        · simp [Qs.Broker.subscribePortfolioXfer, lt_eq, h0, hp, hm] at hx
        · simp [Qs.Broker.subscribePortfolioXfer, lt_eq, h0, hp, hm] at hx
          subst hx
          have h1 := not_lt.mp h0
          have h2 := not_lt.mp hm
          refine ⟨by ring, rfl, rfl, by linarith, h1⟩
      · simp [Qs.Broker.subscribePortfolioXfer, lt_eq, h0, hp] at hx

/-- **C01 / C15 on the source** (transfer from a portfolio back to the master account, broker side): same refusals, the third
one against the portfolio's cash; an accepted transfer credits the master account with exactly the amount handed to the
portfolio's `withdraw_funds`. -/
theorem C01_src_withdrawPortfolio (pids : List String) (clock : Int) (master pfCash : α) (pid : String) (amount : α) :
    (amount < 0 → Qs.Gen.Broker.withdrawPortfolio pids clock master pfCash pid amount = .error .value) ∧
    (¬ amount < 0 → pid ∉ pids → Qs.Gen.Broker.withdrawPortfolio pids clock master pfCash pid amount = .error .key) ∧
    (¬ amount < 0 → pid ∈ pids → pfCash < amount →
      Qs.Gen.Broker.withdrawPortfolio pids clock master pfCash pid amount = .error .value) ∧
    (∀ x, Qs.Gen.Broker.withdrawPortfolio pids clock master pfCash pid amount = .ok x →
      x.master - x.amount = master ∧ x.amount = amount ∧ x.time = clock ∧ x.amount ≤ pfCash ∧ 0 ≤ x.amount) := by
  rw [tie_Broker_withdrawPortfolio]
  refine ⟨?_, ?_, ?_, ?_⟩
  · intro h; simp [Qs.Broker.withdrawPortfolioXfer, lt_eq, h]
  · intro h0 hp; simp [Qs.Broker.withdrawPortfolioXfer, lt_eq, h0, hp]
  · intro h0 hp hm; simp [Qs.Broker.withdrawPortfolioXfer, lt_eq, h0, hp, hm]
  · intro x hx
    by_cases h0 : amount < 0
    · simp [Qs.Broker.withdrawPortfolioXfer, lt_eq, h0] at hx
    · by_cases hp : pid ∈ pids
      · by_cases hm : pfCash < amount
        · simp [Qs.Broker.withdrawPortfolioXfer, lt_eq, h0, hp, hm] at hx
        · simp [Qs.Broker.withdrawPortfolioXfer, lt_eq, h0, hp, hm] at hx
          subst hx
          have h1 := not_lt.mp h0
          have h2 := not_lt.mp hm
          refine ⟨by ring, rfl, rfl, h2, h1⟩
      · simp [Qs.Broker.withdrawPortfolioXfer, lt_eq, h0, hp] at hx

/-- the model's portfolio transfers are these kernels lifted to the broker state: the broker-side refusals are the kernel's,
and on acceptance the portfolio's own method receives the kernel's time and amount and, if it accepts too, the master
balance becomes the kernel's (`ids` is the list of portfolio ids, in which the kernel looks the id up) -/
theorem C01_src_portfolio_transfers (b : Qs.Broker α) (pid : String) (amount : α) :
    b.subscribePortfolio pid amount =
      (match Qs.Gen.Broker.subscribePortfolio (b.entries.map (·.pf.id)) b.clock b.master pid amount, b.find? pid with
       | .error e, _ => (b, some e)
       | .ok _, none => (b, some .key)
       | .ok x, some en =>
         match en.pf.subscribe x.time x.amount with
         | (pf, some err) => (b.setPf pf, some err)
         | (pf, none) => ({ (b.setPf pf) with master := x.master }, none)) := by
  rw [tie_Broker_subscribePortfolio]
  have hmem : pid ∈ b.entries.map (·.pf.id) ↔ ∃ e, b.find? pid = some e := by
    rw [← Qs.has_iff_find_c01, Qs.has_iff]
    simp only [List.mem_map]
  by_cases h0 : amount < 0
  · simp [Qs.Broker.subscribePortfolio, Qs.Broker.subscribePortfolioXfer, lt_eq, h0]
  · cases hf : b.find? pid with
    | none =>
      have hp : pid ∉ b.entries.map (·.pf.id) := by
        intro h; obtain ⟨e, he⟩ := hmem.mp h; rw [hf] at he; cases he
      simp [Qs.Broker.subscribePortfolio, Qs.Broker.subscribePortfolioXfer, lt_eq, h0, hf, hp]
    | some en =>
      have hp : pid ∈ b.entries.map (·.pf.id) := hmem.mpr ⟨en, hf⟩
      by_cases hm : b.master < amount
      · simp [Qs.Broker.subscribePortfolio, Qs.Broker.subscribePortfolioXfer, lt_eq, h0, hf, hp, hm]
      · simp [Qs.Broker.subscribePortfolio, Qs.Broker.subscribePortfolioXfer, lt_eq, h0, hf, hp, hm]
        rcases en.pf.subscribe b.clock amount with ⟨pf, _ | err⟩ <;> rfl

end Qs.Tie
