import QsModel.Broker

/-!
# M2 — market data: `CSVDailyBarDataSource`, `BacktestDataHandler`

Mirrors `qstrader/data/daily_bar_csv.py:129-248` and `data/backtest_data_handler.py`.
Input: per asset the CSV rows *in file order* with the cell values as pandas parsed them
(`none` = missing cell / NaN).  Pipeline: sort bars by date → adjusted open `(adj/close)*open`,
adjusted close `adj` (or the raw columns) → two rows per bar at 14:30 and 21:00 → forward fill →
pad lookup (`none` when no row is at or before `t`: the behaviour after fix F2).
Duplicate dates within one file are out of scope.
-/

namespace Qs

structure Bar (α : Type) where
  day : Int
  open_ : Option α
  close : Option α
  adj : Option α
deriving Repr

/-- one row of the bid/ask frame: timestamp and price (`Bid` = `Ask` = price) -/
structure Row (α : Type) where
  time : Int
  val : Option α
deriving Repr

section
variable {α : Type} [Add α] [Sub α] [Mul α] [Div α] [Neg α] [NumOps α]

/-- the open/close rows of one bar (`Adj Open = (Adj Close / Close) * Open` when adjusting) -/
def expandBar (adjust : Bool) (b : Bar α) : List (Row α) :=
  let o : Option α :=
    if adjust then (do let a ← b.adj; let c ← b.close; let o ← b.open_; pure ((a / c) * o)) else b.open_
  let c : Option α := if adjust then b.adj else b.close
  [⟨b.day * 86400 + OPEN, o⟩, ⟨b.day * 86400 + CLOSE, c⟩]

/-- `DataFrame.ffill()` down the rows, carrying the last seen value -/
def ffill : Option α → List (Row α) → List (Row α)
  | _, [] => []
  | c, r :: rs => let v := r.val.or c; ⟨r.time, v⟩ :: ffill v rs

def barLe (a b : Bar α) : Bool := decide (a.day ≤ b.day)

/-- `_convert_bar_frame_into_bid_ask_df` -/
def bidAskFrame (adjust : Bool) (bars : List (Bar α)) : List (Row α) :=
  ffill none ((bars.mergeSort barLe).flatMap (expandBar adjust))

/-- `index.get_indexer([t], method='pad')` followed by `.iloc`: the last row whose time is `≤ t` -/
def padLookup (rows : List (Row α)) (t : Int) : Option α :=
  ((rows.takeWhile (fun r => decide (r.time ≤ t))).getLast?).bind (·.val)

/-- `get_bid(dt, asset)` / `get_ask(dt, asset)` for one asset's file -/
def barLookup (adjust : Bool) (bars : List (Bar α)) (t : Int) : Option α :=
  padLookup (bidAskFrame adjust bars) t

/-- a CSV data source: adjustment flag and the bars of every asset it knows -/
structure DataSource (α : Type) where
  adjust : Bool
  assets : List (String × List (Bar α))

/-- `CSVDailyBarDataSource.get_bid`: `KeyError` for an unknown asset, `none` = NaN -/
def DataSource.getBid (ds : DataSource α) (t : Int) (a : String) : Except Err (Option α) :=
  match ds.assets.lookup a with
  | none => .error .key
  | some bars => .ok (barLookup ds.adjust bars t)

/-- `BacktestDataHandler.get_asset_latest_bid_price`: the first source with a non-NaN value -/
def handlerBid (sources : List (DataSource α)) (t : Int) (a : String) : Option α :=
  sources.findSome? fun ds => match ds.getBid t a with | .ok v => v | .error _ => none

/-- `get_asset_latest_bid_ask_price`: `(bid, bid)` -/
def handlerBidAsk (sources : List (DataSource α)) (t : Int) (a : String) : Option (α × α) :=
  (handlerBid sources t a).map fun b => (b, b)

/-- `get_asset_latest_mid_price`: `(bid + ask) / 2.0` -/
def handlerMid (sources : List (DataSource α)) (t : Int) (a : String) : Option α :=
  (handlerBidAsk sources t a).map fun (b, k) => (b + k) / NumOps.ofInt 2

end

/-- `functools.lru_cache` as a memo table: a hit returns the stored value, a miss computes and stores -/
def cachedGet {κ ν : Type} [BEq κ] (f : κ → ν) (tbl : List (κ × ν)) (k : κ) : ν × List (κ × ν) :=
  match tbl.lookup k with
  | some v => (v, tbl)
  | none => (f k, (k, f k) :: tbl)

end Qs
