import QsModel.Portfolio

/-!
# M3c — fee models, exchange hours, `Order`, `SimulatedBroker`

Mirrors `qstrader/broker/simulated_broker.py`, `fee_model/*.py`, `exchange/simulated_exchange.py`,
`execution/order.py`.  The broker is a state machine `step : Broker α → Op α → Broker α × Outcome`.
-/

namespace Qs
open NumOps Num

/-! ## Exchange hours (`SimulatedExchange.is_open_at_datetime`) -/

def OPEN : Int := 52200    -- 14:30:00
def CLOSE : Int := 75600   -- 21:00:00
def dayOf (t : Int) : Int := t / 86400
def todOf (t : Int) : Int := t % 86400
/-- 0 = Monday … 6 = Sunday; day 0 = 1970-01-01, a Thursday -/
def weekday (d : Int) : Int := (d + 3) % 7

def isOpen (t : Int) : Bool :=
  decide (weekday (dayOf t) ≤ 4) && decide (OPEN ≤ todOf t) && decide (todOf t < CLOSE)

/-! ## Fee models -/

inductive FeeModel (α : Type)
  | zero
  | percent (commissionPct taxPct : α)
deriving Repr

section
variable {α : Type} [Add α] [Sub α] [Mul α] [Div α] [Neg α] [NumOps α]

/-- `calc_total_cost(asset, quantity, consideration)`: `commission + tax`, each `rate * abs(consideration)` -/
def FeeModel.totalCost (f : FeeModel α) (consideration : α) : α :=
  match f with
  | .zero => Num.zero
  | .percent c τ => c * abs consideration + τ * abs consideration

end

/-! ## Orders -/

structure Order where
  id : Nat
  asset : String
  qty : Int
deriving DecidableEq, Repr

def Order.direction (o : Order) : Int := dirOf o.qty
def Order.isSell (o : Order) : Bool := decide (o.qty < 0)

/-- stable sort of a batch by `direction` (keys are ±1): sells first, submission order within a side -/
def sellsFirst {β : Type} (isSell : β → Bool) (l : List β) : List β :=
  l.filter isSell ++ l.filter (fun o => !isSell o)

/-! ## Broker state -/

structure PfEntry (α : Type) where
  pf : Portfolio α
  queue : List Order := []
deriving Repr

structure Broker (α : Type) where
  clock : Int
  master : α
  fee : FeeModel α
  entries : List (PfEntry α) := []   -- `portfolios` / `open_orders`, insertion order
  /-- ghost: every `Transaction` accepted by a portfolio so far, oldest first -/
  fillLog : List (String × Txn α) := []
deriving Repr

/-- quotes available at one instant: `(bid, ask)` per asset, `none` = `(nan, nan)` -/
abbrev Quotes (α : Type) := String → Option (α × α)

inductive Op (α : Type)
  | subAcct (amount : α)
  | wdAcct (amount : α)
  | create (pid : String)
  | subPf (pid : String) (amount : α)
  | wdPf (pid : String) (amount : α)
  | submit (pid : String) (o : Order)
  | update (t : Int) (q : Quotes α)
  -- component-level inputs (used when a recorded `Transaction` / mark drives the accounting directly)
  | setClock (t : Int)
  | applyTxn (pid : String) (t : Txn α)
  | applyMark (pid : String) (asset : String) (price : α) (t : Int)
  -- the portfolio's own transfer methods, called directly on `broker.portfolios[pid]`
  | pfSubscribe (pid : String) (t : Int) (amount : α)
  | pfWithdraw (pid : String) (t : Int) (amount : α)

section
variable {α : Type} [Add α] [Sub α] [Mul α] [Div α] [Neg α] [NumOps α]

namespace Broker

/-- `SimulatedBroker(start_dt, …, initial_funds, fee_model)`; negative funds are rejected -/
def new (t : Int) (funds : α) (fee : FeeModel α) : Except Err (Broker α) :=
  if lt funds zero then .error .value
  else .ok { clock := t, master := (if lt zero funds then funds else zero), fee := fee }

/-- the whole constructor: `_set_base_currency` first (`base_currency in settings.SUPPORTED['CURRENCIES']`, the list is a
parameter read from the code's settings on every run), then `_set_initial_funds` (`new`); both refusals are `ValueError` -/
def create (supported : List String) (cur : String) (t : Int) (funds : α) (fee : FeeModel α) : Except Err (Broker α) :=
  if supported.contains cur then new t funds fee else .error .value

/-- `_set_initial_funds` -/
def checkFunds (funds : α) : Except Err α := if lt funds zero then .error .value else .ok funds

/-- `_set_base_currency` -/
def checkCurrency (supported : List String) (cur : String) : Except Err String :=
  if supported.contains cur then .ok cur else .error .value

/-- what `subscribe_funds_to_account(amount)` does to the master balance -/
def subscribeAccountMaster (master amount : α) : Except Err α :=
  if lt amount zero then .error .value else .ok (master + amount)

/-- what `withdraw_funds_from_account(amount)` does to the master balance -/
def withdrawAccountMaster (master amount : α) : Except Err α :=
  if lt amount zero then .error .value else if lt master amount then .error .value else .ok (master - amount)

/-- what a transfer between the master account and a portfolio consists of: the new master balance, and the amount and time
handed to the portfolio's own `subscribe_funds` / `withdraw_funds` -/
structure Xfer (α : Type) where
  master : α
  amount : α
  time : Int
deriving Repr

/-- `subscribe_funds_to_portfolio`, broker side (`known`: the portfolio id exists) -/
def subscribePortfolioXfer (known : Bool) (clock : Int) (master amount : α) : Except Err (Xfer α) :=
  if lt amount zero then .error .value
  else if !known then .error .key
  else if lt master amount then .error .value
  else .ok { master := master - amount, amount := amount, time := clock }

/-- `withdraw_funds_from_portfolio`, broker side -/
def withdrawPortfolioXfer (known : Bool) (clock : Int) (master pfCash amount : α) : Except Err (Xfer α) :=
  if lt amount zero then .error .value
  else if !known then .error .key
  else if lt pfCash amount then .error .value
  else .ok { master := master + amount, amount := amount, time := clock }

/-- `get_account_cash_balance(currency)`: one balance per supported currency, all zero but the base currency's -/
def accountCash (b : Broker α) (supported : List String) (base cur : String) : Except Err α :=
  if supported.contains cur then .ok (if cur == base then b.master else zero) else .error .value

def find? (b : Broker α) (pid : String) : Option (PfEntry α) :=
  List.find? (fun e => e.pf.id == pid) b.entries

def has (b : Broker α) (pid : String) : Bool := List.any b.entries (fun e => e.pf.id == pid)

def setEntry (b : Broker α) (e : PfEntry α) : Broker α :=
  { b with entries := List.map (fun x => if x.pf.id == e.pf.id then e else x) b.entries }

def setPf (b : Broker α) (p : Portfolio α) : Broker α :=
  { b with entries := List.map (fun x => if x.pf.id == p.id then { x with pf := p } else x) b.entries }

/-! ### transfers -/

def subscribeAccount (b : Broker α) (amount : α) : Broker α × Option Err :=
  if lt amount zero then (b, some .value)
  else ({ b with master := b.master + amount }, none)

def withdrawAccount (b : Broker α) (amount : α) : Broker α × Option Err :=
  if lt amount zero then (b, some .value)
  else if lt b.master amount then (b, some .value)
  else ({ b with master := b.master - amount }, none)

def createPortfolio (b : Broker α) (pid : String) : Broker α × Option Err :=
  if b.has pid then (b, some .value)
  else ({ b with entries := b.entries ++ [{ pf := Portfolio.new pid b.clock }] }, none)

def subscribePortfolio (b : Broker α) (pid : String) (amount : α) : Broker α × Option Err :=
  if lt amount zero then (b, some .value)
  else match b.find? pid with
    | none => (b, some .key)
    | some e =>
      if lt b.master amount then (b, some .value)
      else match e.pf.subscribe b.clock amount with
        | (pf, some err) => (b.setPf pf, some err)     -- raised before the master account is touched
        | (pf, none) => ({ (b.setPf pf) with master := b.master - amount }, none)

def withdrawPortfolio (b : Broker α) (pid : String) (amount : α) : Broker α × Option Err :=
  if lt amount zero then (b, some .value)
  else match b.find? pid with
    | none => (b, some .key)
    | some e =>
      if lt e.pf.cash amount then (b, some .value)
      else match e.pf.withdraw b.clock amount with
        | (pf, some err) => (b.setPf pf, some err)
        | (pf, none) => ({ (b.setPf pf) with master := b.master + amount }, none)

/-! ### orders -/

def submitOrder (b : Broker α) (pid : String) (o : Order) : Broker α × Option Err :=
  match b.find? pid with
  | none => (b, some .key)
  | some e => (b.setEntry { e with queue := e.queue ++ [o] }, none)

/-- the `Transaction` that `_execute_order` builds, or the error it raises for a missing quote -/
def makeTxn (b : Broker α) (q : Quotes α) (o : Order) : Except Err (Txn α) :=
  match q o.asset with
  | none => .error .value
  | some (bid, ask) =>
    let price := if 0 < o.direction then ask else bid
    let consideration : Int := roundHalfEvenI (price * ofInt o.qty)
    let commission := b.fee.totalCost (ofInt consideration)
    .ok { asset := o.asset, qty := o.qty, time := b.clock, price := price,
          commission := commission, orderId := o.id }

/-- apply a transaction to a portfolio of the broker -/
def applyTxn (b : Broker α) (pid : String) (t : Txn α) : Broker α × Option Err :=
  match b.find? pid with
  | none => (b, some .key)
  | some e =>
    match e.pf.transactAsset t with
    | (pf, some err) => (b.setPf pf, some err)
    | (pf, none) => ({ (b.setPf pf) with fillLog := b.fillLog ++ [(pid, t)] }, none)

def executeOrder (b : Broker α) (q : Quotes α) (pid : String) (o : Order) : Broker α × Option Err :=
  match b.makeTxn q o with
  | .error e => (b, some e)
  | .ok t => b.applyTxn pid t

def applyMark (b : Broker α) (pid : String) (asset : String) (price : α) (t : Int) : Broker α × Option Err :=
  match b.find? pid with
  | none => (b, some .key)
  | some e =>
    match e.pf.mark asset price t with
    | (pf, err) => (b.setPf pf, err)

def pfSubscribe (b : Broker α) (pid : String) (t : Int) (amount : α) : Broker α × Option Err :=
  match b.find? pid with
  | none => (b, some .key)
  | some e => match e.pf.subscribe t amount with | (pf, err) => (b.setPf pf, err)

def pfWithdraw (b : Broker α) (pid : String) (t : Int) (amount : α) : Broker α × Option Err :=
  match b.find? pid with
  | none => (b, some .key)
  | some e => match e.pf.withdraw t amount with | (pf, err) => (b.setPf pf, err)

/-- the marks of one `update`: every held asset of every portfolio, in dictionary order.
A held asset without a quote is left unmarked (outside every quantifier; never generated). -/
def markTargets (b : Broker α) (q : Quotes α) : List (String × String × α) :=
  b.entries.flatMap fun e =>
    e.pf.positions.filterMap fun pos =>
      match q pos.asset with
      | some (bid, ask) => some (e.pf.id, pos.asset, (bid + ask) / (ofInt 2))
      | none => none

/-- run a list of effects until the first error -/
def runUntilErr {β : Type} (f : Broker α → β → Broker α × Option Err) : Broker α → List β → Broker α × Option Err
  | b, [] => (b, none)
  | b, x :: xs =>
    match f b x with
    | (b', some e) => (b', some e)
    | (b', none) => runUntilErr f b' xs

/-- all queues, drained in portfolio order -/
def drained (b : Broker α) : List (String × Order) :=
  b.entries.flatMap fun e => e.queue.map fun o => (e.pf.id, o)

def clearQueues (b : Broker α) : Broker α :=
  { b with entries := b.entries.map fun e => { e with queue := [] } }

/-- `update(dt)` -/
def update (b : Broker α) (t : Int) (q : Quotes α) : Broker α × Option Err :=
  let b0 := { b with clock := t }
  match runUntilErr (fun b (m : String × String × α) => b.applyMark m.1 m.2.1 m.2.2 t) b0 (b0.markTargets q) with
  | (b1, some e) => (b1, some e)
  | (b1, none) =>
    if isOpen t then
      let batch := sellsFirst (fun (x : String × Order) => x.2.isSell) b1.drained
      runUntilErr (fun b (x : String × Order) => b.executeOrder q x.1 x.2) b1.clearQueues batch
    else (b1, none)

/-! ### getters -/

def portfolioCash (b : Broker α) (pid : String) : Except Err α :=
  match b.find? pid with | none => .error .value | some e => .ok e.pf.cash

def portfolioMarketValue (b : Broker α) (pid : String) : Except Err α :=
  match b.find? pid with | none => .error .key | some e => .ok e.pf.totalMarketValue

def portfolioEquity (b : Broker α) (pid : String) : Except Err α :=
  match b.find? pid with | none => .error .key | some e => .ok e.pf.totalEquity

/-- `get_account_total_equity()`: per-portfolio equity and the `master` total (`+=` loop from `0.0`) -/
def accountTotalEquity (b : Broker α) : List (String × α) × α :=
  let per := b.entries.map fun e => (e.pf.id, e.pf.totalEquity)
  (per, sumNaive (per.map (·.2)))

/-- `get_account_total_market_value()` (as repaired by fix F1) -/
def accountTotalMarketValue (b : Broker α) : List (String × α) × α :=
  let per := b.entries.map fun e => (e.pf.id, e.pf.totalMarketValue)
  (per, sumNaive (per.map (·.2)))

end Broker

/-- outcome of one operation: `none` = returned normally -/
abbrev Outcome := Option Err

def step (b : Broker α) : Op α → Broker α × Outcome
  | .subAcct a => b.subscribeAccount a
  | .wdAcct a => b.withdrawAccount a
  | .create pid => b.createPortfolio pid
  | .subPf pid a => b.subscribePortfolio pid a
  | .wdPf pid a => b.withdrawPortfolio pid a
  | .submit pid o => b.submitOrder pid o
  | .update t q => b.update t q
  | .setClock t => ({ b with clock := t }, none)
  | .applyTxn pid t => b.applyTxn pid t
  | .applyMark pid a p t => b.applyMark pid a p t
  | .pfSubscribe pid t a => b.pfSubscribe pid t a
  | .pfWithdraw pid t a => b.pfWithdraw pid t a

def run (b : Broker α) : List (Op α) → Broker α
  | [] => b
  | o :: os => run (step b o).1 os

end
end Qs
