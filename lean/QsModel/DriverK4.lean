import QsModel.Pcm
import QsModel.Proto

/-!
# Driver for harness K4 (order sizers, optimisers, universes, portfolio construction)
-/

namespace Qs.K4
open Proto NumOps Num

section
variable {α : Type} [Add α] [Sub α] [Mul α] [Div α] [Neg α] [Carrier α]

abbrev P := StateT (List String) Option

def tok : P String := do
  match (← get) with
  | [] => failure
  | t :: ts => set ts; pure t

def pInt : P Int := do let t ← tok; match int? t with | some n => pure n | none => failure
def pNat : P Nat := do let t ← tok; match t.toNat? with | some n => pure n | none => failure
def pNum : P α := do let t ← tok; match (num? t : Option α) with | some x => pure x | none => failure
def pOptNum : P (Option α) := do
  let t ← tok
  if t == "-" then pure none else match (num? t : Option α) with | some x => pure (some x) | none => failure
def pOptInt : P (Option Int) := do
  let t ← tok
  if t == "-" then pure none else match int? t with | some x => pure (some x) | none => failure

def pRep {β : Type} (p : P β) : Nat → P (List β)
  | 0 => pure []
  | n + 1 => do let x ← p; let xs ← pRep p n; pure (x :: xs)

def pFee : P (FeeModel α) := do
  let t ← tok
  if t == "Z" then pure .zero
  else if t == "P" then do let c ← pNum; let tau ← pNum; pure (.percent c tau)
  else failure

def qtyJson (q : List (String × Int)) : String := jlist (q.map fun (a, n) => jlist [jstr a, jint n])
def wJson (w : List (String × α)) : String := jlist (w.map fun (a, x) => jlist [jstr a, jnum x])

def sizeJson (r : Except Err Quantities) : String :=
  match r with
  | .ok q => jobj [("out", jstr "ok"), ("qty", qtyJson q)]
  | .error e => jobj [("out", jstr e.name)]

/-- `(asset, weight, price?)` triples -/
def pAwp : P (String × α × Option α) := do
  let a ← tok; let w ← (pNum : P α); let p ← (pOptNum : P (Option α)); pure (a, w, p)

def cmd : P String := do
  let c ← tok
  match c with
  | "dwnew" => do
      let b ← (pNum : P α)
      pure (match dwCheckBuffer b with | .ok _ => jobj [("out", jstr "ok")] | .error e => jobj [("out", jstr e.name)])
  | "lsnew" => do
      let l ← (pNum : P α)
      pure (match lsCheckLeverage l with | .ok _ => jobj [("out", jstr "ok")] | .error e => jobj [("out", jstr e.name)])
  | "dw" => do
      let fee ← (pFee : P (FeeModel α)); let eq ← (pNum : P α); let buf ← (pNum : P α)
      let n ← pNat; let items ← pRep (pAwp (α := α)) n
      let w : Weights α := items.map fun (a, w, _) => (a, w)
      let price : String → Option α := fun a => ((items.map fun (a, _, p) => (a, p)).lookup a).join
      pure (sizeJson (dwSize fee eq buf price w))
  | "ls" => do
      let fee ← (pFee : P (FeeModel α)); let eq ← (pNum : P α); let lev ← (pNum : P α)
      let n ← pNat; let items ← pRep (pAwp (α := α)) n
      let w : Weights α := items.map fun (a, w, _) => (a, w)
      let price : String → Option α := fun a => ((items.map fun (a, _, p) => (a, p)).lookup a).join
      pure (sizeJson (lsSize fee eq lev price w))
  | "pcm" => do
      let nh ← pNat; let held ← pRep (do let a ← tok; let q ← pInt; pure (a, q)) nh
      let nu ← pNat; let uni ← pRep tok nu
      let na ← pNat; let alpha ← pRep (do let a ← tok; let w ← (pNum : P α); pure (a, w)) na
      let mode ← tok
      let target : Except Err Quantities ←
        if mode == "T" then do
          let nt ← pNat; let t ← pRep (do let a ← tok; let q ← pInt; pure (a, q)) nt; pure (.ok t)
        else pure (.error .value)
      let fw := fullWeightVector held uni (fixedWeight alpha)
      match pcmCall held uni alpha (fun _ => target) with
      | .ok r => pure (jobj [("out", jstr "ok"), ("weights", wJson r.fullWeights), ("orders", qtyJson r.orders)])
      | .error e => pure (jobj [("out", jstr e.name), ("weights", wJson fw)])
  | "eqw" => do
      let scale ← (pNum : P α); let n ← pNat
      let w ← pRep (do let a ← tok; let x ← (pNum : P α); pure (a, x)) n
      pure (jobj [("out", jstr "ok"), ("weights", wJson (equalWeight scale w))])
  | "dyn" => do
      let t ← pInt; let n ← pNat
      let dates ← pRep (do let a ← tok; let d ← pOptInt; pure (a, d)) n
      pure (jobj [("out", jstr "ok"), ("assets", jlist ((dynamicAssets dates t).map jstr))])
  | _ => failure

def handle (line : String) : String :=
  match (cmd (α := α)).run (tokens line) with
  | some (out, []) => out
  | _ => jobj [("out", jstr "bad-op")]

end

partial def loop {α : Type} [Add α] [Sub α] [Mul α] [Div α] [Neg α] [Carrier α]
    (hin hout : IO.FS.Stream) : IO Unit := do
  let line ← hin.getLine
  if line.isEmpty then return ()
  hout.putStrLn (handle (α := α) line)
  loop (α := α) hin hout

def main (carrier : String) : IO Unit := do
  let hin ← IO.getStdin
  let hout ← IO.getStdout
  if carrier == "rat" then loop (α := Rat) hin hout else loop (α := Float) hin hout

end Qs.K4
