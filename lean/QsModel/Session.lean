import QsModel.Calendar
import QsModel.Market
import QsModel.Pcm
import QsModel.Signals

/-!
# M6 — `BacktestTradingSession`

Mirrors `qstrader/trading/backtest.py`, `system/qts.py`, `execution/execution_handler.py`:
construction (broker, portfolio, initial transfer), the event list of the simulation engine, and one
`step` per event: broker update → signals on close → rebalance test (`dt in schedule`, burn-in) →
alpha → PCM → submit each order followed by a broker update → equity on close.

`step` receives the market only as `px : Int → String → Option α`, applied at the event's own time —
the structural fact that causality (C07) rests on.
-/

namespace Qs
open NumOps Num

inductive RebalanceKind
  | buyAndHold
  | daily
  | weekly (weekdayName : String)
  | endOfMonth
deriving Repr

inductive UniverseSpec
  | static (assets : List String)
  | dynamic (dates : List (String × Option Int))
deriving Repr

def UniverseSpec.assets (u : UniverseSpec) (t : Int) : List String :=
  match u with
  | .static l => staticAssets l t
  | .dynamic d => dynamicAssets d t

/-- point-in-time market view: the handler's bid (= ask = mid) for an asset at a time; `none` = NaN -/
abbrev Px (α : Type) := Int → String → Option α

structure SessionCfg (α : Type) where
  start : Int
  end_ : Int
  burnIn : Option Int := none
  rebalance : RebalanceKind
  longOnly : Bool
  /-- cash buffer (long only) or gross leverage (long/short) -/
  param : α
  fee : FeeModel α
  initialCash : α
  uni : UniverseSpec
  /-- signal configurations `(kind, lookbacks)` of the session's `SignalsCollection`, if any -/
  signalSpecs : Option (List (SignalKind × List Nat)) := none
  /-- the value a missing price (NaN) takes when it is appended to a signal buffer -/
  nan : α

def PORTFOLIO_ID : String := "000001"

structure Fill (α : Type) where
  time : Int
  asset : String
  qty : Int
  price : α
  commission : α
deriving Repr

structure Session (α : Type) where
  broker : Broker α
  signals : Option (SignalsCollection α) := none
  /-- `stats['target_allocations']`: `(Date, full weight vector)` per PCM call, oldest first -/
  allocations : List (Int × List (String × α)) := []
  /-- `equity_curve`: `(close time, account equity)` -/
  equity : List (Int × α) := []
  nextId : Nat := 1

/-- an alpha model: weights from the time, the signals' state and the universe at that time -/
abbrev Alpha (α : Type) := Int → Option (SignalsCollection α) → List String → List (String × α)

section
variable {α : Type} [Add α] [Sub α] [Mul α] [Div α] [Neg α] [NumOps α]

def quotesAt (px : Px α) (t : Int) : Quotes α := fun a => (px t a).map fun b => (b, b)

/-- `_create_rebalance_event_times` -/
def scheduleOf (cfg : SessionCfg α) : Except Err (List Int) :=
  match cfg.rebalance with
  | .buyAndHold => .ok (buyAndHold cfg.start)
  | .daily => .ok (dailyRebalances cfg.start cfg.end_ false)
  | .weekly wd => weeklyRebalances cfg.start cfg.end_ wd false
  | .endOfMonth => .ok (eomRebalances cfg.start cfg.end_ false)

def burnOk (cfg : SessionCfg α) (t : Int) : Bool :=
  match cfg.burnIn with
  | none => true
  | some b => decide (b ≤ t)

/-- `BacktestTradingSession.__init__`: engine, broker with one funded portfolio, schedule, sizer validation -/
def Session.init (cfg : SessionCfg α) : Except Err (Session α × List SimEvent × List Int) := do
  let b0 ← Broker.new cfg.start cfg.initialCash cfg.fee
  let b1 ← (match b0.createPortfolio PORTFOLIO_ID with | (b, none) => .ok b | (_, some e) => .error e)
  let b2 ← (match b1.subscribePortfolio PORTFOLIO_ID cfg.initialCash with | (b, none) => .ok b | (_, some e) => .error e)
  let events ← simEvents cfg.start cfg.end_ false false
  let sched ← scheduleOf cfg
  let _ ← (if cfg.longOnly then dwCheckBuffer cfg.param else lsCheckLeverage cfg.param)
  let sigs := cfg.signalSpecs.map fun specs =>
    ({ signals := specs.map fun (k, ls) => Signal.new k ls (cfg.uni.assets cfg.start) } : SignalsCollection α)
  pure ({ broker := b2, signals := sigs }, events, sched)

/-- holdings as the PCM sees them: `get_portfolio_as_dict` quantities (integral values) -/
def heldOf (b : Broker α) : List (String × Int) :=
  match b.find? PORTFOLIO_ID with
  | none => []
  | some e => e.pf.positions.map fun p => (p.asset, floorI p.net)

def equityOf (b : Broker α) : α :=
  match b.find? PORTFOLIO_ID with
  | none => zero
  | some e => e.pf.totalEquity

/-- `ExecutionHandler.__call__`: submit each order, then `broker.update(dt)` -/
def executeOrders (px : Px α) (t : Int) : Broker α → Nat → List (String × Int) → Broker α × Nat × Option Err
  | b, n, [] => (b, n, none)
  | b, n, (a, q) :: rest =>
    match b.submitOrder PORTFOLIO_ID { id := n, asset := a, qty := q } with
    | (b1, some e) => (b1, n, some e)
    | (b1, none) =>
      match b1.update t (quotesAt px t) with
      | (b2, some e) => (b2, n + 1, some e)
      | (b2, none) => executeOrders px t b2 (n + 1) rest

/-- `QuantTradingSystem.__call__(dt, stats)` -/
def rebalanceAt (cfg : SessionCfg α) (alpha : Alpha α) (px : Px α) (t : Int) (s : Session α) : Session α × Option Err :=
  let uniAssets := cfg.uni.assets t
  let weights := alpha t s.signals uniAssets
  let held := heldOf s.broker
  let fw := fullWeightVector held uniAssets (fixedWeight weights)
  let s1 := { s with allocations := s.allocations ++ [(t, fw)] }
  let eq := equityOf s.broker
  let target :=
    if cfg.longOnly then dwSize cfg.fee eq cfg.param (px t) fw else lsSize cfg.fee eq cfg.param (px t) fw
  match target with
  | .error e => (s1, some e)
  | .ok tq =>
    let orders := rebalanceOrders tq held
    match executeOrders px t s1.broker s1.nextId orders with
    | (b, n, e) => ({ s1 with broker := b, nextId := n }, e)

/-- the loop body of `run()` for one simulation event -/
def Session.step (cfg : SessionCfg α) (alpha : Alpha α) (px : Px α) (sched : List Int) (s : Session α) (ev : SimEvent) :
    Session α × Option Err :=
  let t := ev.time
  match s.broker.update t (quotesAt px t) with
  | (b, some e) => ({ s with broker := b }, some e)
  | (b, none) =>
    let s1 := { s with broker := b }
    -- signals are updated on market close
    let sigStep : Session α × Option Err :=
      match s1.signals with
      | some c =>
        if ev.kind = .marketClose then
          match c.update (cfg.uni.assets t) (fun a => (px t a).getD cfg.nan) with
          | (c', e) => ({ s1 with signals := some c' }, e)
        else (s1, none)
      | none => (s1, none)
    match sigStep with
    | (s2, some e) => (s2, some e)
    | (s2, none) =>
      let rebStep : Session α × Option Err :=
        if burnOk cfg t && sched.contains t then rebalanceAt cfg alpha px t s2 else (s2, none)
      match rebStep with
      | (s3, some e) => (s3, some e)
      | (s3, none) =>
        if ev.kind = .marketClose && burnOk cfg t then
          ({ s3 with equity := s3.equity ++ [(t, (s3.broker.accountTotalEquity).2)] }, none)
        else (s3, none)

/-- run the events until the first error -/
def Session.runEvents (cfg : SessionCfg α) (alpha : Alpha α) (px : Px α) (sched : List Int) :
    Session α → List SimEvent → Session α × Option (Int × Err)
  | s, [] => (s, none)
  | s, ev :: rest =>
    match s.step cfg alpha px sched ev with
    | (s', some e) => (s', some (ev.time, e))
    | (s', none) => Session.runEvents cfg alpha px sched s' rest

/-- construct and run a session; a construction error is reported with no time -/
def Session.run (cfg : SessionCfg α) (alpha : Alpha α) (px : Px α) : Except Err (Session α × Option (Int × Err)) := do
  let (s0, events, sched) ← Session.init cfg
  pure (Session.runEvents cfg alpha px sched s0 events)

/-- every accepted `Transaction` of the session's portfolio, oldest first -/
def Session.fills (s : Session α) : List (Fill α) :=
  s.broker.fillLog.map fun (_, t) => { time := t.time, asset := t.asset, qty := t.qty, price := t.price, commission := t.commission }

/-! ### the two table getters -/

/-- `get_target_allocations()`: for every equity date (on or after the burn-in date) the weights of the latest
allocation record dated on or before it (`none` when there is none yet); a column an allocation record lacks is NaN -/
def targetAllocationTable (cfg : SessionCfg α) (s : Session α) : List (Int × Option (List (String × α))) :=
  let rows := s.equity.map fun (t, _) =>
    let d := dayOf t
    (d, ((s.allocations.filter fun (ta, _) => decide (dayOf ta ≤ d)).getLast?).map (·.2))
  match cfg.burnIn with
  | none => rows
  | some b => rows.filter fun (d, _) => decide (dayOf b ≤ d)

end

/-! ### concrete alpha models -/

/-- `FixedSignalsAlphaModel` -/
def fixedAlpha {α : Type} (w : List (String × α)) : Alpha α := fun _ _ _ => w

/-- `SingleSignalAlphaModel(universe, signal)` -/
def singleAlpha {α : Type} (signal : α) : Alpha α := fun _ _ uni => singleSignal uni signal

end Qs
