import QsModel.Stats
import QsModel.Proto

/-! # Driver for harness K6 (performance statistics)

`stats <periods> <n> {day equity}*` prints every statistic of the curve. -/

namespace Qs.K6
open Proto

section
variable {α : Type} [Add α] [Sub α] [Mul α] [Div α] [Neg α] [Carrier α]

def pairs? : List String → Option (List (Int × α))
  | [] => some []
  | d :: e :: rest => do let d ← int? d; let x ← (num? e : Option α); let r ← pairs? rest; pure ((d, x) :: r)
  | _ => none

def aggJson (l : List (List Int × α)) : String :=
  jlist (l.map fun (k, v) => jlist [jlist (k.map jint), jnum v])

def handle (line : String) : String :=
  let bad := jobj [("out", jstr "bad-op")]
  match tokens line with
  | "stats" :: periods :: n :: rest =>
    match (num? periods : Option α), n.toNat?, (pairs? rest : Option (List (Int × α))) with
    | some periods, some n, some curve =>
      if curve.length != n then bad else
      let eq := curve.map (·.2)
      let days := curve.map (·.1)
      let rs := returnsOf eq
      let cum := cumReturnsOf rs
      let (dd, maxdd, dur) := createDrawdowns cum
      let dated := days.zip rs
      jobj [("out", jstr "ok"),
            ("returns", jlist (rs.map jnum)), ("cum_returns", jlist (cum.map jnum)),
            ("drawdowns", jlist (dd.map jnum)), ("max_drawdown", jnum maxdd), ("max_drawdown_duration", toString dur),
            ("mean_returns", jnum (meanOf rs)), ("stdev_returns", jnum (popStd rs)),
            ("cagr", jnum (createCagr cum periods)),
            ("annualised_vol", jnum (popStd rs * TransOps.sqrt periods)),
            ("sharpe", jnum (createSharpe rs periods)), ("sortino", jnum (createSortino rs periods)),
            ("weekly", aggJson (aggregateReturns .weekly dated)),
            ("monthly", aggJson (aggregateReturns .monthly dated)),
            ("yearly", aggJson (aggregateReturns .yearly dated))]
    | _, _, _ => bad
  | _ => bad

end

partial def loop {α : Type} [Add α] [Sub α] [Mul α] [Div α] [Neg α] [Carrier α] (hin hout : IO.FS.Stream) : IO Unit := do
  let line ← hin.getLine
  if line.isEmpty then return ()
  hout.putStrLn (handle (α := α) line)
  loop (α := α) hin hout

def main (carrier : String) : IO Unit := do
  let hin ← IO.getStdin
  let hout ← IO.getStdout
  if carrier == "rat" then loop (α := Rat) hin hout else loop (α := Float) hin hout

end Qs.K6
