/-!
# Numeric carrier

The model is written once, polymorphic in the number type `α`.  Arithmetic `+ - * /` and unary
minus come from the plain notation classes; everything else the Python code does to a number is a
field of `NumOps` (so that at a Mathlib field the arithmetic instances stay canonical and
`ring`/`field_simp`/`linarith` work on unfolded model terms).

Three carriers are used:
* any linear ordered field with a floor (`QsProofs/Inst.lean`, law mixin `LawfulNumOps`) — theorems;
* `Rat`   — the driver, exact arithmetic on the exact value of every input double;
* `Float` — the driver, IEEE doubles, compared bit for bit with the implementation.

This file is Mathlib-free.
-/

/-- Operations beyond `+ - * /` that the Python code applies to numbers. -/
class NumOps (α : Type) where
  /-- Python `int → float` conversion -/
  ofInt : Int → α
  /-- Python `<` -/
  lt : α → α → Bool
  /-- Python `<=` -/
  le : α → α → Bool
  /-- Python `==` -/
  beq : α → α → Bool
  /-- `abs`, `np.abs` -/
  abs : α → α
  /-- `int(np.floor x)`, `math.floor` -/
  floorI : α → Int
  /-- `int(np.ceil x)` -/
  ceilI : α → Int
  /-- the `np.isclose` absolute tolerance: the double `1e-8` -/
  tiny : α
  /-- Python `round(x, 2)` on a `float`: the exact value rounded half-even to cents -/
  round2 : α → α

/-- Transcendental / irrational functions: uninterpreted in every theorem. -/
class TransOps (α : Type) where
  sqrt : α → α
  exp : α → α
  log : α → α
  pow : α → α → α

namespace Num
open NumOps

section
variable {α : Type} [Add α] [Sub α] [Mul α] [Div α] [Neg α] [NumOps α]

/-- `0.0` -/
@[reducible] def zero : α := ofInt 0
/-- `1.0` -/
@[reducible] def one : α := ofInt 1

/-- Python `int(x)` on a float: truncation toward zero -/
def truncI (x : α) : Int := if le zero x then floorI x else ceilI x

/-- Python `round(x)` (no digits): round half to even, returns an `int` -/
def roundHalfEvenI (x : α) : Int :=
  let f := floorI x
  let d := x - ofInt f
  let half : α := ofInt 1 / ofInt 2
  if lt d half then f
  else if lt half d then f + 1
  else if f % 2 = 0 then f else f + 1

/-- `round(x, 2)` on a `numpy.float64`: `rint(x * 100) / 100` computed in the carrier -/
def round2np (x : α) : α := ofInt (roundHalfEvenI (x * ofInt 100)) / ofInt 100

/-- `np.isclose(x, 0.0)`: `|x| ≤ 1e-8` -/
def isCloseZero (x : α) : Bool := le (abs x) tiny

/-- left fold from `0`: `sum()` over `numpy.float64` items and `+=` loops -/
def sumNaive (l : List α) : α := l.foldl (· + ·) zero

/-- CPython 3.12 `sum()` over `float` items (Neumaier compensated summation).
State: (running sum, compensation). -/
def neumaierStep (s : α × α) (x : α) : α × α :=
  let t := s.1 + x
  if le (abs x) (abs s.1) then (t, s.2 + ((s.1 - t) + x))
  else (t, s.2 + ((x - t) + s.1))

def sumNeumaier (l : List α) : α :=
  let r := l.foldl neumaierStep (zero, zero)
  r.1 + r.2

/-- Python `max(a, b)` (returns `a` unless `b > a`) -/
def pmax (a b : α) : α := if lt a b then b else a

end
end Num

/-! ## Float carrier -/

namespace FloatBits

/-- exact decomposition of a finite double: `x = m * 2^e` -/
def decode (x : Float) : Int × Int :=
  let b := x.toBits
  let sign : Int := if b >>> 63 == 1 then -1 else 1
  let ex := ((b >>> 52) &&& 0x7FF).toNat
  let fr := (b &&& 0xFFFFFFFFFFFFF).toNat
  if ex == 0 then (sign * fr, -1074) else (sign * (fr + 2^52), (ex : Int) - 1075)

/-- floor of the rational `n / d` (`d > 0`) -/
def floorDiv (n : Int) (d : Nat) : Int := n.fdiv d

def ceilDiv (n : Int) (d : Nat) : Int := - ((-n).fdiv d)

/-- round-half-even of the rational `n / d` (`d > 0`) -/
def rheRat (n : Int) (d : Nat) : Int :=
  let q := n.fdiv d
  let r := n - q * d
  if 2 * r < d then q else if 2 * r > d then q + 1 else if q % 2 == 0 then q else q + 1

def isFinite (x : Float) : Bool := !(x.isNaN || x.isInf)

def floorI (x : Float) : Int :=
  if !isFinite x then 0 else
  let (m, e) := decode x
  if e ≥ 0 then m * 2 ^ e.toNat else floorDiv m (2 ^ (-e).toNat)

def ceilI (x : Float) : Int :=
  if !isFinite x then 0 else
  let (m, e) := decode x
  if e ≥ 0 then m * 2 ^ e.toNat else ceilDiv m (2 ^ (-e).toNat)

/-- Python `round(x, 2)` for a finite `float` -/
def round2 (x : Float) : Float :=
  if !isFinite x then x else
  let (m, e) := decode x
  let q := if e ≥ 0 then m * 100 * 2 ^ e.toNat else rheRat (m * 100) (2 ^ (-e).toNat)
  let r := Float.ofInt q / 100.0
  -- Python keeps the sign of a negative input that rounds to zero
  if q == 0 && m < 0 then -r else r

end FloatBits

instance : NumOps Float where
  ofInt := Float.ofInt
  lt a b := a < b
  le a b := a ≤ b
  beq a b := a == b
  abs := Float.abs
  floorI := FloatBits.floorI
  ceilI := FloatBits.ceilI
  tiny := 1e-8
  round2 := FloatBits.round2

instance : TransOps Float where
  sqrt := Float.sqrt
  exp := Float.exp
  log := Float.log
  pow := Float.pow

/-! ## Rat carrier (core `Rat`, exact) -/

namespace RatBits

/-- exact rational value of a finite double -/
def ofFloat (x : Float) : Rat :=
  let (m, e) := FloatBits.decode x
  if e ≥ 0 then ((m * 2 ^ e.toNat : Int) : Rat) else (m : Rat) / ((2 ^ (-e).toNat : Nat) : Rat)

/-- approximate double of a rational (for the uninterpreted functions and for printing only) -/
def toFloat (q : Rat) : Float := Float.ofInt q.num / Float.ofNat q.den

def rhe (q : Rat) : Int := FloatBits.rheRat q.num q.den

end RatBits

instance : NumOps Rat where
  ofInt n := (n : Rat)
  lt a b := decide (a < b)
  le a b := decide (a ≤ b)
  beq a b := decide (a = b)
  abs a := if a < 0 then -a else a
  floorI := Rat.floor
  ceilI := Rat.ceil
  tiny := RatBits.ofFloat 1e-8
  round2 a := (RatBits.rhe (a * 100) : Rat) / 100

instance : TransOps Rat where
  sqrt a := RatBits.ofFloat (Float.sqrt (RatBits.toFloat a))
  exp a := RatBits.ofFloat (Float.exp (RatBits.toFloat a))
  log a := RatBits.ofFloat (Float.log (RatBits.toFloat a))
  pow a b := RatBits.ofFloat (Float.pow (RatBits.toFloat a) (RatBits.toFloat b))
