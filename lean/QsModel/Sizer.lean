import QsModel.Broker

/-!
# M4a — order sizers, optimisers, universes, alpha models

Mirrors `qstrader/portcon/order_sizer/dollar_weighted.py`, `long_short.py`,
`portcon/optimiser/{fixed_weight,equal_weight}.py`, `asset/universe/{static,dynamic}.py`,
`alpha_model/{fixed_signals,single_signal}.py`.
Dictionaries are association lists in insertion order.
-/

namespace Qs
open NumOps Num

abbrev Weights (α : Type) := List (String × α)
abbrev Quantities := List (String × Int)

/-- `sorted(d.items())` for a dictionary with string keys (keys are unique, so the key decides) -/
def sortByKey {β : Type} (l : List (String × β)) : List (String × β) :=
  l.mergeSort (fun a b => decide (a.1 ≤ b.1))

section
variable {α : Type} [Add α] [Sub α] [Mul α] [Div α] [Neg α] [NumOps α]

/-! ## Dollar-weighted, cash-buffered, long-only -/

/-- `_check_set_cash_buffer` -/
def dwCheckBuffer (b : α) : Except Err α :=
  if lt b zero || lt one b then .error .value else .ok b

/-- `_normalise_weights` (the weights are Python `float`s: `sum()` is Neumaier-compensated) -/
def dwNormalise (w : Weights α) : Except Err (Weights α) :=
  if w.any (fun x => lt x.2 zero) then .error .value
  else
    let s := sumNeumaier (w.map (·.2))
    if isCloseZero s then .ok w
    else .ok (w.map fun x => (x.1, x.2 / s))

/-- one asset of the long-only sizer: allocation, fee estimate on the allocation, floor -/
def dwQuantity (fee : FeeModel α) (bufferedEquity weight price : α) : Int :=
  let pre := bufferedEquity * weight
  let cost := fee.totalCost pre
  let after := pre - cost
  floorI (after / price)

/-- `DollarWeightedCashBufferedOrderSizer.__call__`; `price a = none` is a NaN price -/
def dwSize (fee : FeeModel α) (equity buffer : α) (price : String → Option α) (w : Weights α) :
    Except Err Quantities :=
  let buffered := equity * (one - buffer)
  if w.isEmpty then .ok []
  else do
    let nw ← dwNormalise w
    (sortByKey nw).mapM fun (a, weight) =>
      match price a with
      | none => .error .value
      | some p => .ok (a, dwQuantity fee buffered weight p)

/-! ## Long/short leveraged -/

/-- `_check_set_gross_leverage` -/
def lsCheckLeverage (l : α) : Except Err α :=
  if le l zero then .error .value else .ok l

/-- `_normalise_weights` (`np.abs` yields `numpy.float64`, so `sum()` is a plain left fold) -/
def lsNormalise (leverage : α) (w : Weights α) : Weights α :=
  let g := sumNaive (w.map fun x => abs x.2)
  if isCloseZero g then w
  else
    let ratio := leverage / g
    w.map fun x => (x.1, x.2 * ratio)

/-- one asset of the long/short sizer: truncate the after-cost dollars toward zero, divide, truncate -/
def lsQuantity (fee : FeeModel α) (equity weight price : α) : Int :=
  let pre := equity * weight
  let cost := fee.totalCost pre
  let after := pre - cost
  let truncated : α := ofInt (truncI after)
  truncI (truncated / price)

/-- `LongShortLeveragedOrderSizer.__call__` -/
def lsSize (fee : FeeModel α) (equity leverage : α) (price : String → Option α) (w : Weights α) :
    Except Err Quantities :=
  if w.isEmpty then .ok []
  else
    (sortByKey (lsNormalise leverage w)).mapM fun (a, weight) =>
      match price a with
      | none => .error .value
      | some p => .ok (a, lsQuantity fee equity weight p)

/-! ## Optimisers -/

/-- `FixedWeightPortfolioOptimiser.__call__` -/
def fixedWeight (w : Weights α) : Weights α := w

/-- `EqualWeightPortfolioOptimiser.__call__`: `scale * (1.0 / float(n))` for every key -/
def equalWeight (scale : α) (w : Weights α) : Weights α :=
  let ew := one / ofInt w.length
  let sw := scale * ew
  w.map fun x => (x.1, sw)

end

/-! ## Universes and alpha models -/

/-- `DynamicUniverse.get_assets(dt)`: entry date present and `dt >= date`, in dictionary order -/
def dynamicAssets (dates : List (String × Option Int)) (t : Int) : List String :=
  dates.filterMap fun (a, d) => match d with
    | some e => if e ≤ t then some a else none
    | none => none

/-- `StaticUniverse.get_assets(dt)` -/
def staticAssets (l : List String) (_t : Int) : List String := l

/-- `SingleSignalAlphaModel.__call__` -/
def singleSignal {α : Type} (assets : List String) (signal : α) : Weights α := assets.map fun a => (a, signal)

end Qs
