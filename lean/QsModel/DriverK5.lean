import QsModel.Signals
import QsModel.Proto

/-! # Driver for harness K5 (signals and the signals collection)

`sig <kind> <nl> l.. <na> a..` creates signal #i in the collection (`reset` clears);
`append <i> <asset> <price>`; `call <i> <asset> <lookback>`; `buf <i> <asset> <bumped lookback>`;
`upd <nuni> a.. <nmid> {asset price}*` runs `SignalsCollection.update`; `state` dumps everything. -/

namespace Qs.K5
open Proto

section
variable {α : Type} [Add α] [Sub α] [Mul α] [Div α] [Neg α] [Carrier α]

def kindOf : String → Option SignalKind
  | "mom" => some .momentum | "sma" => some .sma | "vol" => some .vol | _ => none

def setAt {β : Type} (l : List β) (i : Nat) (x : β) : List β := l.set i x

def sigJson (s : Signal α) : String :=
  jobj [("assets", jlist (s.assets.map jstr)),
        ("buffers", jlist (s.buffers.map fun b => jlist [jstr b.asset, toString b.lookback, jlist (b.items.map jnum)]))]

def nums? (l : List String) : Option (List α) := l.mapM (fun s => (num? s : Option α))

def pairs? : List String → Option (List (String × α))
  | [] => some []
  | a :: p :: rest => do let x ← (num? p : Option α); let r ← pairs? rest; pure ((a, x) :: r)
  | _ => none

def handle (c : SignalsCollection α) (line : String) : SignalsCollection α × String :=
  let bad := (c, jobj [("out", jstr "bad-op")])
  match tokens line with
  | ["reset"] => ({ signals := [] }, jobj [("out", jstr "ok")])
  | "sig" :: kind :: nl :: rest =>
    match kindOf kind, nl.toNat? with
    | some k, some nl =>
      let ls := (rest.take nl).filterMap String.toNat?
      match (rest.drop nl) with
      | na :: assets =>
        if ls.length == nl && na.toNat? == some assets.length then
          ({ c with signals := c.signals ++ [Signal.new k ls assets] }, jobj [("out", jstr "ok")])
        else bad
      | _ => bad
    | _, _ => bad
  | ["append", i, a, p] =>
    match i.toNat?, (num? p : Option α) with
    | some i, some p =>
      match c.signals[i]? with
      | none => bad
      | some s =>
        let (s', e) := s.append a p
        ({ c with signals := c.signals.set i s' }, jobj [("out", jstr (match e with | none => "ok" | some e => e.name))])
    | _, _ => bad
  | ["call", i, a, l] =>
    match i.toNat?, l.toNat? with
    | some i, some l =>
      match c.signals[i]? with
      | none => bad
      | some s =>
        match s.call a l with
        | .ok v => (c, jobj [("out", jstr "ok"), ("value", jnum v)])
        | .error e => (c, jobj [("out", jstr e.name)])
    | _, _ => bad
  | ["buf", i, a, l] =>
    match i.toNat?, l.toNat? with
    | some i, some l =>
      match c.signals[i]? with
      | none => bad
      | some s =>
        match s.findBuffer a l with
        | some b => (c, jobj [("out", jstr "ok"), ("items", jlist (b.items.map jnum))])
        | none => (c, jobj [("out", jstr "KeyError")])
    | _, _ => bad
  | "upd" :: nu :: rest =>
    match nu.toNat? with
    | some nu =>
      let uni := rest.take nu
      match rest.drop nu with
      | _nm :: mids =>
        match (pairs? mids : Option (List (String × α))) with
        | some ps =>
          let mid : String → α := fun a => (ps.lookup a).getD (Carrier.ofBits 0x7FF8000000000000)
          let (c', e) := c.update uni mid
          (c', jobj [("out", jstr (match e with | none => "ok" | some e => e.name)), ("warmup", toString c'.warmup),
                     ("signals", jlist (c'.signals.map sigJson))])
        | none => bad
      | _ => bad
    | none => bad
  | ["state"] => (c, jobj [("out", jstr "ok"), ("warmup", toString c.warmup), ("signals", jlist (c.signals.map sigJson))])
  | _ => bad

end

partial def loop {α : Type} [Add α] [Sub α] [Mul α] [Div α] [Neg α] [Carrier α]
    (hin hout : IO.FS.Stream) (s : SignalsCollection α) : IO Unit := do
  let line ← hin.getLine
  if line.isEmpty then return ()
  let (s', out) := handle s line
  hout.putStrLn out
  loop hin hout s'

def main (carrier : String) : IO Unit := do
  let hin ← IO.getStdin
  let hout ← IO.getStdout
  if carrier == "rat" then loop (α := Rat) hin hout { signals := [] } else loop (α := Float) hin hout { signals := [] }

end Qs.K5
