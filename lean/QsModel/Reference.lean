import QsModel.Session

/-!
# L0 — the documented trading rules as a day-indexed reference backtest (specification for C08)

No broker object, no order queue object, no event loop, no position handler, no exchange-hours test:
a recurrence over the business days of the range with state (cash, holdings, pending orders).

* at the day's open (14:30): fill the pending orders at open prices, sells first;
  if the open instant is itself scheduled (buy-and-hold started at 14:30): size from equity and open
  prices and fill at once in ascending asset order;
* at the day's close (21:00): if scheduled (and past burn-in) size from equity and closing prices,
  `pending := target − holdings` (non-zero, ascending);
* record equity `cash + Σ quantity × close` (past burn-in).

Sizing is the closed form of C10/C11 (`dwSize` / `lsSize` on the full weight vector).
-/

namespace Qs
open NumOps Num

structure RefState (α : Type) where
  cash : α
  hold : List (String × Int) := []
  pending : List (String × Int) := []
  fills : List (Fill α) := []
  equity : List (Int × α) := []
  allocDates : List Int := []

section
variable {α : Type} [Add α] [Sub α] [Mul α] [Div α] [Neg α] [NumOps α]

/-- add `q` to the holding of `a`, dropping it when it reaches zero (a new holding goes to the end) -/
def holdAdd (hold : List (String × Int)) (a : String) (q : Int) : List (String × Int) :=
  match hold.lookup a with
  | none => if q = 0 then hold else hold ++ [(a, q)]
  | some h =>
    if h + q = 0 then hold.filter fun x => !(x.1 == a)
    else hold.map fun x => if x.1 == a then (a, h + q) else x

/-- fill one order at the price of instant `t`: ask for a buy, bid for a sell (both are the bar price),
commission on the rounded consideration -/
def refFill (fee : FeeModel α) (px : Px α) (t : Int) (st : RefState α) (o : String × Int) : Option (RefState α) :=
  match px t o.1 with
  | none => none
  | some p =>
    let consideration : Int := roundHalfEvenI (p * ofInt o.2)
    let c := fee.totalCost (ofInt consideration)
    some { st with cash := st.cash - (p * ofInt o.2 + c), hold := holdAdd st.hold o.1 o.2,
                   fills := st.fills ++ [{ time := t, asset := o.1, qty := o.2, price := p, commission := c }] }

def refFillAll (fee : FeeModel α) (px : Px α) (t : Int) : RefState α → List (String × Int) → Option (RefState α)
  | st, [] => some st
  | st, o :: os => (refFill fee px t st o).bind fun st' => refFillAll fee px t st' os

/-- equity at instant `t`: cash plus holdings valued at the prices of `t` -/
def refEquity (px : Px α) (t : Int) (st : RefState α) : Option α :=
  (st.hold.mapM fun (a, q) => (px t a).map fun p => p * ofInt q).map fun mvs => sumNaive mvs + st.cash

/-- target minus holdings from equity and the prices of instant `t` -/
def refOrders (cfg : SessionCfg α) (w : List (String × α)) (px : Px α) (t : Int) (st : RefState α) :
    Option (List (String × Int)) :=
  match refEquity px t st with
  | none => none
  | some eq =>
    let fw := fullWeightVector st.hold (cfg.uni.assets t) w
    let target := if cfg.longOnly then dwSize cfg.fee eq cfg.param (px t) fw else lsSize cfg.fee eq cfg.param (px t) fw
    match target with
    | .error _ => none
    | .ok tq => some (rebalanceOrders tq st.hold)

/-- one business day `d` of the reference -/
def refDay (cfg : SessionCfg α) (w : List (String × α)) (px : Px α) (sched : List Int) (st : RefState α) (d : Int) :
    Option (RefState α) := do
  let topen := d * 86400 + OPEN
  let tclose := d * 86400 + CLOSE
  -- the open: pending orders fill, sells first
  let st1 ← refFillAll cfg.fee px topen { st with pending := [] } (sellsFirst (fun (o : String × Int) => decide (o.2 < 0)) st.pending)
  -- a rebalance scheduled at the open itself trades at once, in ascending asset order
  let st2 ← (if burnOk cfg topen && sched.contains topen then do
               let os ← refOrders cfg w px topen st1
               let st' ← refFillAll cfg.fee px topen st1 os
               pure { st' with allocDates := st'.allocDates ++ [topen] }
             else pure st1)
  -- the close: a scheduled rebalance sizes from equity and closing prices; its orders wait for the next open
  let st3 ← (if burnOk cfg tclose && sched.contains tclose then do
               let os ← refOrders cfg w px tclose st2
               pure { st2 with pending := st2.pending ++ os, allocDates := st2.allocDates ++ [tclose] }
             else pure st2)
  if burnOk cfg tclose then do
    let eq ← refEquity px tclose st3
    pure { st3 with equity := st3.equity ++ [(tclose, eq)] }
  else pure st3

def refDays (cfg : SessionCfg α) (w : List (String × α)) (px : Px α) (sched : List Int) :
    RefState α → List Int → Option (RefState α)
  | st, [] => some st
  | st, d :: ds => (refDay cfg w px sched st d).bind fun st' => refDays cfg w px sched st' ds

/-- the reference backtest of a fixed-weight strategy; `none` when a needed price is missing or sizing is refused -/
def referenceRun (cfg : SessionCfg α) (w : List (String × α)) (px : Px α) : Option (RefState α) :=
  match scheduleOf cfg with
  | .error _ => none
  | .ok sched => refDays cfg w px sched { cash := cfg.initialCash } (bdayRange cfg.start cfg.end_)

end
end Qs
