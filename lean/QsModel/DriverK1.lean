import QsModel.Calendar
import QsModel.Proto

/-! # Driver for harness K1 (simulation clock, rebalance schedules, exchange hours, calendar table) -/

namespace Qs.K1
open Proto

def boolOf (s : String) : Bool := s == "1"

def intsJson (l : List Int) : String := jlist (l.map jint)

def handle (line : String) : String :=
  let bad := jobj [("out", jstr "bad-op")]
  match tokens line with
  | ["sim", s, e, pre, post] =>
    match int? s, int? e with
    | some s, some e =>
      match simEvents s e (boolOf pre) (boolOf post) with
      | .ok evs => jobj [("out", jstr "ok"), ("events", jlist (evs.map fun ev => jlist [jint ev.time, jstr ev.kind.name]))]
      | .error err => jobj [("out", jstr err.name)]
    | _, _ => bad
  | ["weekly", s, e, wd, pre] =>
    match int? s, int? e with
    | some s, some e =>
      match weeklyRebalances s e wd (boolOf pre) with
      | .ok l => jobj [("out", jstr "ok"), ("times", intsJson l)]
      | .error err => jobj [("out", jstr err.name)]
    | _, _ => bad
  | ["daily", s, e, pre] =>
    match int? s, int? e with
    | some s, some e => jobj [("out", jstr "ok"), ("times", intsJson (dailyRebalances s e (boolOf pre)))]
    | _, _ => bad
  | ["eom", s, e, pre] =>
    match int? s, int? e with
    | some s, some e => jobj [("out", jstr "ok"), ("times", intsJson (eomRebalances s e (boolOf pre)))]
    | _, _ => bad
  | ["bh", s] =>
    match int? s with
    | some s => jobj [("out", jstr "ok"), ("times", intsJson (buyAndHold s))]
    | none => bad
  | ["isopen", t] =>
    match int? t with
    | some t => jobj [("out", jstr "ok"), ("open", jbool (isOpen t))]
    | none => bad
  | ["civil", lo, n] =>
    match int? lo, n.toNat? with
    | some lo, some n =>
      jobj [("out", jstr "ok"), ("dates", jlist ((daysFrom lo n).map fun d =>
        let (y, m, dd) := civil d
        jlist [jint y, jint m, jint dd, jint (weekday d), jbool (isBMonthEnd d)]))]
    | _, _ => bad
  | _ => bad

partial def loop (hin hout : IO.FS.Stream) : IO Unit := do
  let line ← hin.getLine
  if line.isEmpty then return ()
  hout.putStrLn (handle line)
  loop hin hout

def main : IO Unit := do loop (← IO.getStdin) (← IO.getStdout)

end Qs.K1
