import QsModel.Position

/-!
# M3b — `Portfolio`, `PortfolioEvent`

Mirrors `qstrader/broker/portfolio/portfolio.py` and `portfolio_event.py`, including the order of
validation and mutation inside each method (the clock is advanced before the amount checks).
-/

namespace Qs
open NumOps Num

inductive EventKind
  | subscription | withdrawal | assetTransaction
deriving DecidableEq, Repr, Inhabited

def EventKind.name : EventKind → String
  | .subscription => "subscription"
  | .withdrawal => "withdrawal"
  | .assetTransaction => "asset_transaction"

/-- `PortfolioEvent`. `debit`/`credit`/`balance` are what the code stores (rounded to cents);
`rawAmount`/`rawBalance` are ghost fields holding the unrounded values they were computed from
(used by the driver to print the `numpy` rounding variant, and by the theorems). For an asset
transaction `long`, `qty`, `asset` are the parsed pieces of the description string. -/
structure Event (α : Type) where
  time : Int
  kind : EventKind
  long : Bool := true
  qty : Int := 0
  asset : String := ""
  debit : α
  credit : α
  balance : α
  rawAmount : α
  rawBalance : α
deriving Repr

structure Portfolio (α : Type) where
  id : String
  clock : Int
  cash : α
  positions : Positions α := []
  history : List (Event α) := []
deriving Repr

section
variable {α : Type} [Add α] [Sub α] [Mul α] [Div α] [Neg α] [NumOps α]

namespace Portfolio

/-- `Portfolio(start_dt, starting_cash=0.0, …)` as the broker creates it -/
def new (id : String) (t : Int) : Portfolio α :=
  { id := id, clock := t, cash := zero }

def totalMarketValue (p : Portfolio α) : α := p.positions.totalMarketValue
def totalEquity (p : Portfolio α) : α := p.totalMarketValue + p.cash
def totalUnrealised (p : Portfolio α) : α := p.positions.totalUnrealised
def totalRealised (p : Portfolio α) : α := p.positions.totalRealised
def totalPnl (p : Portfolio α) : α := p.positions.totalPnl

/-- `subscribe_funds(dt, amount)` -/
def subscribe (p : Portfolio α) (t : Int) (amount : α) : Portfolio α × Option Err :=
  if t < p.clock then (p, some .value)
  else
    let p1 := { p with clock := t }
    if lt amount zero then (p1, some .value)
    else
      let cash := p1.cash + amount
      let ev : Event α :=
        { time := t, kind := .subscription, debit := zero, credit := round2 amount,
          balance := round2 cash, rawAmount := amount, rawBalance := cash }
      ({ p1 with cash := cash, history := p1.history ++ [ev] }, none)

/-- `withdraw_funds(dt, amount)` -/
def withdraw (p : Portfolio α) (t : Int) (amount : α) : Portfolio α × Option Err :=
  if t < p.clock then (p, some .value)
  else
    let p1 := { p with clock := t }
    if lt amount zero then (p1, some .value)
    else if lt p1.cash amount then (p1, some .value)
    else
      let cash := p1.cash - amount
      let ev : Event α :=
        { time := t, kind := .withdrawal, debit := round2 amount, credit := zero,
          balance := round2 cash, rawAmount := amount, rawBalance := cash }
      ({ p1 with cash := cash, history := p1.history ++ [ev] }, none)

/-- `transact_asset(txn)` -/
def transactAsset (p : Portfolio α) (t : Txn α) : Portfolio α × Option Err :=
  if t.time < p.clock then (p, some .value)
  else
    let p1 := { p with clock := t.time }
    let shareCost := t.price * ofInt t.qty
    let totalCost := shareCost + t.commission
    match p1.positions.transactPosition t with
    | (ps, some e) => ({ p1 with positions := ps }, some e)
    | (ps, none) =>
      let cash := p1.cash - totalCost
      let isLong := decide (0 < dirOf t.qty)
      let ev : Event α :=
        if isLong then
          { time := t.time, kind := .assetTransaction, long := true, qty := t.qty, asset := t.asset,
            debit := round2 totalCost, credit := zero, balance := round2 cash,
            rawAmount := totalCost, rawBalance := cash }
        else
          { time := t.time, kind := .assetTransaction, long := false, qty := t.qty, asset := t.asset,
            debit := zero, credit := ofInt (-1) * round2 totalCost, balance := round2 cash,
            rawAmount := totalCost, rawBalance := cash }
      ({ p1 with positions := ps, cash := cash, history := p1.history ++ [ev] }, none)

/-- `update_market_value_of_asset(asset, current_price, current_dt)` -/
def mark (p : Portfolio α) (asset : String) (price : α) (t : Int) : Portfolio α × Option Err :=
  match p.positions.find? asset with
  | none => (p, none)
  | some pos =>
    if lt price zero then (p, some .value)
    else if t < p.clock then (p, some .value)
    else
      match pos.updatePrice price t with
      | (pos', e) => ({ p with positions := p.positions.set pos' }, e)

end Portfolio
end
end Qs
