import QsModel.Num

/-!
# M3a — `Position`, `Transaction`, `PositionHandler`

Mirrors `qstrader/broker/portfolio/position.py`, `position_handler.py`,
`qstrader/broker/transaction/transaction.py` line by line (same order of arithmetic).
Times are `Int` seconds since the epoch (UTC).
-/

namespace Qs
open NumOps Num

/-- Python exception classes the modelled code raises. -/
inductive Err
  | value      -- ValueError
  | key        -- KeyError
  | attr       -- AttributeError
  | type       -- TypeError
deriving DecidableEq, Repr, Inhabited

def Err.name : Err → String
  | .value => "ValueError"
  | .key => "KeyError"
  | .attr => "AttributeError"
  | .type => "TypeError"

/-- `Transaction(asset, quantity, dt, price, order_id, commission)`; quantity is a Python `int`. -/
structure Txn (α : Type) where
  asset : String
  qty : Int
  time : Int
  price : α
  commission : α
  orderId : Nat := 0
deriving Repr

/-- `np.copysign(1, q)` for an integer `q`: `+1` for `q ≥ 0`, `-1` otherwise -/
def dirOf (q : Int) : Int := if q < 0 then -1 else 1

structure Position (α : Type) where
  asset : String
  price : α          -- current_price
  clock : Int        -- current_dt
  buyQ : α
  sellQ : α
  avgB : α
  avgS : α
  comB : α
  comS : α
deriving Repr

section
variable {α : Type} [Add α] [Sub α] [Mul α] [Div α] [Neg α] [NumOps α]

namespace Position

/-- `Position.open_from_transaction` -/
def openFrom (t : Txn α) : Position α :=
  if 0 < t.qty then
    { asset := t.asset, price := t.price, clock := t.time,
      buyQ := ofInt t.qty, sellQ := zero, avgB := t.price, avgS := zero,
      comB := t.commission, comS := zero }
  else
    { asset := t.asset, price := t.price, clock := t.time,
      buyQ := zero, sellQ := ofInt (-t.qty), avgB := zero, avgS := t.price,
      comB := zero, comS := t.commission }

def net (p : Position α) : α := p.buyQ - p.sellQ

def marketValue (p : Position α) : α := p.price * p.net

def avgPrice (p : Position α) : α :=
  if beq p.net zero then zero
  else if lt zero p.net then (p.avgB * p.buyQ + p.comB) / p.buyQ
  else (p.avgS * p.sellQ - p.comS) / p.sellQ

def totalBought (p : Position α) : α := p.avgB * p.buyQ
def totalSold (p : Position α) : α := p.avgS * p.sellQ
def netTotal (p : Position α) : α := p.totalSold - p.totalBought
def commission (p : Position α) : α := p.comB + p.comS
def netInclCommission (p : Position α) : α := p.netTotal - p.commission

/-- `realised_pnl` (direction is `copysign(1, net)` unless `net == 0`) -/
def realised (p : Position α) : α :=
  if beq p.net zero then p.netInclCommission
  else if lt zero p.net then
    if beq p.sellQ zero then zero
    else ((p.avgS - p.avgB) * p.sellQ) - ((p.sellQ / p.buyQ) * p.comB) - p.comS
  else
    if beq p.buyQ zero then zero
    else ((p.avgS - p.avgB) * p.buyQ) - ((p.buyQ / p.sellQ) * p.comS) - p.comB

def unrealised (p : Position α) : α := (p.price - p.avgPrice) * p.net
def totalPnl (p : Position α) : α := p.realised + p.unrealised

/-- `update_current_price(market_price, dt)`: the clock is advanced before the price check. -/
def updatePrice (p : Position α) (price : α) (t : Int) : Position α × Option Err :=
  if t < p.clock then (p, some .value)
  else
    let p1 := { p with clock := t }
    if le price zero then (p1, some .value)
    else ({ p1 with price := price }, none)

def transactBuy (p : Position α) (q price c : α) : Position α :=
  { p with avgB := ((p.avgB * p.buyQ) + (q * price)) / (p.buyQ + q),
           buyQ := p.buyQ + q, comB := p.comB + c }

def transactSell (p : Position α) (q price c : α) : Position α :=
  { p with avgS := ((p.avgS * p.sellQ) + (q * price)) / (p.sellQ + q),
           sellQ := p.sellQ + q, comS := p.comS + c }

/-- `Position.transact` (the asset check is the caller's: the handler looks the position up by asset).
The trade's price and timestamp are validated (`update_current_price`) before the running quantities and
averages are touched, so a refused transaction leaves them as they were (fix F4). -/
def transact (p : Position α) (t : Txn α) : Position α × Option Err :=
  if t.qty = 0 then (p, none)
  else
    match p.updatePrice t.price t.time with
    | (p1, some e) => (p1, some e)
    | (p1, none) =>
      let p2 := if 0 < t.qty then p1.transactBuy (ofInt t.qty) t.price t.commission
                else p1.transactSell (ofInt (-t.qty)) t.price t.commission
      ({ p2 with clock := t.time }, none)

end Position

/-- `PositionHandler.positions`: an insertion-ordered dictionary keyed by asset. -/
abbrev Positions (α : Type) := List (Position α)

namespace Positions

def find? (ps : Positions α) (a : String) : Option (Position α) := List.find? (fun p => p.asset == a) ps

def contains (ps : Positions α) (a : String) : Bool := List.any ps (fun p => p.asset == a)

/-- replace the value stored under an existing key (dictionary order is kept) -/
def set (ps : Positions α) (p : Position α) : Positions α :=
  List.map (fun q => if q.asset == p.asset then p else q) ps

def erase (ps : Positions α) (a : String) : Positions α := List.filter (fun p => !(p.asset == a)) ps

/-- `PositionHandler.transact_position` -/
def transactPosition (ps : Positions α) (t : Txn α) : Positions α × Option Err :=
  match find? ps t.asset with
  | some p =>
    match p.transact t with
    | (p', some e) => (set ps p', some e)
    | (p', none) =>
      if beq p'.net zero then (erase ps t.asset, none) else (set ps p', none)
  | none =>
    let p := Position.openFrom t
    if beq p.net zero then (ps, none) else (ps ++ [p], none)

/-- `sum(pos.market_value for …)` — the items are `numpy.float64`, so a plain left fold -/
def totalMarketValue (ps : Positions α) : α := sumNaive (List.map Position.marketValue ps)
def totalUnrealised (ps : Positions α) : α := sumNaive (List.map Position.unrealised ps)
def totalRealised (ps : Positions α) : α := sumNaive (List.map Position.realised ps)
def totalPnl (ps : Positions α) : α := sumNaive (List.map Position.totalPnl ps)

end Positions
end
end Qs
