import QsModel.Sizer

/-!
# M5 — signals

Mirrors `qstrader/signals/{buffer,signal,momentum,sma,vol,signals_collection}.py`.
Buffers are keyed by `(asset, lookback)` (the code's string key `'%s_%s'` is injective because a
lookback renders as digits only).  Lookback lists are assumed duplicate-free.
-/

namespace Qs
open NumOps Num

/-- `collections.deque(maxlen = k).append(x)` -/
def dequePush {β : Type} (k : Nat) (buf : List β) (x : β) : List β :=
  let b := buf ++ [x]
  b.drop (b.length - k)

/-- the last `k` items of a list -/
def lastN {β : Type} (k : Nat) (l : List β) : List β := l.drop (l.length - k)

structure Buffer (α : Type) where
  asset : String
  lookback : Nat
  items : List α
deriving Repr

inductive SignalKind
  | momentum | sma | vol
deriving DecidableEq, Repr, Inhabited

/-- a `Signal` object: its (already bumped) buffer lookbacks, tracked assets, and `AssetPriceBuffers.prices` -/
structure Signal (α : Type) where
  kind : SignalKind
  lookbacks : List Nat        -- as stored in the buffers: `lookback + 1` for momentum and volatility
  assets : List String
  buffers : List (Buffer α)
deriving Repr

section
variable {α : Type} [Add α] [Sub α] [Mul α] [Div α] [Neg α] [NumOps α]

namespace Signal

def bump (kind : SignalKind) (l : Nat) : Nat :=
  match kind with
  | .sma => l
  | _ => l + 1

/-- `Signal.__init__`: buffers for the universe's assets at the start date -/
def new (kind : SignalKind) (lookbacks : List Nat) (assets : List String) : Signal α :=
  let lbs := lookbacks.map (bump kind)
  { kind := kind, lookbacks := lbs, assets := assets,
    buffers := assets.flatMap fun a => lbs.map fun l => { asset := a, lookback := l, items := [] } }

def findBuffer (s : Signal α) (a : String) (l : Nat) : Option (Buffer α) :=
  List.find? (fun b => b.asset == a && b.lookback == l) s.buffers

/-- `AssetPriceBuffers.append(asset, price)` -/
def append (s : Signal α) (a : String) (price : α) : Signal α × Option Err :=
  if le price zero then (s, some .value)
  else
    match s.lookbacks with
    | [] => (s, some .value)      -- `self.lookbacks[0]` raises (IndexError; never configured)
    | l0 :: _ =>
      let bufs := if (s.findBuffer a l0).isSome then s.buffers
                  else s.buffers ++ s.lookbacks.map fun l => { asset := a, lookback := l, items := [] }
      ({ s with buffers := bufs.map fun b =>
            if b.asset == a && s.lookbacks.contains b.lookback then { b with items := dequePush b.lookback b.items price } else b },
       none)

/-- `Signal.update_assets(dt)`: universe members not yet tracked are appended (the code enumerates a set
difference; any order gives the same buffers) -/
def updateAssets (s : Signal α) (uni : List String) : Signal α :=
  { s with assets := s.assets ++ (uni.filter fun a => !s.assets.contains a).eraseDups }

end Signal

/-- `series.pct_change().dropna()` of a price window -/
def pctChanges : List α → List α
  | a :: b :: rest => (b / a - one) :: pctChanges (b :: rest)
  | _ => []

/-- `np.cumprod(1.0 + returns)[-1] - 1.0` -/
def cumReturn (rs : List α) : α := rs.foldl (fun acc r => acc * (one + r)) one - one

/-- `MomentumSignal._cumulative_return` on the window held for `(asset, lookback + 1)` -/
def momentumOf (window : List α) : α :=
  let rs := pctChanges window
  if rs.isEmpty then zero else cumReturn rs

/-- `np.mean(window)` -/
def meanOf (l : List α) : α := sumNaive l / ofInt l.length

/-- population variance, as `np.std` computes it: mean of squared deviations from the mean -/
def popVar (l : List α) : α :=
  let m := meanOf l
  meanOf (l.map fun x => (x - m) * (x - m))

def smaOf (window : List α) : α := meanOf window

/-- `np.std(returns) * np.sqrt(252)` -/
def volOf [TransOps α] (window : List α) : α :=
  let rs := pctChanges window
  if rs.isEmpty then zero else TransOps.sqrt (popVar rs) * TransOps.sqrt (ofInt 252)

/-- `signal(asset, lookback)`: `KeyError` when the buffer does not exist -/
def Signal.call [TransOps α] (s : Signal α) (a : String) (lookback : Nat) : Except Err α :=
  match s.findBuffer a (Signal.bump s.kind lookback) with
  | none => .error .key
  | some b =>
    match s.kind with
    | .momentum => .ok (momentumOf b.items)
    | .sma => .ok (smaOf b.items)
    | .vol => .ok (volOf b.items)

/-- `SignalsCollection`: named signals and the warm-up counter -/
structure SignalsCollection (α : Type) where
  signals : List (Signal α)
  warmup : Nat := 0

/-- append the latest mid price of every tracked asset to one signal, stopping at the first `ValueError` -/
def Signal.feed (mid : String → α) (s : Signal α) : List String → Signal α × Option Err
  | [] => (s, none)
  | a :: as =>
    match s.append a (mid a) with
    | (s', some e) => (s', some e)
    | (s', none) => Signal.feed mid s' as

/-- feed every signal in turn; the signals after a failing one are left untouched -/
def feedAll (mid : String → α) : List (Signal α) → List (Signal α) × Option Err
  | [] => ([], none)
  | s :: rest =>
    match Signal.feed mid s s.assets with
    | (s', some e) => (s' :: rest, some e)
    | (s', none) =>
      match feedAll mid rest with
      | (rest', e) => (s' :: rest', e)

/-- `SignalsCollection.update(dt)`: add new universe members to every signal, then append the latest mid price of
every tracked asset to every signal; `warmup` counts the completed updates. -/
def SignalsCollection.update (c : SignalsCollection α) (uni : List String) (mid : String → α) :
    SignalsCollection α × Option Err :=
  match feedAll mid (c.signals.map fun s => s.updateAssets uni) with
  | (sigs, some e) => ({ c with signals := sigs }, some e)
  | (sigs, none) => ({ signals := sigs, warmup := c.warmup + 1 }, none)

end
end Qs
