import QsModel.Num

/-!
# Line protocol helpers for the driver

Numbers cross the protocol as the decimal rendering of the 64-bit pattern of an IEEE double
(never as decimal text of the value).  At the `Float` carrier they are used as they are; at the
`Rat` carrier the exact rational value of the double is used, and results are printed as `n/d`.
-/

class Carrier (α : Type) extends NumOps α, TransOps α where
  ofBits : UInt64 → α
  render : α → String
  /-- closest double (used only to hand values to uninterpreted functions / for information) -/
  approx : α → Float

instance : Carrier Float where
  ofBits := Float.ofBits
  render x := toString x.toBits
  approx x := x

instance : Carrier Rat where
  ofBits b := RatBits.ofFloat (Float.ofBits b)
  render q := s!"\"{q.num}/{q.den}\""
  approx := RatBits.toFloat

namespace Proto

def tokens (line : String) : List String :=
  (line.trimAscii.toString.splitOn " ").filter (· ≠ "")

def num? {α : Type} [Carrier α] (s : String) : Option α :=
  s.toNat?.map fun n => Carrier.ofBits n.toUInt64

def int? (s : String) : Option Int := s.toInt?

def hexVal? (c : Char) : Option Nat :=
  if '0' ≤ c ∧ c ≤ '9' then some (c.toNat - '0'.toNat)
  else if 'a' ≤ c ∧ c ≤ 'f' then some (c.toNat - 'a'.toNat + 10)
  else none

def unhexBytes? : List Char → Option (List UInt8)
  | [] => some []
  | [_] => none
  | a :: b :: rest => do
    let x ← hexVal? a; let y ← hexVal? b; let r ← unhexBytes? rest
    pure ((x * 16 + y).toUInt8 :: r)

/-- arbitrary strings (spaces, commas, empty) cross the protocol as `x` followed by the hex of their UTF-8 bytes -/
def unhex? (s : String) : Option String :=
  match s.toList with
  | 'x' :: cs => do
    let bs ← unhexBytes? cs
    String.fromUTF8? (ByteArray.mk bs.toArray)
  | _ => none

/-- JSON string literal (ids and asset names are ASCII without quotes or backslashes) -/
def jstr (s : String) : String := "\"" ++ s ++ "\""

def jlist (xs : List String) : String := "[" ++ ", ".intercalate xs ++ "]"

def jobj (kvs : List (String × String)) : String :=
  "{" ++ ", ".intercalate (kvs.map fun (k, v) => jstr k ++ ": " ++ v) ++ "}"

def jnum {α : Type} [Carrier α] (x : α) : String := Carrier.render x
def jint (n : Int) : String := toString n
def jbool (b : Bool) : String := if b then "true" else "false"

end Proto
