import QsModel.Broker
import QsModel.Proto

/-!
# Driver for harness K3 (broker / portfolio / position op sequences)

One input line = one operation, one output line = JSON with the outcome and a snapshot.
-/

namespace Qs.K3
open Proto NumOps Num

section
variable {α : Type} [Add α] [Sub α] [Mul α] [Div α] [Neg α] [Carrier α]

def posJson (p : Position α) : String :=
  jobj [("asset", jstr p.asset), ("price", jnum p.price), ("clock", jint p.clock),
        ("buyQ", jnum p.buyQ), ("sellQ", jnum p.sellQ), ("avgB", jnum p.avgB), ("avgS", jnum p.avgS),
        ("comB", jnum p.comB), ("comS", jnum p.comS),
        ("net", jnum p.net), ("mv", jnum p.marketValue), ("avgPrice", jnum p.avgPrice),
        ("realised", jnum p.realised), ("unrealised", jnum p.unrealised), ("total", jnum p.totalPnl)]

/-- the `numpy.float64` rounding variant of the three cents fields, recomputed from the ghost raw values -/
def eventJson (e : Event α) : String :=
  let (dnp, cnp) : α × α :=
    match e.kind with
    | .subscription => (zero, round2np e.rawAmount)
    | .withdrawal => (round2np e.rawAmount, zero)
    | .assetTransaction => if e.long then (round2np e.rawAmount, zero) else (zero, ofInt (-1) * round2np e.rawAmount)
  jobj [("time", jint e.time), ("kind", jstr e.kind.name), ("long", jbool e.long), ("qty", jint e.qty),
        ("asset", jstr e.asset), ("debit", jnum e.debit), ("credit", jnum e.credit), ("balance", jnum e.balance),
        ("debit_np", jnum dnp), ("credit_np", jnum cnp), ("balance_np", jnum (round2np e.rawBalance)),
        ("rawAmount", jnum e.rawAmount), ("rawBalance", jnum e.rawBalance)]

def orderJson (o : Order) : String := jlist [jint o.id, jstr o.asset, jint o.qty]

def txnJson (pid : String) (t : Txn α) : String :=
  jobj [("pid", jstr pid), ("asset", jstr t.asset), ("qty", jint t.qty), ("time", jint t.time),
        ("price", jnum t.price), ("commission", jnum t.commission), ("id", jint t.orderId)]

def pfJson (e : PfEntry α) (histFrom : Nat) : String :=
  let p := e.pf
  jobj [("id", jstr p.id), ("clock", jint p.clock), ("cash", jnum p.cash),
        ("positions", jlist (p.positions.map posJson)),
        ("hist_len", toString p.history.length),
        ("hist_new", jlist ((p.history.drop histFrom).map eventJson)),
        ("queue", jlist (e.queue.map orderJson)),
        ("tmv", jnum p.totalMarketValue), ("equity", jnum p.totalEquity),
        ("unrealised", jnum p.totalUnrealised), ("realised", jnum p.totalRealised), ("pnl", jnum p.totalPnl)]

def snapJson (b : Broker α) (prev : List (String × Nat)) : String :=
  let (per, tot) := b.accountTotalEquity
  let (perMv, totMv) := b.accountTotalMarketValue
  jobj [("clock", jint b.clock), ("master", jnum b.master),
        ("pfs", jlist (b.entries.map fun e => pfJson e ((prev.lookup e.pf.id).getD 0))),
        ("acct_eq", jobj (per.map (fun (k, v) => (k, jnum v)) ++ [("master", jnum tot)])),
        ("acct_mv", jobj (perMv.map (fun (k, v) => (k, jnum v)) ++ [("master", jnum totMv)]))]

def histLens (b : Broker α) : List (String × Nat) := b.entries.map fun e => (e.pf.id, e.pf.history.length)

def parseQuotes : List String → Option (List (String × Option (α × α)))
  | [] => some []
  | a :: "-" :: "-" :: rest => (parseQuotes rest).map fun l => (a, none) :: l
  | a :: b :: k :: rest => do
      let bid ← num? b
      let ask ← num? k
      let l ← parseQuotes rest
      pure ((a, some (bid, ask)) :: l)
  | _ => none

def quotesOf (l : List (String × Option (α × α))) : Quotes α := fun a => (l.lookup a).join

def outName : Option Err → String
  | none => "ok"
  | some e => e.name

def exceptJson (r : Except Err α) : String :=
  match r with
  | .ok v => jobj [("out", jstr "ok"), ("value", jnum v)]
  | .error e => jobj [("out", jstr e.name)]

/-! ### `load`: set the model state to an observed implementation state -/

abbrev P := StateT (List String) Option

def tok : P String := do
  match (← get) with
  | [] => failure
  | t :: ts => set ts; pure t

def pInt : P Int := do let t ← tok; match int? t with | some n => pure n | none => failure
def pNat : P Nat := do let t ← tok; match t.toNat? with | some n => pure n | none => failure
def pNum : P α := do let t ← tok; match (num? t : Option α) with | some x => pure x | none => failure

def pRep {β : Type} (p : P β) : Nat → P (List β)
  | 0 => pure []
  | n + 1 => do let x ← p; let xs ← pRep p n; pure (x :: xs)

def pPos : P (Position α) := do
  let asset ← tok; let price ← pNum; let clock ← pInt
  let buyQ ← pNum; let sellQ ← pNum; let avgB ← pNum; let avgS ← pNum; let comB ← pNum; let comS ← pNum
  pure { asset, price, clock, buyQ, sellQ, avgB, avgS, comB, comS }

def pOrder : P Order := do
  let id ← pNat; let asset ← tok; let qty ← pInt
  pure { id, asset, qty }

def pEntry : P (PfEntry α) := do
  let id ← tok; let clock ← pInt; let cash ← (pNum : P α)
  let npos ← pNat; let positions ← pRep (pPos (α := α)) npos
  let nq ← pNat; let queue ← pRep pOrder nq
  pure { pf := { id, clock, cash, positions, history := [] }, queue }

def pLoad (fee : FeeModel α) : P (Broker α) := do
  let clock ← pInt; let master ← (pNum : P α)
  let n ← pNat; let entries ← pRep (pEntry (α := α)) n
  pure { clock, master, fee, entries }

structure St (α : Type) where
  b : Option (Broker α) := none
  prev : List (String × Nat) := []
  /-- a standalone `Position` object (driven directly, without a handler) -/
  pos : Option (Position α) := none
  /-- `settings.SUPPORTED['CURRENCIES']` as read from the code, and the broker's base currency -/
  supported : List String := []
  base : String := ""

/-- the fills an `update` will attempt, in execution order (informational; the state is authoritative) -/
def plannedFills (b : Broker α) (t : Int) (q : Quotes α) : List String :=
  if isOpen t then
    let b0 := { b with clock := t }
    (sellsFirst (fun (x : String × Order) => x.2.isSell) b0.drained).map fun (pid, o) =>
      match b0.makeTxn q o with
      | .ok tx => txnJson pid tx
      | .error e => jobj [("pid", jstr pid), ("asset", jstr o.asset), ("qty", jint o.qty), ("error", jstr e.name)]
  else []

def reply (s : St α) (b' : Broker α) (out : Option Err) (extra : List (String × String) := []) : St α × String :=
  ({ s with b := some b', prev := histLens b' },
   jobj ([("out", jstr (outName out))] ++ extra ++ [("snap", snapJson b' s.prev)]))

def handle (s : St α) (line : String) : St α × String :=
  let bad := (s, jobj [("out", jstr "bad-op")])
  match tokens line with
  | ["popen", asset, qty, t, price, comm] =>
    match int? qty, int? t, (num? price : Option α), (num? comm : Option α) with
    | some qty, some t, some price, some comm =>
      let p := Position.openFrom { asset := asset, qty := qty, time := t, price := price, commission := comm }
      ({ s with pos := some p }, jobj [("out", jstr "ok"), ("pos", posJson p)])
    | _, _, _, _ => bad
  | ["ptxn", asset, qty, t, price, comm] =>
    match s.pos, int? qty, int? t, (num? price : Option α), (num? comm : Option α) with
    | some p, some qty, some t, some price, some comm =>
      let (p', e) := p.transact { asset := asset, qty := qty, time := t, price := price, commission := comm }
      ({ s with pos := some p' }, jobj [("out", jstr (outName e)), ("pos", posJson p')])
    | _, _, _, _, _ => bad
  | ["pmark", price, t] =>
    match s.pos, (num? price : Option α), int? t with
    | some p, some price, some t =>
      let (p', e) := p.updatePrice price t
      ({ s with pos := some p' }, jobj [("out", jstr (outName e)), ("pos", posJson p')])
    | _, _, _ => bad
  | "new" :: t :: funds :: feeToks =>
    match int? t, (num? funds : Option α) with
    | some t, some funds =>
      let fee? : Option (FeeModel α) :=
        match feeToks with
        | ["Z"] => some .zero
        | ["P", c, tau] => do let c ← num? c; let tau ← num? tau; pure (.percent c tau)
        | _ => none
      match fee? with
      | none => bad
      | some fee =>
        match Broker.new t funds fee with
        | .ok b => reply { b := none, prev := [] } b none
        | .error e => ({ b := none, prev := [] }, jobj [("out", jstr e.name)])
    | _, _ => bad
  | "newc" :: nsup :: rest =>
    -- newc <n> <hex currency>*n <hex base currency> <t> <funds> <fee…>
    match nsup.toNat? with
    | none => bad
    | some n =>
      match (rest.take n).mapM unhex?, rest.drop n with
      | some supported, cur :: t :: funds :: feeToks =>
        match unhex? cur, int? t, (num? funds : Option α) with
        | some cur, some t, some funds =>
          let fee? : Option (FeeModel α) :=
            match feeToks with
            | ["Z"] => some .zero
            | ["P", c, tau] => do let c ← num? c; let tau ← num? tau; pure (.percent c tau)
            | _ => none
          match fee? with
          | none => bad
          | some fee =>
            match Broker.create supported cur t funds fee with
            | .ok b => reply { b := none, prev := [], supported := supported, base := cur } b none
            | .error e => ({ b := none, prev := [] }, jobj [("out", jstr e.name)])
        | _, _, _ => bad
      | _, _ => bad
  | toks =>
    match s.b with
    | none => bad
    | some b =>
      let doOp (op : Op α) : St α × String :=
        let (b', out) := step b op
        reply s b' out
      match toks with
      | "load" :: rest =>
        match (pLoad b.fee).run rest with
        | some (b', []) => ({ s with b := some b', prev := histLens b' }, jobj [("out", jstr "ok")])
        | _ => bad
      | ["pfsub", pid, t, a] =>
        match int? t, (num? a : Option α) with | some t, some a => doOp (.pfSubscribe pid t a) | _, _ => bad
      | ["pfwd", pid, t, a] =>
        match int? t, (num? a : Option α) with | some t, some a => doOp (.pfWithdraw pid t a) | _, _ => bad
      | ["subA", a] => match (num? a : Option α) with | some a => doOp (.subAcct a) | none => bad
      | ["wdA", a] => match (num? a : Option α) with | some a => doOp (.wdAcct a) | none => bad
      | ["create", pid] => doOp (.create pid)
      | ["subP", pid, a] => match (num? a : Option α) with | some a => doOp (.subPf pid a) | none => bad
      | ["wdP", pid, a] => match (num? a : Option α) with | some a => doOp (.wdPf pid a) | none => bad
      | ["submit", pid, id, asset, qty] =>
        match id.toNat?, int? qty with
        | some id, some qty => doOp (.submit pid { id := id, asset := asset, qty := qty })
        | _, _ => bad
      | "update" :: t :: rest =>
        match int? t, (parseQuotes rest : Option (List (String × Option (α × α)))) with
        | some t, some ql =>
          let q := quotesOf ql
          let planned := plannedFills b t q
          let (b', out) := step b (.update t q)
          let newFills := (b'.fillLog.drop b.fillLog.length).map fun (pid, tx) => txnJson pid tx
          let marks := (Broker.markTargets { b with clock := t } q).map fun (m : String × String × α) =>
            jobj [("pid", jstr m.1), ("asset", jstr m.2.1), ("price", jnum m.2.2), ("time", jint t)]
          reply s b' out [("planned", jlist planned), ("fills", jlist newFills), ("marks", jlist marks)]
        | _, _ => bad
      | ["clock", t] => match int? t with | some t => doOp (.setClock t) | none => bad
      | ["txn", pid, asset, qty, t, price, comm] =>
        match int? qty, int? t, (num? price : Option α), (num? comm : Option α) with
        | some qty, some t, some price, some comm =>
          doOp (.applyTxn pid { asset := asset, qty := qty, time := t, price := price, commission := comm })
        | _, _, _, _ => bad
      | ["mark", pid, asset, price, t] =>
        match (num? price : Option α), int? t with
        | some price, some t => doOp (.applyMark pid asset price t)
        | _, _ => bad
      | ["q", "pfcash", pid] => (s, exceptJson (b.portfolioCash pid))
      | ["q", "pfmv", pid] => (s, exceptJson (b.portfolioMarketValue pid))
      | ["q", "pfeq", pid] => (s, exceptJson (b.portfolioEquity pid))
      | ["q", "cash", cur] =>
        match unhex? cur with
        | some cur => (s, exceptJson (b.accountCash s.supported s.base cur))
        | none => bad
      | _ => bad

end

partial def loop {α : Type} [Add α] [Sub α] [Mul α] [Div α] [Neg α] [Carrier α]
    (hin : IO.FS.Stream) (hout : IO.FS.Stream) (s : St α) : IO Unit := do
  let line ← hin.getLine
  if line.isEmpty then return ()
  let (s', out) := handle s line
  hout.putStrLn out
  loop hin hout s'

def main (carrier : String) : IO Unit := do
  let hin ← IO.getStdin
  let hout ← IO.getStdout
  if carrier == "rat" then loop (α := Rat) hin hout {}
  else loop (α := Float) hin hout {}

end Qs.K3
