import QsModel.Calendar
import QsModel.Signals

/-!
# M7 — performance statistics

Mirrors `qstrader/statistics/performance.py` and the return preparation of `json_statistics.py:119-131`
/ `tearsheet.py:31-56`.  `np.exp(np.log(1 + r).cumsum())` is modelled as the running product of
`1 + r` (equal for positive factors; `exp`/`log` are NumPy's).  `create_drawdowns` is modelled as
repaired by fix F3 (the running maximum includes the first observation).
-/

namespace Qs
open NumOps Num

section
variable {α : Type} [Add α] [Sub α] [Mul α] [Div α] [Neg α] [NumOps α]

/-- `equity.pct_change().fillna(0.0)` -/
def returnsOf : List α → List α
  | [] => []
  | e :: es => zero :: pctChanges (e :: es)

/-- running product of `1 + r`: `np.exp(np.log(1 + r).cumsum())` -/
def cumProd (acc : α) : List α → List α
  | [] => []
  | r :: rs => let a := acc * (one + r); a :: cumProd a rs

def cumReturnsOf (rs : List α) : List α := cumProd one rs

/-- `np.exp(np.log(1 + x).cumsum()).iloc[-1] - 1` for one group -/
def compound (rs : List α) : α := rs.foldl (fun acc r => acc * (one + r)) one - one

/-- `hwm[t] = max(hwm[t-1], x[t])` from a given previous mark -/
def hwmFrom (h : α) : List α → List α
  | [] => []
  | y :: ys => let h' := pmax h y; h' :: hwmFrom h' ys

/-- `hwm[0] = x[0]; hwm[t] = max(hwm[t-1], x[t])` -/
def highWaterMarks : List α → List α
  | [] => []
  | x :: xs => x :: hwmFrom x xs

/-- `(hwm - x) / hwm`, first entry forced to `0.0` -/
def drawdownsOf (cum : List α) : List α :=
  match List.zipWith (fun h x => (h - x) / h) (highWaterMarks cum) cum with
  | [] => []
  | _ :: rest => zero :: rest

/-- longest run of consecutive non-zero entries -/
def longestRun (dd : List α) : Nat :=
  let step := fun (st : Nat × Nat) (x : α) =>
    let cur := if beq x zero then 0 else st.1 + 1
    (cur, max st.2 cur)
  (dd.foldl step (0, 0)).2

/-- `np.max` of a non-empty series (first element, then `max` folds) -/
def maxOf : List α → α
  | [] => zero
  | x :: xs => xs.foldl pmax x

/-- `create_drawdowns(cum_returns)`: (drawdown series, maximum drawdown, maximum duration) -/
def createDrawdowns (cum : List α) : List α × α × Nat :=
  let dd := drawdownsOf cum
  (dd, maxOf dd, longestRun dd)

def popStd [TransOps α] (l : List α) : α := TransOps.sqrt (popVar l)

/-- `create_cagr(cum_returns, periods)`; `periods` is any number (252, 252·6.5, 365.25, …), used as it is -/
def createCagr [TransOps α] (cum : List α) (periods : α) : α :=
  let years := ofInt cum.length / periods
  TransOps.pow (cum.getLastD zero) (one / years) - one

/-- `create_sharpe_ratio(returns, periods)` -/
def createSharpe [TransOps α] (rs : List α) (periods : α) : α :=
  TransOps.sqrt periods * meanOf rs / popStd rs

/-- `create_sortino_ratio(returns, periods)` -/
def createSortino [TransOps α] (rs : List α) (periods : α) : α :=
  TransOps.sqrt periods * meanOf rs / popStd (rs.filter fun r => lt r zero)

end

/-! ## Calendar grouping -/

/-- ISO-8601 week number of day `d ≥ 0` (`date.isocalendar()[1]`) -/
def isoWeek (d : Int) : Int :=
  let thursday := d - weekday d + 3
  let y := (civil thursday).1
  let jan1 := monthStart (((y - 1600) * 12).toNat)
  (thursday - jan1) / 7 + 1

inductive Period | weekly | monthly | yearly
deriving DecidableEq, Repr

/-- the `groupby` key of `aggregate_returns` -/
def periodKey (p : Period) (d : Int) : List Int :=
  let (y, m, _) := civil d
  match p with
  | .yearly => [y]
  | .monthly => [y, m]
  | .weekly => [y, m, isoWeek d]

/-- group values by key, keeping first-occurrence order of keys and input order inside a group -/
def groupByKey {β : Type} (key : β → List Int) : List β → List (List Int × List β)
  | [] => []
  | x :: xs =>
    let rest := groupByKey key xs
    let k := key x
    if rest.any (fun g => g.1 == k) then rest.map (fun g => if g.1 == k then (g.1, x :: g.2) else g)
    else (k, [x]) :: rest

def keyLe : List Int → List Int → Bool
  | [], _ => true
  | _ :: _, [] => false
  | a :: as, b :: bs => if a < b then true else if b < a then false else keyLe as bs

section
variable {α : Type} [Add α] [Sub α] [Mul α] [Div α] [Neg α] [NumOps α]

/-- `aggregate_returns(returns, convert_to)`: per calendar group the compounded return, keys sorted (pandas `groupby`) -/
def aggregateReturns (p : Period) (dated : List (Int × α)) : List (List Int × α) :=
  let groups := groupByKey (fun (x : Int × α) => periodKey p x.1) dated
  (groups.map fun g => (g.1, compound (g.2.map (·.2)))).mergeSort (fun a b => keyLe a.1 b.1)

end
end Qs
