import QsModel.Reference
import QsModel.DriverK2
import QsModel.DriverK3

/-! # Driver for harness K7 (whole backtest sessions, operational model and reference specification)

`reset` / `ds …` as in K2 define the market; `run <config tokens>` runs the session model and the reference. -/

namespace Qs.K7
open Proto

section
variable {α : Type} [Add α] [Sub α] [Mul α] [Div α] [Neg α] [Carrier α]

abbrev P := StateT (List String) Option

def tok : P String := do
  match (← get) with
  | [] => failure
  | t :: ts => set ts; pure t

def pInt : P Int := do let t ← tok; match int? t with | some n => pure n | none => failure
def pNat : P Nat := do let t ← tok; match t.toNat? with | some n => pure n | none => failure
def pNum : P α := do let t ← tok; match (num? t : Option α) with | some x => pure x | none => failure
def pOptInt : P (Option Int) := do
  let t ← tok
  if t == "-" then pure none else match int? t with | some x => pure (some x) | none => failure
def pRep {β : Type} (p : P β) : Nat → P (List β)
  | 0 => pure []
  | n + 1 => do let x ← p; let xs ← pRep p n; pure (x :: xs)

def pFee : P (FeeModel α) := do
  let t ← tok
  if t == "Z" then pure .zero
  else if t == "P" then do let c ← pNum; let tau ← pNum; pure (.percent c tau)
  else failure

def pKind : P RebalanceKind := do
  let t ← tok
  match t with
  | "bh" => pure .buyAndHold
  | "daily" => pure .daily
  | "eom" => pure .endOfMonth
  | "weekly" => do let wd ← tok; pure (.weekly wd)
  | _ => failure

def pUni : P UniverseSpec := do
  let t ← tok
  let n ← pNat
  if t == "S" then do let l ← pRep tok n; pure (.static l)
  else if t == "D" then do let l ← pRep (do let a ← tok; let d ← pOptInt; pure (a, d)) n; pure (.dynamic l)
  else failure

inductive AlphaSpec (α : Type)
  | fixed (w : List (String × α))
  | single (s : α)

def pAlpha : P (AlphaSpec α) := do
  let t ← tok
  if t == "F" then do
    let n ← pNat
    let w ← pRep (do let a ← tok; let x ← (pNum : P α); pure (a, x)) n
    pure (.fixed w)
  else if t == "U" then do let s ← (pNum : P α); pure (.single s)
  else failure

def sigKind : String → Option SignalKind
  | "mom" => some .momentum | "sma" => some .sma | "vol" => some .vol | _ => none

def pSignals : P (Option (List (SignalKind × List Nat))) := do
  let t ← tok
  if t == "-" then pure none
  else if t == "G" then do
    let n ← pNat
    let l ← pRep (do
      let k ← tok
      match sigKind k with
      | none => failure
      | some k => do let nl ← pNat; let ls ← pRep pNat nl; pure (k, ls)) n
    pure (some l)
  else failure

def pCfg : P (SessionCfg α × AlphaSpec α) := do
  let start ← pInt; let end_ ← pInt; let burn ← pOptInt
  let kind ← pKind
  let lo ← tok
  let param ← (pNum : P α)
  let fee ← (pFee : P (FeeModel α))
  let cash ← (pNum : P α)
  let uni ← pUni
  let alpha ← (pAlpha : P (AlphaSpec α))
  let sigs ← pSignals
  pure ({ start, end_, burnIn := burn, rebalance := kind, longOnly := lo == "1", param, fee, initialCash := cash,
          uni, signalSpecs := sigs, nan := Carrier.ofBits 0x7FF8000000000000 }, alpha)

def fillJson (f : Fill α) : String :=
  jlist [jint f.time, jstr f.asset, jint f.qty, jnum f.price, jnum f.commission]

def wJson (w : List (String × α)) : String := jlist (w.map fun (a, x) => jlist [jstr a, jnum x])

def holdJson (h : List (String × Int)) : String := jlist (h.map fun (a, q) => jlist [jstr a, jint q])

def sigsJson (c : Option (SignalsCollection α)) : String :=
  match c with
  | none => "null"
  | some c => jobj [("warmup", toString c.warmup),
      ("signals", jlist (c.signals.map fun s =>
        jobj [("assets", jlist (s.assets.map jstr)),
              ("buffers", jlist (s.buffers.map fun b => jlist [jstr b.asset, toString b.lookback, jlist (b.items.map jnum)]))]))]

def runJson (srcs : List (DataSource α)) (cfg : SessionCfg α) (al : AlphaSpec α) : String :=
  let px : Px α := fun t a => handlerBid srcs t a
  let alpha : Alpha α := match al with | .fixed w => fixedAlpha w | .single s => singleAlpha s
  let refPart : String :=
    match al, cfg.uni with
    | .fixed w, .static _ =>
      match referenceRun cfg w px with
      | none => "null"
      | some r => jobj [("fills", jlist (r.fills.map fillJson)), ("cash", jnum r.cash), ("hold", holdJson r.hold),
                        ("equity", jlist (r.equity.map fun (t, v) => jlist [jint t, jnum v])),
                        ("alloc_dates", jlist (r.allocDates.map jint))]
    | _, _ => "null"
  match Session.run cfg alpha px with
  | .error e => jobj [("out", jstr e.name), ("ref", refPart)]
  | .ok (s, err) =>
    let pf := (s.broker.find? PORTFOLIO_ID).map (·.pf)
    jobj [("out", jstr "ok"),
          ("err", match err with | none => "null" | some (t, e) => jlist [jint t, jstr e.name]),
          ("fills", jlist (s.fills.map fillJson)),
          ("cash", match pf with | some p => jnum p.cash | none => "null"),
          ("hold", holdJson (heldOf s.broker)),
          ("equity", jlist (s.equity.map fun (t, v) => jlist [jint t, jnum v])),
          ("allocs", jlist (s.allocations.map fun (t, w) => jlist [jint t, wJson w])),
          ("table", jlist ((targetAllocationTable cfg s).map fun (d, row) =>
              jlist [jint d, match row with | none => "null" | some w => wJson w])),
          ("hist", match pf with | some p => jlist (p.history.map K3.eventJson) | none => "[]"),
          ("signals", sigsJson s.signals),
          ("ref", refPart)]

def handle (srcs : List (DataSource α)) (line : String) : List (DataSource α) × String :=
  match tokens line with
  | "run" :: rest =>
    match (pCfg (α := α)).run rest with
    | some ((cfg, al), []) => (srcs, runJson srcs cfg al)
    | _ => (srcs, jobj [("out", jstr "bad-op")])
  | _ => K2.handle srcs line

end

partial def loop {α : Type} [Add α] [Sub α] [Mul α] [Div α] [Neg α] [Carrier α]
    (hin hout : IO.FS.Stream) (s : List (DataSource α)) : IO Unit := do
  let line ← hin.getLine
  if line.isEmpty then return ()
  let (s', out) := handle s line
  hout.putStrLn out
  loop hin hout s'

def main (carrier : String) : IO Unit := do
  let hin ← IO.getStdin
  let hout ← IO.getStdout
  if carrier == "rat" then loop (α := Rat) hin hout [] else loop (α := Float) hin hout []

end Qs.K7
