import QsModel.Broker

/-!
# M1 — calendars: simulation clock, rebalance schedules

Mirrors `qstrader/simulation/daily_bday.py`, `system/rebalance/{weekly,daily,end_of_month,buy_and_hold}.py`.
`pd.date_range(start, end, freq)` is modelled *generatively*, as pandas produces it for the three offsets
used (`BDay`, `W-<DAY>`, `BME`): roll `start` forward to the offset keeping its time of day, then apply the
offset repeatedly while the stamp is `≤ end`.  Times are integer seconds since 1970-01-01T00:00:00Z; dates
before 1600 are out of scope (months are counted from 1600-01; pandas cannot represent instants before 1677-09-21).
-/

namespace Qs

def isBDay (d : Int) : Bool := decide (weekday d ≤ 4)

/-- `d + BDay(1)`: the next Monday–Friday date strictly after `d` -/
def nextBDay (d : Int) : Int :=
  if weekday d = 4 then d + 3 else if weekday d = 5 then d + 2 else d + 1

/-- `offset.rollforward` on the date part -/
def rollForward (onOffset : Int → Bool) (next : Int → Int) (d : Int) : Int :=
  if onOffset d then d else next d

/-- apply the offset repeatedly while the stamp (day `cur` at time-of-day `tod`) is `≤ end` -/
def iterDays (next : Int → Int) (tod end_ : Int) : Nat → Int → List Int
  | 0, _ => []
  | fuel + 1, cur => if cur * 86400 + tod ≤ end_ then cur :: iterDays next tod end_ fuel (next cur) else []

/-- the dates of `pd.date_range(start, end, freq)` for an offset given by `onOffset` / `next` -/
def dateRangeDays (onOffset : Int → Bool) (next : Int → Int) (start end_ : Int) : List Int :=
  let d0 := dayOf start
  iterDays next (todOf start) end_ ((dayOf end_ - d0 + 2).toNat) (rollForward onOffset next d0)

/-- `pd.date_range(start, end, freq=BDay())` (dates only; the engine uses year/month/day) -/
def bdayRange (start end_ : Int) : List Int := dateRangeDays isBDay nextBDay start end_

/-! ## Simulation engine -/

inductive EvKind
  | preMarket | marketOpen | marketClose | postMarket
deriving DecidableEq, Repr, Inhabited

def EvKind.name : EvKind → String
  | .preMarket => "pre_market"
  | .marketOpen => "market_open"
  | .marketClose => "market_close"
  | .postMarket => "post_market"

structure SimEvent where
  time : Int
  kind : EvKind
deriving DecidableEq, Repr

/-- the events of one business day -/
def dayTemplate (pre post : Bool) (d : Int) : List SimEvent :=
  (if pre then [⟨d * 86400, .preMarket⟩] else []) ++
  [⟨d * 86400 + OPEN, .marketOpen⟩, ⟨d * 86400 + CLOSE, .marketClose⟩] ++
  (if post then [⟨d * 86400 + 86340, .postMarket⟩] else [])

/-- `DailyBusinessDaySimulationEngine(start, end, pre_market, post_market)` and its iteration -/
def simEvents (start end_ : Int) (pre post : Bool) : Except Err (List SimEvent) :=
  if end_ < start then .error .value
  else .ok ((bdayRange start end_).flatMap (dayTemplate pre post))

/-! ## Rebalance schedules -/

/-- `"14:30:00" if pre_market else "21:00:00"`, applied to a date -/
def stamp (pre : Bool) (d : Int) : Int := d * 86400 + (if pre then OPEN else CLOSE)

/-- `WeeklyRebalance._set_weekday`: upper-cased (ASCII) name must be one of MON..FRI -/
def parseWeekday (s : String) : Option Int :=
  match s.toUpper with
  | "MON" => some 0 | "TUE" => some 1 | "WED" => some 2 | "THU" => some 3 | "FRI" => some 4
  | _ => none

/-- `pd.date_range(start, end, freq='W-<DAY>')` then re-stamped -/
def weeklyRebalances (start end_ : Int) (wd : String) (pre : Bool) : Except Err (List Int) :=
  match parseWeekday wd with
  | none => .error .value
  | some k =>
    let on := fun d => decide (weekday d = k)
    let next := fun d => d + ((k - weekday d - 1) % 7 + 1)     -- next date with that weekday, strictly later
    .ok ((dateRangeDays on next start end_).map (stamp pre))

/-- days `lo, lo+1, …` (`n` of them) -/
def daysFrom (lo : Int) : Nat → List Int
  | 0 => []
  | n + 1 => lo :: daysFrom (lo + 1) n

/-- `pd.bdate_range(start, end)` (which normalises both ends to midnight) then re-stamped -/
def dailyRebalances (start end_ : Int) (pre : Bool) : List Int :=
  (bdayRange (dayOf start * 86400) (dayOf end_ * 86400)).map (stamp pre)

/-! ### Months (structural: consecutive intervals whose lengths follow the Gregorian rule) -/

def isLeap (y : Int) : Bool := (decide (y % 4 = 0) && !decide (y % 100 = 0)) || decide (y % 400 = 0)

/-- month indices count from January 1600 (a leap-cycle boundary before the earliest instant pandas can represent,
1677-09-21): `M0` is the day number of 1600-01-01 -/
def M0 : Int := -135140

/-- length of month `k` (months counted from 1600-01 = 0) -/
def monthLen (k : Nat) : Int :=
  let y : Int := 1600 + (k / 12 : Nat)
  match k % 12 with
  | 0 => 31 | 1 => if isLeap y then 29 else 28 | 2 => 31 | 3 => 30 | 4 => 31 | 5 => 30
  | 6 => 31 | 7 => 31 | 8 => 30 | 9 => 31 | 10 => 30 | _ => 31

/-- first day number of month `k` -/
def monthStart : Nat → Int
  | 0 => M0
  | k + 1 => monthStart k + monthLen k

/-- walk forward from month `k` (starting on day `s`) to the month containing day `d` -/
def findMonthFrom (d : Int) : Nat → Nat → Int → Nat × Int
  | 0, k, s => (k, s)
  | fuel + 1, k, s => if d < s + monthLen k then (k, s) else findMonthFrom d fuel (k + 1) (s + monthLen k)

/-- `(k, monthStart k)` for the month containing day `d ≥ M0` -/
def findMonth (d : Int) : Nat × Int := findMonthFrom d ((d - M0).toNat / 28 + 1) 0 M0

/-- last Monday–Friday date of the month `k` that starts on day `s` -/
def lastBDayOfMonth (k : Nat) (s : Int) : Int :=
  let e := s + monthLen k - 1
  if weekday e = 5 then e - 1 else if weekday e = 6 then e - 2 else e

/-- `BusinessMonthEnd.is_on_offset` on the date part -/
def isBMonthEnd (d : Int) : Bool :=
  let (k, s) := findMonth d
  decide (d = lastBDayOfMonth k s)

/-- iterate business month ends from month `k` while the stamp is `≤ end` -/
def iterBME (tod end_ : Int) : Nat → Nat → Int → List Int
  | 0, _, _ => []
  | fuel + 1, k, s =>
    let d := lastBDayOfMonth k s
    if d * 86400 + tod ≤ end_ then d :: iterBME tod end_ fuel (k + 1) (s + monthLen k) else []

/-- the dates of `pd.date_range(start, end, freq='BME')` -/
def bmeRangeDays (start end_ : Int) : List Int :=
  let d0 := dayOf start
  let (k, s) := findMonth d0
  -- rollforward: this month's last business day if not yet passed, else next month's
  let (k1, s1) := if d0 ≤ lastBDayOfMonth k s then (k, s) else (k + 1, s + monthLen k)
  iterBME (todOf start) end_ (((dayOf end_ - d0) / 28 + 2).toNat) k1 s1

def eomRebalances (start end_ : Int) (pre : Bool) : List Int :=
  (bmeRangeDays start end_).map (stamp pre)

/-- `BuyAndHoldRebalance(start)`: the start itself on a business day, else the same time on the next one -/
def buyAndHold (start : Int) : List Int :=
  if isBDay (dayOf start) then [start] else [nextBDay (dayOf start) * 86400 + todOf start]

/-! ### Calendar date of a day number (for the statistics' year / month / ISO-week grouping) -/

/-- `(year, month 1..12, day-of-month 1..)` of day `d ≥ M0` -/
def civil (d : Int) : Int × Int × Int :=
  let (k, s) := findMonth d
  (1600 + (k / 12 : Nat), (k % 12 : Nat) + 1, d - s + 1)

end Qs
