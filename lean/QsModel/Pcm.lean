import QsModel.Sizer

/-!
# M4b — `PortfolioConstructionModel.__call__`

Mirrors `qstrader/portcon/pcm.py`.  The order sizer is a parameter (its recorded output drives the
model in the correspondence check; the composed model plugs in `dwSize`/`lsSize`).
-/

namespace Qs

/-- `sorted(list(set(xs)))` for strings -/
def sortDedup (xs : List String) : List String :=
  (xs.mergeSort (fun a b => decide (a ≤ b))).eraseDups

/-- Python `{**d1, **d2}`: keys of `d1` in order (values overridden by `d2`), then the new keys of `d2` in order -/
def dictOverlay {β : Type} (d1 d2 : List (String × β)) : List (String × β) :=
  let updated := d1.map fun (k, v) => (k, (d2.lookup k).getD v)
  let extra := d2.filter fun (k, _) => !(d1.any fun x => x.1 == k)
  updated ++ extra

/-- de-duplicate an association list the way a Python dict literal/comprehension does: first position, last value -/
def dictOfPairs {β : Type} : List (String × β) → List (String × β)
  | [] => []
  | (k, v) :: rest => dictOverlay [(k, v)] (dictOfPairs rest)

structure PcmResult (α : Type) where
  /-- the weights handed to the order sizer = the recorded target allocation -/
  fullWeights : List (String × α)
  /-- rebalance orders `(asset, quantity)`, ascending by asset, non-zero only -/
  orders : List (String × Int)

section
variable {α : Type} [NumOps α]

/-- `_obtain_full_asset_list`: `sorted(set(held) | set(universe))` -/
def fullAssetList (held : List (String × Int)) (uni : List String) : List String :=
  sortDedup (held.map (·.1) ++ uni)

/-- the weight vector given to the sizer: zero for every held/universe asset, overlaid by the optimiser's output -/
def fullWeightVector (held : List (String × Int)) (uni : List String) (optimised : List (String × α)) :
    List (String × α) :=
  dictOverlay ((fullAssetList held uni).map fun a => (a, Num.zero)) optimised

/-- `_generate_rebalance_orders(dt, target, current)` for string asset ids: only assets of the target portfolio
are considered (the `type(asset) != str` branch never adds a held asset that the target omits). -/
def rebalanceOrders (target : List (String × Int)) (current : List (String × Int)) : List (String × Int) :=
  let diffs := target.map fun (a, q) => (a, q - (current.lookup a).getD 0)
  (sortByKey diffs).filter fun x => x.2 ≠ 0

/-- `PortfolioConstructionModel.__call__` with the fixed-weight optimiser -/
def pcmCall (held : List (String × Int)) (uni : List String) (alpha : List (String × α))
    (sizer : List (String × α) → Except Err (List (String × Int))) : Except Err (PcmResult α) := do
  let fw := fullWeightVector held uni (fixedWeight alpha)
  let target ← sizer fw
  pure { fullWeights := fw, orders := rebalanceOrders target held }

end
end Qs
