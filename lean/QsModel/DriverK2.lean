import QsModel.Market
import QsModel.Proto

/-! # Driver for harness K2 (CSV data source and data handler)

`ds <adjust> <nassets> {asset nbars {day open close adj}*}*` appends a data source; `reset` clears them;
`bid <src> <t> <asset>` queries one source, `hbid|hmid <t> <asset>` the handler over all sources. -/

namespace Qs.K2
open Proto

section
variable {α : Type} [Add α] [Sub α] [Mul α] [Div α] [Neg α] [Carrier α]

abbrev P := StateT (List String) Option

def tok : P String := do
  match (← get) with
  | [] => failure
  | t :: ts => set ts; pure t

def pInt : P Int := do let t ← tok; match int? t with | some n => pure n | none => failure
def pNat : P Nat := do let t ← tok; match t.toNat? with | some n => pure n | none => failure
def pOptNum : P (Option α) := do
  let t ← tok
  if t == "-" then pure none else match (num? t : Option α) with | some x => pure (some x) | none => failure

def pRep {β : Type} (p : P β) : Nat → P (List β)
  | 0 => pure []
  | n + 1 => do let x ← p; let xs ← pRep p n; pure (x :: xs)

def pBar : P (Bar α) := do
  let day ← pInt; let o ← (pOptNum : P (Option α)); let c ← (pOptNum : P (Option α)); let a ← (pOptNum : P (Option α))
  pure { day, open_ := o, close := c, adj := a }

def pSource : P (DataSource α) := do
  let adj ← tok
  let n ← pNat
  let assets ← pRep (do let a ← tok; let nb ← pNat; let bars ← pRep (pBar (α := α)) nb; pure (a, bars)) n
  pure { adjust := adj == "1", assets }

def optJson (v : Option α) : String :=
  match v with
  | some x => jobj [("out", jstr "ok"), ("value", jnum x)]
  | none => jobj [("out", jstr "ok"), ("value", "null")]

def handle (srcs : List (DataSource α)) (line : String) : List (DataSource α) × String :=
  let bad := (srcs, jobj [("out", jstr "bad-op")])
  match tokens line with
  | ["reset"] => ([], jobj [("out", jstr "ok")])
  | "ds" :: rest =>
    match (pSource (α := α)).run rest with
    | some (ds, []) => (srcs ++ [ds], jobj [("out", jstr "ok")])
    | _ => bad
  | ["bid", i, t, a] =>
    match i.toNat?, int? t with
    | some i, some t =>
      match srcs[i]? with
      | none => bad
      | some ds =>
        match ds.getBid t a with
        | .ok v => (srcs, optJson v)
        | .error e => (srcs, jobj [("out", jstr e.name)])
    | _, _ => bad
  | ["hbid", t, a] =>
    match int? t with
    | some t => (srcs, optJson (handlerBid srcs t a))
    | none => bad
  | ["hmid", t, a] =>
    match int? t with
    | some t => (srcs, optJson (handlerMid srcs t a))
    | none => bad
  | _ => bad

end

partial def loop {α : Type} [Add α] [Sub α] [Mul α] [Div α] [Neg α] [Carrier α]
    (hin hout : IO.FS.Stream) (s : List (DataSource α)) : IO Unit := do
  let line ← hin.getLine
  if line.isEmpty then return ()
  let (s', out) := handle s line
  hout.putStrLn out
  loop hin hout s'

def main (carrier : String) : IO Unit := do
  let hin ← IO.getStdin
  let hout ← IO.getStdout
  if carrier == "rat" then loop (α := Rat) hin hout [] else loop (α := Float) hin hout []

end Qs.K2
