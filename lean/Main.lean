import QsModel

def main (args : List String) : IO UInt32 := do
  match args with
  | ["k3", carrier] => Qs.K3.main carrier; return 0
  | ["k4", carrier] => Qs.K4.main carrier; return 0
  | ["k1", _] => Qs.K1.main; return 0
  | ["k2", carrier] => Qs.K2.main carrier; return 0
  | ["k5", carrier] => Qs.K5.main carrier; return 0
  | ["k6", carrier] => Qs.K6.main carrier; return 0
  | ["k7", carrier] => Qs.K7.main carrier; return 0
  | _ => IO.eprintln "usage: qsdriver <harness> <float|rat>"; return 2
