"""Property -> harness adapter."""
import glob
import hashlib
import json
import os

import common


def load_corpus(prop):
    cases = []
    for p in sorted(glob.glob(os.path.join(common.VERIF, 'harness', 'corpus', prop, '*.json'))):
        try:
            cases.append(json.load(open(p)))
        except ValueError:
            raise common.Infra('corpus file %s is not valid JSON' % p)
    return cases


def case_hash(c):
    return hashlib.sha256(json.dumps(common.jsonable(c), sort_keys=True).encode()).hexdigest()


class K3Adapter(object):
    """Broker / portfolio / position op sequences (C01-C05, C15)."""

    def accepts(self, case):
        return 'ops' in case and case.get('kind') != 'position' and 'start' in case

    N = dict(quick=150, thorough=3000)
    SEARCH = dict(quick=300, thorough=3000)

    def _result(self, prop, r, tier):
        import k3
        findings = []
        for f in r['oracle']:
            g = dict(f)
            g['case'] = r['cases'][f['case_index']]
            findings.append(g)
        mism = []
        for m in r['mismatches']:
            g = dict(m)
            g['case'] = r['cases'][m['case_index']]
            mism.append(g)
        hist = r['hist']
        nontrivial = set()
        for c, tr in zip(r['cases'], r['traces']):
            steps = tr.get('steps', [])
            if any(s['txns'] for s in steps) and any(s['out'] != 'ok' for s in steps):
                nontrivial.add(case_hash(c))
        sample = r['cases'][-1] if r['cases'] else None
        cov = dict(
            evaluations=int(r['stats']['steps']),
            distinct_nontrivial=len(nontrivial),
            rule='op sequences from harness/k3_gen.py (seeded; valid-heavy stream plus ~15% invalid requests; boundary update '
                 'times; closes, reopens and flips through zero forced); evaluations = executed ops, each compared stepwise '
                 'with the Lean model loaded with the observed pre-state; a case is non-trivial when it contains at least one '
                 'fill and at least one refused request; distinct by SHA-256 of the case',
            samples=[sample],
            traces_validated_against_impl=int(r['stats']['cases']),
            steps_compared=int(r['stats']['compared']),
            steps_skipped_outside_scope=int(r['stats']['skipped']),
            corpus_cases=int(r['stats']['corpus_cases']),
            exhaustive_short_sequences=int(r['stats'].get('exhaustive_short_sequences', 0)),
            comparison=r['tally'].as_dict(),
            input_distribution={k: int(v) for k, v in sorted(hist.items())},
        )
        if prop == 'C15':
            need15 = ['refused:subA:ValueError', 'refused:wdA:ValueError', 'refused:create:ValueError', 'refused:subP:ValueError',
                      'refused:subP:KeyError', 'refused:wdP:ValueError', 'refused:wdP:KeyError', 'refused:submit:KeyError',
                      'refused:pfsub:ValueError', 'refused:pfwd:ValueError', 'refused:pfmark:ValueError', 'refused:pftxn:ValueError',
                      'refused:q:ValueError', 'refused:q:KeyError']
            miss15 = [k for k in need15 if hist.get(k, 0) == 0]
            if miss15 and r['stats']['cases'] - r['stats']['corpus_cases'] >= 100 and not findings and not mism:
                raise common.Infra('generator missed the refusal kinds %s' % miss15)
        required = ['update:open', 'update:closed', 'update:boundary-instant', 'update:weekend', 'fill',
                    'position:closed-to-zero', 'position:flipped-through-zero', 'update:closed-with-pending',
                    'update:mixed-sides-batch']
        missing = [k for k in required if hist.get(k, 0) == 0]
        if missing and r['stats']['cases'] - r['stats']['corpus_cases'] >= 100 and not findings and not mism:
            # only a run that would otherwise pass is invalidated by an incomplete input distribution
            raise common.Infra('generator missed the classes %s' % missing)
        return dict(findings=findings, mismatches=mism, coverage=cov, harness='K3 (harness/k3*.py)',
                    assumptions=['quotes are scripted (bid != ask); market-data lookup is C06\'s business',
                                 'floats compared as bit patterns against the Float-carrier model, else within 1e-12 relative '
                                 'of the exact Rat-carrier model'])

    def run(self, prop, tier, seed):
        import k3
        r = k3.run(prop, tier, seed, self.N[tier], corpus=[c for c in load_corpus(prop) + load_corpus('K3') if self.accepts(c)], exhaustive=(tier == 'thorough'))
        return self._result(prop, r, tier)

    def replay(self, prop, payload):
        import k3
        case = payload.get('case') or payload
        r = k3.run(prop, 'quick', 0, 0, corpus=[case])
        res = self._result(prop, r, 'quick')
        return dict(findings=res['findings'], mismatches=res['mismatches'])

    def search(self, prop, tier, seed, mismatches):
        """witness search: the diverging cases first (already judged by the oracle), then fresh inputs, oracle only"""
        import k3_gen
        import k3_oracle
        import k3_real
        rng = common.rng_for(seed, prop, tier, 'search')
        found = []
        for _ in range(self.SEARCH[tier]):
            case = k3_gen.gen_case(rng, invalid_rate=0.25)
            tr = k3_real.execute(case)
            for f in k3_oracle.check(prop, tr):
                g = dict(f)
                g['case'] = case
                found.append(g)
            if found:
                break
        return found

    def shrink(self, prop, finding):
        """drop ops while the oracle still fails with the same key"""
        import k3_oracle
        import k3_real
        case = finding.get('case')
        if not case or not case.get('ops'):
            return finding
        key = finding.get('key')

        def fails(c):
            try:
                tr = k3_real.execute(c)
            except Exception:
                return None
            try:
                fs = k3_oracle.check(prop, tr)
            except Exception:
                return None          # a shrunk sequence the oracle cannot judge (e.g. a mark without a quote) is not kept
            for f in fs:
                if f.get('key') == key:
                    return f
            return None

        cur = dict(case)
        ops = list(case['ops'])
        best = finding
        budget = 400
        i = len(ops) - 1
        while i >= 0 and budget > 0:
            trial = ops[:i] + ops[i + 1:]
            c2 = dict(cur, ops=trial)
            budget -= 1
            f = fails(c2)
            if f is not None:
                ops = trial
                best = dict(f, case=c2)
            i -= 1
        return best


class CaseAdapter(object):
    """Harnesses whose unit is an independent case: module.run(prop, tier, seed, n, corpus) ->
    dict(cases, reals, mismatches, oracle, stats, tally, hist); module.nontrivial(case, real) -> bool."""
    module_name = None
    label = None
    N = dict(quick=1000, thorough=10000)
    SEARCH = dict(quick=2000, thorough=20000)
    rule = ''
    assumptions = []
    required_hist = {}

    def mod(self):
        return __import__(self.module_name)

    def accepts(self, case):
        return 'kind' in case

    def n_cases(self, prop, tier):
        n = self.N[tier]
        return n.get(prop, n.get('default')) if isinstance(n, dict) else n

    def _result(self, prop, r):
        m = self.mod()
        findings = [dict(f, case=r['cases'][f['case_index']]) for f in r['oracle']]
        mism = [dict(x, case=r['cases'][x['case_index']]) for x in r['mismatches']]
        if r.get('reals') is None:
            n_nontrivial = int(r['stats'].get('nontrivial_cases', 0))
            sample = [r['sample']] if r.get('sample') is not None else (r['cases'][-1:] if r['cases'] else [])
        else:
            nontrivial = set()
            for c, real in zip(r['cases'], r['reals']):
                if m.nontrivial(c, real):
                    nontrivial.add(case_hash(c))
            n_nontrivial = len(nontrivial)
            sample = [r['cases'][-1]] if r['cases'] else []
        cov = dict(evaluations=int(r['stats']['cases']), distinct_nontrivial=n_nontrivial, rule=self.rule,
                   samples=sample, traces_validated_against_impl=int(r['stats']['cases']),
                   corpus_cases=int(r['stats']['corpus_cases']), comparison=r['tally'].as_dict(),
                   input_distribution={k: int(v) for k, v in sorted(r['hist'].items())})
        for k, v in r['stats'].items():
            if k not in ('cases', 'corpus_cases'):
                cov[k] = int(v)
        if r['stats']['cases'] - r['stats']['corpus_cases'] >= 200:
            missing = [k for k in self.required_hist.get(prop, []) if r['hist'].get(k, 0) == 0]
            if missing and not findings and not mism:
                raise common.Infra('generator missed the classes %s' % missing)
        return dict(findings=findings, mismatches=mism, coverage=cov, harness=self.label, assumptions=list(self.assumptions))

    def run(self, prop, tier, seed):
        r = self.mod().run(prop, tier, seed, self.n_cases(prop, tier), corpus=[c for c in load_corpus(prop) if self.accepts(c)])
        return self._result(prop, r)

    def replay(self, prop, payload):
        case = payload.get('case') or payload
        r = self.mod().run(prop, 'quick', 0, 0, corpus=[case])
        res = self._result(prop, r)
        return dict(findings=res['findings'], mismatches=res['mismatches'])

    def search(self, prop, tier, seed, mismatches):
        m = self.mod()
        r = m.run(prop, tier, seed + 7919, self.SEARCH[tier], corpus=[])
        return [dict(f, case=r['cases'][f['case_index']]) for f in r['oracle']][:5]


class K4Adapter(CaseAdapter):
    module_name = 'k4'
    label = 'K4 (harness/k4.py)'
    N = dict(quick={'C10': 6000, 'C11': 6000, 'C09': 1000, 'C19': 1500}, thorough={'C10': 60000, 'C11': 60000, 'C09': 10000, 'C19': 15000})
    rule = ('seeded structure-aware cases (harness/k4.py): sizer inputs with zero/tiny/negative weights, missing prices, floor '
            'boundaries, fee rates incl. 0, 1 and >1; PCM calls against a real broker with holdings outside the universe and '
            'alpha keys outside both; universe queries at entry-1s/entry/entry+60s; non-trivial = a non-empty, accepted input '
            'with a non-zero result (sizers), a call with existing holdings (PCM), a non-empty universe/weight map; distinct by SHA-256')
    assumptions = ['equity and prices are stubs for the sizers (their sources are C02/C06)',
                   'target quantities are compared exactly with the Float-carrier model; a difference that the exact Rat-carrier '
                   'model explains as float noise at a floor/trunc boundary is counted as near-discontinuity']
    required_hist = {'C10': ['dw:nonzero-fee', 'dw:out:ValueError', 'dw:new:ValueError', 'dw:nonzero-target'],
                     'C11': ['ls:nonzero-fee', 'ls:out:ValueError', 'ls:new:ValueError', 'ls:short-target'],
                     'C09': ['pcm:held-outside-universe', 'pcm:alpha-outside-both', 'pcm:sell-orders'],
                     'C19': ['dyn:entry-exactly-now', 'dyn:no-entry-date']}


class K1Adapter(CaseAdapter):
    module_name = 'k1'
    label = 'K1 (harness/k1.py)'
    N = dict(quick={'C12': 1500, 'C13': 1500, 'C04': 400}, thorough={'C12': 20000, 'C13': 20000, 'C04': 20000})
    SEARCH = dict(quick=1500, thorough=10000)
    rule = ('seeded (start, end) ranges 1971-2099: any weekday alignment, month/year/leap-day boundaries, lengths {0..45, 58..63, '
            '364..367, 730..732} days, start times 00:00/14:30/arbitrary, end 23:59 or any time (about 15% outside the '
            "quantifier, compared with the generative model but not judged by the oracle), all flag combinations, weekday "
            'strings in mixed case and invalid; plus the calendar table 1970-01-01..2199-12-31 compared exhaustively with '
            'datetime.date; non-trivial = an accepted case with a non-empty result; distinct by SHA-256')
    assumptions = ['pandas date_range/bdate_range/BusinessDay/BME and Timestamp parsing are modelled (DESIGN.md 9)']
    required_hist = {'C12': ['start-on-weekend', 'single-day', 'out:ValueError'],
                     'C13': ['start-on-weekend', 'eom:month-end-on-weekend', 'out:ValueError', 'kind:bh']}


class K3PAdapter(CaseAdapter):
    module_name = 'k3p'
    label = 'K3P (harness/k3p.py)'
    N = dict(quick=400, thorough=6000)
    SEARCH = dict(quick=1000, thorough=6000)
    rule = ('seeded fill/mark sequences applied directly to one Position object (no handler): closes to exactly zero followed '
            'by further fills, flips through zero, re-marks, refused fills (non-positive price, earlier timestamp); every '
            'attribute and P&L figure compared with the Lean Position model after every op; non-trivial = at least three fills')
    assumptions = ['the handler deletes flat positions; this harness keeps the Position object to cover the flat-and-continue paths']
    required_hist = {'C03': ['went-flat', 'continued-after-flat', 'flipped-through-zero', 'refused']}

    def accepts(self, case):
        return case.get('kind') == 'position'


class K2Adapter(CaseAdapter):
    module_name = 'k2'
    label = 'K2 (harness/k2.py)'
    N = dict(quick=40, thorough=1000)
    SEARCH = dict(quick=60, thorough=600)
    rule = ('seeded CSV datasets written to a temporary directory (1-3 assets, 1-40 rows, shuffled rows, gaps, missing cells, '
            'adjusted or raw, assets starting on different dates, optional second lower-priority source) queried at every bar '
            'boundary -1s/0/+1s, before the first bar, after the last, weekends and for unknown assets; evaluations = datasets; '
            'each query compares get_bid/get_ask and the handler bid/ask/bid-ask/mid with the model, and the real source with '
            'its row-sorted and future-rewritten variants; non-trivial = a dataset with at least two rows in a file')
    assumptions = ['the model is driven with the cell values as pandas.read_csv parsed them (float parsing is pandas\'s)',
                   'duplicate dates in one file and empty files are out of scope']
    required_hist = {'C06': ['query:nan', 'query:exact-boundary', 'query:weekend', 'file:unsorted', 'file:missing-cells',
                             'two-sources', 'adjust', 'raw']}


class K5Adapter(CaseAdapter):
    module_name = 'k5'
    label = 'K5 (harness/k5.py)'
    N = dict(quick=500, thorough=5000)
    SEARCH = dict(quick=800, thorough=5000)
    rule = ('seeded price streams (flat stretches, 2-decimal and full-precision moves) fed to Momentum/SMA/Volatility signals with '
            '1-3 lookbacks over 1-4 assets whose names contain underscores and digits, refused non-positive prices, unknown '
            'buffers, a late asset; and SignalsCollection.update over static and dynamic universes with entries before, on and '
            'after the first update; evaluations = cases (streams/collections); non-trivial = at least three accepted prices / '
            'three updates; distinct by SHA-256')
    assumptions = ['signal values pass through NumPy reductions (pairwise summation): compared at 1e-9 relative, buffers exactly']
    required_hist = {'C16': ['sig:mom', 'sig:sma', 'sig:vol', 'coll:asset-entered-later', 'stream:refused-price',
                             'stream:warming-up-zero']}


class K6Adapter(CaseAdapter):
    module_name = 'k6'
    label = 'K6 (harness/k6.py)'
    N = dict(quick=120, thorough=3000)
    SEARCH = dict(quick=200, thorough=2000)
    rule = ('seeded positive equity curves of 2-800 business days (random walks, first point is the peak, monotone up/down, long '
            'flat stretches, early year crossings) with periods 252/52/12; evaluations = curves; every number of '
            'JSONStatistics, TearsheetStatistics.get_results and performance.* is compared with the model; non-trivial = at '
            'least five points and a positive maximum drawdown; distinct by SHA-256')
    assumptions = ['statistics pass through NumPy/pandas reductions and exp/log/sqrt/pow: compared at 1e-9 relative (DESIGN.md 3.3)']
    required_hist = {'C17': ['first-point-is-peak', 'crosses-year', 'crosses-month', 'iso-week-year-boundary',
                             'mode:flat-stretches', 'mode:monotone-up']}


class K7Adapter(CaseAdapter):
    module_name = 'k7'
    label = 'K7 (harness/k7*.py)'
    N = dict(quick={'C13': 150, 'C08': 250, 'C14': 200, 'C07': 400, 'C18': 48, 'C09': 100, 'C16': 100, 'C19': 120},
             thorough={'C13': 3000, 'C08': 20000, 'C14': 12000, 'C07': 6000, 'C18': 200, 'C09': 6000, 'C16': 6000, 'C19': 8000})
    SEARCH = dict(quick=150, thorough=800)
    rule = ('seeded whole backtests on synthetic CSV markets written to a temporary directory (1-4 assets, gaps, missing cells, '
            'assets starting late; weekly/daily/end-of-month/buy-and-hold schedules; long-only and long/short sizing; zero and '
            'percentage fees; burn-in before/on/between rebalance instants; fixed-weight, universe-driven, momentum and '
            'inverse-volatility alpha models; static and dynamic universes with entries on / one minute after a rebalance), run '
            'through BacktestTradingSession.run() with recording taps at the component interfaces; evaluations = sessions; '
            'non-trivial = a session with at least one fill; distinct by SHA-256')
    assumptions = ['sessions whose alpha model is signal-driven have no whole-run model: they are judged by the relational and '
                   'structural oracles only', 'markets are synthetic; CSV parsing is pandas\'s']
    required_hist = {'C08': ['rebalance:buy_and_hold', 'rebalance:daily', 'rebalance:weekly', 'rebalance:end_of_month', 'long_only',
                             'long_short', 'fee:P', 'fee:Z', 'run:with-sells', 'burn-in'],
                     'C14': ['burn-in', 'rebalance:buy_and_hold', 'run:two-or-more-rebalances', 'family:signal', 'family:dynamic'],
                     'C07': ['family:signal', 'family:dynamic', 'family:fixed', 'run:with-fills']}

    def accepts(self, case):
        return 'market' in case

    def search(self, prop, tier, seed, mismatches):
        if prop == 'C18':
            return []
        return CaseAdapter.search(self, prop, tier, seed, mismatches)


class K3DetAdapter(CaseAdapter):
    module_name = 'k3det'
    label = 'K3D (harness/k3det.py)'
    N = dict(quick=150, thorough=3000)
    SEARCH = dict(quick=300, thorough=3000)
    rule = ('broker operation sequences (as K3) with the broker\'s own random order identifiers, each run twice in-process and once per '
            'hash seed in fresh interpreters; traces compared bit for bit with the identifiers erased; non-trivial = at least one fill')
    assumptions = ['identifiers are erased before comparison (the property excepts them)']

    def accepts(self, case):
        return 'ops' in case and bool(case.get('auto_ids'))


class Composite(object):
    """Several harnesses decide one property: results are concatenated, coverage is summed / nested."""
    parts = ()

    def __init__(self):
        self.subs = [cls() for cls in self.parts]

    def run(self, prop, tier, seed):
        out = None
        for sub in self.subs:
            r = sub.run(prop, tier, seed)
            if out is None:
                out = r
                out['coverage'] = dict(r['coverage'])
                out['coverage']['by_harness'] = {r['harness']: {k: v for k, v in r['coverage'].items() if k not in ('samples', 'rule')}}
                continue
            out['findings'] += r['findings']
            out['mismatches'] += r['mismatches']
            c, c2 = out['coverage'], r['coverage']
            for k in ('evaluations', 'distinct_nontrivial', 'traces_validated_against_impl', 'corpus_cases'):
                c[k] = c.get(k, 0) + c2.get(k, 0)
            c['rule'] = c['rule'] + ' || ' + c2['rule']
            c['samples'] = c['samples'] + c2['samples']
            for k, v in c2.get('comparison', {}).items():
                c['comparison'][k] = c['comparison'].get(k, 0) + v
            c['by_harness'][r['harness']] = {k: v for k, v in c2.items() if k not in ('samples', 'rule')}
            out['harness'] += ' + ' + r['harness']
            out['assumptions'] += r['assumptions']
        return out

    def _sub_for(self, payload):
        case = payload.get('case') or payload
        for sub in self.subs:
            if sub.accepts(case):
                return sub
        return self.subs[0]

    def replay(self, prop, payload):
        return self._sub_for(payload).replay(prop, payload)

    def search(self, prop, tier, seed, mismatches):
        found = []
        for sub in self.subs:
            found += sub.search(prop, tier, seed, mismatches)
            if found:
                break
        return found

    def shrink(self, prop, finding):
        sub = self._sub_for(finding)
        return sub.shrink(prop, finding) if hasattr(sub, 'shrink') else finding


class C04Adapter(Composite):
    parts = (K3Adapter, K1Adapter)


class C03Adapter(Composite):
    parts = (K3Adapter, K3PAdapter)


class K2DetAdapter(CaseAdapter):
    module_name = 'k2det'
    label = 'K2D (harness/k2det.py)'
    N = dict(quick=15, thorough=300)
    SEARCH = dict(quick=30, thorough=300)
    rule = ('CSV datasets and query lists as K2 (one or two data sources behind the handler), each list put to fresh objects in its '
            'original and in a shuffled order; every query must be answered identically; non-trivial = at least 10 queries')
    assumptions = []

    def accepts(self, case):
        return 'files' in case and 'queries' in case


class C13Adapter(Composite):
    parts = (K1Adapter, K7Adapter)


class C18Adapter(Composite):
    parts = (K7Adapter, K3DetAdapter, K2DetAdapter)


class K4K7Adapter(Composite):
    parts = (K4Adapter, K7Adapter)


class K5K7Adapter(Composite):
    parts = (K5Adapter, K7Adapter)


PROPS = {p: K3Adapter for p in ('C01', 'C02', 'C03', 'C05', 'C15')}
PROPS['C04'] = C04Adapter
PROPS['C03'] = C03Adapter
PROPS.update({p: K1Adapter for p in ('C12',)})
PROPS['C13'] = C13Adapter
PROPS['C06'] = K2Adapter
PROPS['C16'] = K5K7Adapter
PROPS['C17'] = K6Adapter
PROPS.update({p: K4Adapter for p in ('C10', 'C11')})
PROPS.update({p: K4K7Adapter for p in ('C09', 'C19')})
PROPS.update({p: K7Adapter for p in ('C07', 'C08', 'C14')})
PROPS['C18'] = C18Adapter
