"""Property -> harness adapter."""
import glob
import hashlib
import json
import os

import common


def load_corpus(prop):
    cases = []
    for p in sorted(glob.glob(os.path.join(common.VERIF, 'harness', 'corpus', prop, '*.json'))):
        try:
            cases.append(json.load(open(p)))
        except ValueError:
            raise common.Infra('corpus file %s is not valid JSON' % p)
    return cases


def case_hash(c):
    return hashlib.sha256(json.dumps(common.jsonable(c), sort_keys=True).encode()).hexdigest()


class K3Adapter(object):
    """Broker / portfolio / position op sequences (C01-C05, C15)."""
    N = dict(quick=150, thorough=3000)
    SEARCH = dict(quick=300, thorough=3000)

    def _result(self, prop, r, tier):
        import k3
        findings = []
        for f in r['oracle']:
            g = dict(f)
            g['case'] = r['cases'][f['case_index']]
            findings.append(g)
        mism = []
        for m in r['mismatches']:
            g = dict(m)
            g['case'] = r['cases'][m['case_index']]
            mism.append(g)
        hist = r['hist']
        nontrivial = set()
        for c, tr in zip(r['cases'], r['traces']):
            steps = tr.get('steps', [])
            if any(s['txns'] for s in steps) and any(s['out'] != 'ok' for s in steps):
                nontrivial.add(case_hash(c))
        sample = r['cases'][-1] if r['cases'] else None
        cov = dict(
            evaluations=int(r['stats']['steps']),
            distinct_nontrivial=len(nontrivial),
            rule='op sequences from harness/k3_gen.py (seeded; valid-heavy stream plus ~15% invalid requests; boundary update '
                 'times; closes, reopens and flips through zero forced); evaluations = executed ops, each compared stepwise '
                 'with the Lean model loaded with the observed pre-state; a case is non-trivial when it contains at least one '
                 'fill and at least one refused request; distinct by SHA-256 of the case',
            samples=[sample],
            traces_validated_against_impl=int(r['stats']['cases']),
            steps_compared=int(r['stats']['compared']),
            steps_skipped_outside_scope=int(r['stats']['skipped']),
            corpus_cases=int(r['stats']['corpus_cases']),
            comparison=r['tally'].as_dict(),
            input_distribution={k: int(v) for k, v in sorted(hist.items())},
        )
        required = ['update:open', 'update:closed', 'update:boundary-instant', 'update:weekend', 'fill',
                    'position:closed-to-zero', 'position:flipped-through-zero', 'update:closed-with-pending',
                    'update:mixed-sides-batch']
        missing = [k for k in required if hist.get(k, 0) == 0]
        if missing and r['stats']['cases'] - r['stats']['corpus_cases'] >= 100:
            raise common.Infra('generator missed the classes %s' % missing)
        return dict(findings=findings, mismatches=mism, coverage=cov, harness='K3 (harness/k3*.py)',
                    assumptions=['quotes are scripted (bid != ask); market-data lookup is C06\'s business',
                                 'floats compared as bit patterns against the Float-carrier model, else within 1e-12 relative '
                                 'of the exact Rat-carrier model'])

    def run(self, prop, tier, seed):
        import k3
        r = k3.run(prop, tier, seed, self.N[tier], corpus=load_corpus(prop) + load_corpus('K3'))
        return self._result(prop, r, tier)

    def replay(self, prop, payload):
        import k3
        case = payload.get('case') or payload
        r = k3.run(prop, 'quick', 0, 0, corpus=[case])
        res = self._result(prop, r, 'quick')
        return dict(findings=res['findings'], mismatches=res['mismatches'])

    def search(self, prop, tier, seed, mismatches):
        """witness search: the diverging cases first (already judged by the oracle), then fresh inputs, oracle only"""
        import k3_gen
        import k3_oracle
        import k3_real
        rng = common.rng_for(seed, prop, tier, 'search')
        found = []
        for _ in range(self.SEARCH[tier]):
            case = k3_gen.gen_case(rng, invalid_rate=0.25)
            tr = k3_real.execute(case)
            for f in k3_oracle.check(prop, tr):
                g = dict(f)
                g['case'] = case
                found.append(g)
            if found:
                break
        return found

    def shrink(self, prop, finding):
        """drop ops while the oracle still fails with the same key"""
        import k3_oracle
        import k3_real
        case = finding.get('case')
        if not case or not case.get('ops'):
            return finding
        key = finding.get('key')

        def fails(c):
            try:
                tr = k3_real.execute(c)
            except Exception:
                return None
            for f in k3_oracle.check(prop, tr):
                if f.get('key') == key:
                    return f
            return None

        cur = dict(case)
        ops = list(case['ops'])
        best = finding
        budget = 400
        i = len(ops) - 1
        while i >= 0 and budget > 0:
            trial = ops[:i] + ops[i + 1:]
            c2 = dict(cur, ops=trial)
            budget -= 1
            f = fails(c2)
            if f is not None:
                ops = trial
                best = dict(f, case=c2)
            i -= 1
        return best


PROPS = {p: K3Adapter for p in ('C01', 'C02', 'C03', 'C04', 'C05', 'C15')}
