"""K5 harness: signals and the signals collection (C16).

Cases:
 {"kind": "stream", "sig": "mom"|"sma"|"vol", "lookbacks": [..], "assets": [..], "ops": [["append", asset, price] | ["call", asset, lb]]}
 {"kind": "coll", "signals": [[sig, [lookbacks]], ...], "universe": {"static": [...]} | {"dynamic": [[asset, entry|null], ...]},
  "start": t, "days": [[t, {asset: price}], ...]}
"""
import collections
import math
import warnings
from fractions import Fraction as F

warnings.filterwarnings('ignore')
import numpy as np

from common import f2b, b2f, frac_of, cont_match, ts, run_driver_json, Tally, rng_for, scale_of

from qstrader.asset.universe.dynamic import DynamicUniverse
from qstrader.asset.universe.static import StaticUniverse
from qstrader.signals.momentum import MomentumSignal
from qstrader.signals.signals_collection import SignalsCollection
from qstrader.signals.sma import SMASignal
from qstrader.signals.vol import VolatilitySignal

CLS = dict(mom=MomentumSignal, sma=SMASignal, vol=VolatilitySignal)
NAMES = ['EQ:AAA', 'EQ:BBB', 'EQ:A_1', 'EQ:A_12', 'EQ:A', 'EQ:CCC']
T0 = 1546819200 + 75600


def bump(sig, lb):
    return lb if sig == 'sma' else lb + 1


def gen_prices(rng, n):
    p = rng.uniform(5, 300)
    out = []
    mode = rng.random()
    for _ in range(n):
        if mode < 0.15:
            pass                                  # flat stretch
        elif mode < 0.3:
            p = round(p * math.exp(rng.gauss(0, 0.02)), 2)
        else:
            p = p * math.exp(rng.gauss(0, 0.03))
        out.append(p)
        if rng.random() < 0.1:
            mode = rng.random()
    return out


def gen_case(rng):
    if rng.random() < 0.6:
        sig = rng.choice(['mom', 'sma', 'vol'])
        lbs = sorted(set(rng.choice([1, 2, 3, 5, 12, 20, 30]) for _ in range(rng.randint(1, 3))))
        assets = rng.sample(NAMES, rng.randint(1, 4))
        ops = []
        n = rng.choice([0, 1, 2, 3, 8, 15, 40, 70])
        if rng.random() < 0.04:
            # a year-long (and longer) lookback fed with more than a year of closes
            lbs = sorted(set([rng.choice([252, 253, 260, 300]), rng.choice([5, 252])]))
            assets = assets[:1]
            n = rng.choice([300, 330])
        streams = {a: gen_prices(rng, n) for a in assets}
        for i in range(n):
            for a in assets:
                if rng.random() < 0.93:
                    ops.append(['append', a, streams[a][i]])
                if rng.random() < 0.03:
                    ops.append(['append', a, rng.choice([0.0, -1.0])])
            if rng.random() < 0.5 or i == n - 1:
                for a in assets:
                    for lb in lbs:
                        ops.append(['call', a, lb])
        if n == 0:
            ops = [['call', a, lb] for a in assets for lb in lbs]
        ops.append(['call', 'EQ:NOPE', lbs[0]])
        ops.append(['call', assets[0], 999])
        if rng.random() < 0.3:
            late = [a for a in NAMES if a not in assets][0]
            if rng.random() < 0.5:
                ops += [['call', late, lb] for lb in lbs]          # read before the asset has any price (and so no buffer yet)
            for x in gen_prices(rng, rng.choice([1, 3, 5, 12, 40])):
                ops.append(['append', late, x])
                ops += [['call', late, lb] for lb in lbs]
        return dict(kind='stream', sig=sig, lookbacks=lbs, assets=assets, ops=ops)
    sigs = [[rng.choice(['mom', 'sma', 'vol']), sorted(set(rng.choice([1, 2, 3, 5, 10]) for _ in range(rng.randint(1, 2))))]
            for _ in range(rng.randint(1, 3))]
    assets = rng.sample(NAMES, rng.randint(1, 4))
    ndays = rng.choice([1, 3, 10, 25])
    if len(sigs) >= 2 and rng.random() < 0.3:
        # every signal over its own universe (they overlap; an asset may be old news to one signal and a newcomer to another)
        unis = []
        for _ in sigs:
            mem = rng.sample(assets, rng.randint(1, len(assets)))
            unis.append({'dynamic': [[a, T0 + 86400 * rng.choice([-3, -3, 0, 1, 2, 5])] for a in mem]})
        streams = {a: gen_prices(rng, ndays) for a in assets}
        days = [[T0 + 86400 * i, {a: streams[a][i] for a in assets}] for i in range(ndays)]
        return dict(kind='coll2', signals=sigs, universes=unis, start=T0 - 86400 * rng.choice([0, 1, 2]), days=days)
    if rng.random() < 0.6:
        uni = {'dynamic': [[a, None if rng.random() < 0.1 else T0 + 86400 * rng.choice([-3, 0, 0, 1, 2, 5, 40]) + rng.choice([0, 0, 60, -60])]
                           for a in assets]}
    else:
        uni = {'static': assets}
    streams = {a: gen_prices(rng, ndays) for a in assets}
    days = [[T0 + 86400 * i, {a: streams[a][i] for a in assets}] for i in range(ndays)]
    return dict(kind='coll', signals=sigs, universe=uni, start=T0 - 86400 * rng.choice([0, 1, 2]), days=days)


class StubDH(object):
    def __init__(self):
        self.p = {}

    def get_asset_latest_mid_price(self, dt, asset):
        return np.float64(self.p.get(asset, np.nan))


def make_universe(u):
    if 'static' in u:
        return StaticUniverse(list(u['static']))
    return DynamicUniverse(collections.OrderedDict((a, None if e is None else ts(e)) for a, e in u['dynamic']))


def buffers_of(sig):
    out = []
    for key, dq in sig.buffers.prices.items():
        out.append([key, [float(x) for x in dq]])
    return out


def execute(case):
    if case['kind'] == 'stream':
        sig = CLS[case['sig']](ts(T0), StaticUniverse(list(case['assets'])), list(case['lookbacks']))
        res = []
        for op in case['ops']:
            try:
                if op[0] == 'append':
                    sig.append(op[1], op[2])
                    key = '%s_%s' % (op[1], sig.lookbacks[0])
                    res.append(dict(out='ok', bufs={str(lb): [float(x) for x in sig.buffers.prices['%s_%s' % (op[1], lb)]] for lb in sig.lookbacks}))
                else:
                    res.append(dict(out='ok', value=float(sig(op[1], op[2]))))
            except (ValueError, KeyError) as e:
                res.append(dict(out=type(e).__name__))
        return dict(results=res)
    if case['kind'] == 'coll2':
        unis = [make_universe(u) for u in case['universes']]
        dh = StubDH()
        sigs = collections.OrderedDict(('s%d' % i, CLS[k](ts(case['start']), unis[i], list(lbs))) for i, (k, lbs) in enumerate(case['signals']))
        coll = SignalsCollection(sigs, dh)
        res = []
        for t, prices in case['days']:
            dh.p = prices
            try:
                coll.update(ts(t))
                out = 'ok'
            except (ValueError, KeyError) as e:
                out = type(e).__name__
            res.append(dict(out=out, universes=[list(u.get_assets(ts(t))) for u in unis],
                            signals=[dict(assets=sorted(s_.assets), buffers=buffers_of(s_)) for s_ in sigs.values()]))
        return dict(results=res, init_universes=[list(u.get_assets(ts(case['start']))) for u in unis])
    uni = make_universe(case['universe'])
    dh = StubDH()
    sigs = collections.OrderedDict(('s%d' % i, CLS[k](ts(case['start']), uni, list(lbs))) for i, (k, lbs) in enumerate(case['signals']))
    coll = SignalsCollection(sigs, dh)
    init_assets = [sorted(s.assets) for s in sigs.values()]
    res = []
    for t, prices in case['days']:
        dh.p = prices
        try:
            coll.update(ts(t))
            out = 'ok'
        except (ValueError, KeyError) as e:
            out = type(e).__name__
        res.append(dict(out=out, warmup=coll.warmup, universe=list(uni.get_assets(ts(t))),
                        signals=[dict(assets=sorted(s.assets), buffers=buffers_of(s)) for s in sigs.values()]))
    return dict(results=res, init_assets=init_assets, init_universe=list(uni.get_assets(ts(case['start']))))


def model_lines(case, real):
    lines = ['reset']
    if case['kind'] == 'coll2':
        return lines, 1            # per-signal universes: judged by the definition oracle only
    if case['kind'] == 'stream':
        lines.append(' '.join(['sig', case['sig'], str(len(case['lookbacks']))] + [str(l) for l in case['lookbacks']] +
                              [str(len(case['assets']))] + case['assets']))
        for op in case['ops']:
            if op[0] == 'append':
                lines.append('append 0 %s %d' % (op[1], f2b(op[2])))
            else:
                lines.append('call 0 %s %d' % (op[1], op[2]))
        return lines, 2
    for k, lbs in case['signals']:
        lines.append(' '.join(['sig', k, str(len(lbs))] + [str(l) for l in lbs] +
                              [str(len(real['init_universe']))] + real['init_universe']))
    hdr = len(lines)
    for (t, prices), r in zip(case['days'], real['results']):
        uni = r['universe']
        toks = ['upd', str(len(uni))] + uni + [str(len(prices))]
        for a, p in prices.items():
            toks += [a, str(f2b(p))]
        lines.append(' '.join(toks))
    return lines, hdr


def compare(case, real, outs_f, outs_r, hdr, tally):
    mism = []
    if case['kind'] == 'stream':
        sig_bufs = {}
        for j, (op, r) in enumerate(zip(case['ops'], real['results'])):
            mf, mr = outs_f[hdr + j], outs_r[hdr + j]
            tally.discrete += 1
            if r['out'] != mf.get('out'):
                mism.append(dict(what='op %d %r outcome' % (j, op), impl=r['out'], model=mf.get('out')))
                continue
            if r['out'] != 'ok':
                continue
            if op[0] == 'call':
                v = r['value']
                if math.isnan(v) and math.isnan(b2f(mf['value'])):
                    continue
                if not cont_match(v, mf['value'], None, scale_of(v, 1.0), tally, rel=1e-9, abs_=1e-12):
                    mism.append(dict(what='op %d: %s signal(%s, %d)' % (j, case['sig'], op[1], op[2]), impl=v, model=b2f(mf['value'])))
        return mism
    for j, r in enumerate(real['results']):
        mf = outs_f[hdr + j]
        tally.discrete += 3
        if r['out'] != mf.get('out'):
            mism.append(dict(what='update %d outcome' % j, impl=r['out'], model=mf.get('out')))
            continue
        if r['warmup'] != mf.get('warmup'):
            mism.append(dict(what='update %d warmup' % j, impl=r['warmup'], model=mf.get('warmup')))
        for si, (si_r, si_m) in enumerate(zip(r['signals'], mf.get('signals', []))):
            if si_r['assets'] != sorted(si_m['assets']):
                mism.append(dict(what='update %d signal %d tracked assets' % (j, si), impl=si_r['assets'], model=sorted(si_m['assets'])))
            bi = sorted((k, [f2b(x) for x in v]) for k, v in si_r['buffers'])
            bm = sorted(('%s_%s' % (a, l), list(items)) for a, l, items in si_m['buffers'])
            if bi != bm:
                mism.append(dict(what='update %d signal %d buffers' % (j, si), impl=si_r['buffers'][:3],
                                 model=[(a, l, [b2f(x) for x in items]) for a, l, items in si_m['buffers'][:3]]))
    return mism


# ---------------------------------------------------------------------------------------------
# oracle: the definitions over the trailing window of the supplied (accepted) prices

def close(a, b):
    if math.isnan(a) or math.isnan(b):
        return math.isnan(a) and math.isnan(b)
    return abs(a - b) <= 1e-9 * max(1.0, abs(a), abs(b))


def definition(sig, window_prices, n):
    xs = [F(x) for x in window_prices]
    if sig == 'mom':
        w = xs[-(n + 1):]
        return 0.0 if len(w) < 2 else float(w[-1] / w[0] - 1)
    if sig == 'sma':
        w = xs[-n:] if n > 0 else []
        return float('nan') if not w else float(sum(w) / len(w))
    w = xs[-(n + 1):]
    rs = [b / a - 1 for a, b in zip(w, w[1:])]
    if not rs:
        return 0.0
    m = sum(rs) / len(rs)
    var = sum((r - m) ** 2 for r in rs) / len(rs)
    return math.sqrt(float(var)) * math.sqrt(252)


def oracle_c16(case, real):
    out = []
    if case['kind'] == 'stream':
        streams = collections.defaultdict(list)
        for j, (op, r) in enumerate(zip(case['ops'], real['results'])):
            if op[0] == 'append':
                if op[2] <= 0:
                    if r['out'] != 'ValueError':
                        out.append(dict(what='non-positive price %r accepted' % op[2], key='nonpositive-accepted'))
                    continue
                if r['out'] != 'ok':
                    out.append(dict(what='append refused: %s' % r['out'], key='append-refused'))
                    continue
                streams[op[1]].append(op[2])
                for lb in case['lookbacks']:
                    k = bump(case['sig'], lb)
                    got = r['bufs'].get(str(k))
                    want = streams[op[1]][-k:] if k > 0 else []
                    if got != want:
                        out.append(dict(what='window (%s, %d) holds %r, the last %d supplied prices are %r' % (op[1], lb, got, k, want),
                                        key='window'))
            else:
                if op[1] not in streams and op[1] not in case['assets'] or op[2] not in case['lookbacks']:
                    continue
                if r['out'] != 'ok':
                    out.append(dict(what='signal(%s, %d) raised %s' % (op[1], op[2], r['out']), key='call-raised'))
                    continue
                want = definition(case['sig'], streams[op[1]], op[2])
                if not close(r['value'], want):
                    out.append(dict(what='%s(%s, %d) = %r after %d prices; definition gives %r' % (
                        case['sig'], op[1], op[2], r['value'], len(streams[op[1]]), want), key='definition'))
        return out
    if case['kind'] == 'coll2':
        n = len(case['signals'])
        tracked = [set(u) for u in real['init_universes']]
        seen = [collections.defaultdict(list) for _ in range(n)]
        for j, ((t, prices), r) in enumerate(zip(case['days'], real['results'])):
            if r['out'] != 'ok':
                return out
            for i, ((k, lbs), s_) in enumerate(zip(case['signals'], r['signals'])):
                tracked[i] |= set(r['universes'][i])
                for a in tracked[i]:
                    seen[i][a].append(prices[a])
                if s_['assets'] != sorted(tracked[i]):
                    out.append(dict(what='signal %d tracks %r, members of its universe so far %r' % (i, s_['assets'], sorted(tracked[i])), key='tracked-assets'))
                bufs = dict((key, v) for key, v in s_['buffers'])
                for a in tracked[i]:
                    for lb in lbs:
                        kk = bump(k, lb)
                        got = bufs.get('%s_%s' % (a, kk))
                        want = seen[i][a][-kk:]
                        if got != want:
                            out.append(dict(what='update %d: signal %d buffer (%s, %d) = %r, expected the last %d closes since its entry %r' % (
                                j, i, a, lb, got, kk, want), key='cadence'))
        return out
    # collection: one observation per tracked asset per update, an asset entering later starts empty
    seen = collections.defaultdict(list)
    tracked = set(real['init_universe'])
    ok_updates = 0
    for j, ((t, prices), r) in enumerate(zip(case['days'], real['results'])):
        if r['out'] != 'ok':
            return out          # a non-positive/NaN price stops the update: outside the quantifier
        ok_updates += 1
        tracked |= set(r['universe'])
        for a in tracked:
            seen[a].append(prices[a])
        if r['warmup'] != ok_updates:
            out.append(dict(what='warmup %r after %d updates' % (r['warmup'], ok_updates), key='warmup'))
        for (k, lbs), s in zip(case['signals'], r['signals']):
            if s['assets'] != sorted(tracked):
                out.append(dict(what='signal tracks %r, universe members so far %r' % (s['assets'], sorted(tracked)), key='tracked-assets'))
            bufs = dict((key, v) for key, v in s['buffers'])
            for a in tracked:
                for lb in lbs:
                    kk = bump(k, lb)
                    got = bufs.get('%s_%s' % (a, kk))
                    want = seen[a][-kk:]
                    if got != want:
                        out.append(dict(what='update %d: buffer (%s, %d) = %r, expected the last %d closes since entry %r' % (
                            j, a, lb, got, kk, want), key='cadence'))
    return out


def nontrivial(case, real):
    if case['kind'] == 'stream':
        return sum(1 for op in case['ops'] if op[0] == 'append') >= 3
    return len(case['days']) >= 3


def run(prop, tier, seed, n_cases, corpus=()):
    rng = rng_for(seed, 'K5', tier)
    cases = list(corpus) + [gen_case(rng) for _ in range(n_cases)]
    reals = [execute(c) for c in cases]
    lines, spans = [], []
    for c, r in zip(cases, reals):
        ls_, hdr = model_lines(c, r)
        spans.append((len(lines), len(ls_), hdr))
        lines += ls_
    outs_f = run_driver_json('k5', 'float', lines)
    tally, stats, hist = Tally(), collections.Counter(), collections.Counter()
    mism, oracle = [], []
    for i, (c, r) in enumerate(zip(cases, reals)):
        off, n, hdr = spans[i]
        of = outs_f[off:off + n]
        hist['kind:' + c['kind']] += 1
        if c['kind'] == 'stream':
            hist['sig:' + c['sig']] += 1
            stats['ops'] += len(c['ops'])
            if any(x['out'] == 'ValueError' for x in r['results']):
                hist['stream:refused-price'] += 1
            if any(x['out'] == 'KeyError' for x in r['results']):
                hist['stream:unknown-buffer'] += 1
            if any(op[0] == 'call' and x.get('value') == 0.0 for op, x in zip(c['ops'], r['results'])):
                hist['stream:warming-up-zero'] += 1
        elif c['kind'] == 'coll2':
            stats['ops'] += len(c['days'])
        else:
            stats['ops'] += len(c['days'])
            if 'dynamic' in c['universe']:
                hist['coll:dynamic'] += 1
                if r['results'] and sorted(r['results'][-1]['universe']) != sorted(r['init_universe']):
                    hist['coll:asset-entered-later'] += 1
        for x in (compare(c, r, of, of, hdr, tally) if c['kind'] != 'coll2' else []):
            x['case_index'] = i
            mism.append(x)
        for f in oracle_c16(c, r):
            f['case_index'] = i
            oracle.append(f)
    stats['cases'] = len(cases)
    stats['corpus_cases'] = len(corpus)
    return dict(cases=cases, reals=reals, mismatches=mism, oracle=oracle, stats=stats, tally=tally, hist=hist)
