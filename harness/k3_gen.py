"""K3 case generator: structure-aware, boundary-heavy op sequences for the broker."""
from k3_real import MON, ASSETS, PIDS
from common import hv

TODS = [0, 52199, 52200, 52201, 60000, 70000, 75599, 75600, 75601, 86399]


def gen_price(rng):
    k = rng.random()
    if k < 0.04:
        return rng.choice([0.004, 0.37, 0.01, 0.049, 0.5, 0.25])      # penny prices: considerations that round to 0 or 1
    if k < 0.35:
        return round(rng.uniform(1, 500), 2)
    if k < 0.5:
        return float(rng.randint(1, 400)) + 0.5      # considerations on .5 ties with odd quantities
    if k < 0.6:
        return float(rng.randint(1, 300))
    return hv(rng, rng.uniform(0.5, 800), 'pos', 0.3)


def gen_quote(rng):
    mid = gen_price(rng)
    sp = rng.choice([0.01, 0.5, 1.0, rng.uniform(0.001, 0.4)])
    bid = mid
    ask = mid + sp
    if rng.random() < 0.5:
        bid, ask = mid - sp if mid - sp > 0 else mid, mid if mid - sp > 0 else mid + sp
    k = rng.random()
    if k < 0.12:
        bid, ask = ask, bid          # crossed quote (bid > ask): legal, the fill side is still the handler's ask / bid
    elif k < 0.16:
        ask = bid                    # locked quote
    return bid, ask


def gen_fee(rng):
    k = rng.random()
    if k < 0.3:
        return ['Z']
    if k < 0.55:
        return ['P', 0.001, 0.005]
    if k < 0.65:
        return ['P', rng.choice([0.0, 1.0]), rng.choice([0.0, 1.0])]
    return ['P', rng.random(), rng.random()]


def next_time(rng, now):
    """non-decreasing update times biased to exchange-hours boundaries and weekends"""
    k = rng.random()
    if k < 0.15:
        return now
    if k < 0.25:
        return now + rng.choice([1, 59, 60])
    day = now // 86400
    if k < 0.8:
        d = day + rng.choice([0, 0, 1, 1, 1, 2, 3])
        t = d * 86400 + rng.choice(TODS)
        return t if t >= now else now + rng.choice([1, 3600])
    return now + rng.randrange(0, 3 * 86400)


SUPPORTED = ('USD', 'GBP', 'EUR')       # only steers the generator; the model and the oracle use the list the code itself holds


def gen_currency(rng, p_bad=0.5):
    """a currency code: a supported one, or something close to one — a fragment of some rendering of the list of codes,
    another case, padded, doubled, empty, or simply another code"""
    if rng.random() >= p_bad:
        return rng.choice(SUPPORTED)
    k = rng.random()
    if k < 0.45:
        text = rng.choice([', ', ',', ' ', '/', '']).join(SUPPORTED) if rng.random() < 0.8 else str(list(SUPPORTED))
        i = rng.randrange(0, len(text))
        j = rng.randrange(i, min(len(text), i + 5) + 1)
        c = text[i:j]
        return c if c not in SUPPORTED else c[:-1]
    c = rng.choice(SUPPORTED)
    if k < 0.55:
        return c.lower()
    if k < 0.65:
        return rng.choice([c + ' ', ' ' + c, c + c, c[:2], c[1:], c + 'X'])
    if k < 0.7:
        return ''
    return rng.choice(['XXX', 'JPY', 'CHF', 'usd', 'US$'])


def gen_case(rng, n_ops=None, invalid_rate=0.15, pf_level=True):
    start = MON + rng.randrange(0, 14) * 86400 + rng.choice(TODS)
    funds = rng.choice([0.0, 1e5, 1e6, 2.5e5, -1.0]) if rng.random() < 0.9 else rng.uniform(0, 1e6)
    if funds < 0 and rng.random() < 0.7:
        funds = 1e6
    case = dict(start=start, funds=funds, fee=gen_fee(rng), np_quotes=rng.random() < 0.8, ops=[], tzmix=rng.random() < 0.25)
    case['cur'] = gen_currency(rng, 0.5) if rng.random() < 0.12 else rng.choice(SUPPORTED)
    ops = case['ops']
    if funds < 0 or case['cur'] not in SUPPORTED:
        return case
    now = start
    # shadow state, only to steer the generator towards interesting, mostly-valid ops
    master = funds
    pfs = {}      # pid -> dict(cash=approx, held={asset: qty}, pend=[(asset, qty)])
    quotes = {}
    # symbols are arbitrary strings: some books use lower / mixed case, and symbols that differ in case only
    pool = ASSETS if rng.random() < 0.7 else ['EQ:agg', 'Brk.b', 'EQ:AGG', 'spy']
    twins = rng.random() < 0.25       # several assets quoted identically (equal holdings then have bit-identical values)
    for a in pool[:rng.randint(2, 4)]:
        bid, ask = gen_quote(rng) if not (twins and quotes) else list(quotes.values())[0]
        ops.append(['px', a, bid, ask])
        quotes[a] = (bid, ask)
    for pid in PIDS[:rng.randint(1, 3)]:
        ops.append(['create', pid])
        pfs[pid] = dict(cash=0.0, held={}, pend=[])
        amt = rng.choice([1e4, 5e4, 1e5, 12345.675, master])
        if amt <= master:
            ops.append(['subP', pid, float(amt)])
            master -= amt
            pfs[pid]['cash'] += amt
    n = n_ops if n_ops is not None else rng.randint(20, 55)

    def is_open(t):
        d = t // 86400
        return (d + 3) % 7 <= 4 and 52200 <= t % 86400 < 75600

    for _ in range(n):
        k = rng.random()
        bad = rng.random() < invalid_rate
        pid = rng.choice(list(pfs)) if pfs and not (bad and rng.random() < 0.3) else rng.choice(['9', '1', '2', '3'])
        if k < 0.05:
            amt = rng.choice([-5.0, -0.01]) if bad else hv(rng, rng.choice([0.0, 100.0, 1e5, 0.005, 1234.565]), 'pos')
            ops.append(['subA', amt])
            if amt >= 0:
                master += amt
        elif k < 0.10:
            amt = rng.choice([-5.0, master + 1.0, master * 2 + 1]) if bad else rng.choice([0.0, 10.0, master, master / 2])
            ops.append(['wdA', float(amt)])
            if 0 <= amt <= master:
                master -= amt
        elif k < 0.14:
            p2 = rng.choice(PIDS)
            ops.append(['create', p2])
            if p2 not in pfs:
                pfs[p2] = dict(cash=0.0, held={}, pend=[])
        elif k < 0.24:
            amt = rng.choice([-1.0, master + 0.01, 1e12]) if bad else hv(rng, rng.choice([0.0, 1e3, 5e4, master, master / 3, 0.125]), 'pos')
            ops.append(['subP', pid, float(amt)])
            if pid in pfs and 0 <= amt <= master:
                master -= amt
                pfs[pid]['cash'] += amt
        elif k < 0.32:
            cash = pfs.get(pid, {}).get('cash', 0.0)
            amt = rng.choice([-1.0, abs(cash) * 2 + 1.0, 1e12]) if bad else rng.choice([0.0, 1e2, max(cash, 0.0) / 2, 10.0])
            ops.append(['wdP', pid, float(amt)])
            if pid in pfs and 0 <= amt <= cash:
                master += amt
                pfs[pid]['cash'] -= amt
        elif k < 0.60:
            a = rng.choice(list(quotes)) if rng.random() < 0.97 else 'UUU'
            cur = pfs.get(pid, {}).get('held', {}).get(a, 0) + sum(q for (x, q) in pfs.get(pid, {}).get('pend', []) if x == a)
            r = rng.random()
            if abs(cur) >= 10 ** 5 and r < 0.5:
                q = -cur + rng.choice([1, 2, 3, -1, -2])            # a large holding cut to a residual of a few shares
            elif cur != 0 and r < 0.25:
                q = -cur                                            # close to exactly zero
            elif cur != 0 and r < 0.45:
                q = -cur - (1 if cur > 0 else -1) * rng.choice([1, 7, 50])   # flip through zero in one fill
            else:
                q = hv(rng, rng.choice([1, -1]) * rng.choice([1, 3, 7, 10, 33, 100, 1000]), 'int')
                if rng.random() < 0.04:
                    q = rng.choice([1, -1]) * rng.choice([10 ** 5, 250000, 10 ** 6])
            n_sub = sum(1 for o in ops if o[0] == 'submit')
            dup = rng.randrange(1, n_sub + 1) if n_sub and rng.random() < 0.04 else None
            # the Order's own `commission` attribute (constructor option): the broker charges what its fee model says
            own = rng.choice([1.0, 9.99, 250.0, rng.uniform(0.01, 50.0)]) if rng.random() < 0.08 else None
            ops.append(['submit', pid, a, int(q)] + ([dup, own] if own is not None else [dup] if dup is not None else []))
            if pid in pfs and a != 'UUU':
                pfs[pid]['pend'].append((a, q))
                if twins and rng.random() < 0.5:
                    b_ = rng.choice(list(quotes))
                    if b_ != a:
                        ops.append(['submit', pid, b_, int(q)])      # the same order in an identically quoted asset
                        pfs[pid]['pend'].append((b_, q))
        elif k < 0.70:
            a = rng.choice(list(quotes))
            heldish = [x for p in pfs.values() for x, v in p['held'].items() if v]
            pending = {x for p in pfs.values() for (x, _) in p['pend']}
            if heldish and rng.random() < 0.12:
                # a bad feed: a held asset is quoted negative and the broker is asked to update, then asked again at the
                # very same instant (a retry) — every such request must be refused and change nothing but the clock.
                # Only for assets with no order waiting, so that no fill is ever priced off the bad quote.
                cand = [x for x in heldish if x not in pending]
                if cand:
                    a = rng.choice(cand)
                    good = quotes[a]
                    m = gen_price(rng)
                    ops.append(['px', a, -m, -m + rng.choice([0.0, 0.01, 0.5])])
                    t = next_time(rng, now) if rng.random() < 0.7 else now
                    now = t
                    for _r in range(rng.choice([1, 2, 2, 3])):
                        ops.append(['update', int(t)])
                    ops.append(['px', a, good[0], good[1]])
                    continue
            bid, ask = gen_quote(rng)
            ops.append(['px', a, bid, ask])
            quotes[a] = (bid, ask)
        elif k < 0.90 or not pf_level:
            if bad and rng.random() < 0.5:
                t = now - rng.choice([1, 3600, 86400])      # regressing broker clock (outside C04's quantifier)
            else:
                t = next_time(rng, now)
                now = t
            ops.append(['update', int(t)])
            if is_open(t):
                for p in pfs.values():
                    for (a, q) in p['pend']:
                        p['held'][a] = p['held'].get(a, 0) + q
                        side = quotes[a][1] if q > 0 else quotes[a][0]
                        p['cash'] -= side * q
                    p['pend'] = []
        elif k < 0.93:
            what = rng.choice(['pfcash', 'pfmv', 'pfeq', 'pfdict', 'cash'])
            arg = gen_currency(rng, 0.5) if what == 'cash' else (pid if rng.random() < 0.7 else '9')
            ops.append(['q', what, arg])
        else:
            # portfolio-level API, called directly on broker.portfolios[pid]
            if pid not in pfs:
                continue
            r = rng.random()
            t = now - rng.choice([1, 86400]) if bad and rng.random() < 0.6 else now + rng.choice([0, 0, 1, 60])
            if r < 0.25:
                amt = -3.0 if bad and rng.random() < 0.5 else rng.choice([0.0, 50.0, 1e3])
                ops.append(['pfsub', pid, int(t), amt])
            elif r < 0.5:
                amt = rng.choice([-3.0, 1e13]) if bad and rng.random() < 0.5 else rng.choice([0.0, 5.0])
                ops.append(['pfwd', pid, int(t), amt])
            elif r < 0.62 and pfs[pid]['held']:
                # the portfolio clock moves on (a direct subscription), then a mark stamped before it but not before the
                # position's own clock: must be refused (timestamp earlier than the portfolio's clock)
                a = rng.choice(list(pfs[pid]['held']))
                ops.append(['pfsub', pid, int(now) + 120, 1.0])
                ops.append(['pfmark', pid, a, gen_price(rng), int(now) + rng.choice([0, 30, 119])])
            elif r < 0.8:
                held = list(pfs[pid]['held']) or list(quotes)
                a = rng.choice(held + ['ZZZ'])
                price = rng.choice([-1.0, 0.0]) if bad and rng.random() < 0.6 else gen_price(rng)
                ops.append(['pfmark', pid, a, price, int(t)])
            else:
                a = rng.choice(list(quotes))
                q = rng.choice([1, -1]) * rng.choice([1, 5, 20])
                heldq = [x for x in pfs[pid]['held'] if pfs[pid]['held'][x]]
                closing = False
                if heldq and rng.random() < 0.4:
                    a = rng.choice(heldq)
                    q = -pfs[pid]['held'][a]            # exactly closes the holding (also when the request is an invalid one)
                    closing = True
                price = rng.choice([-1.0, 0.0]) if (bad and rng.random() < 0.5) or (closing and rng.random() < 0.3) else gen_price(rng)
                if rng.random() < 0.3:
                    # a mark ahead of the transaction: the position's clock is then later than the portfolio's
                    ops.append(['pfmark', pid, a, gen_price(rng), int(t) + rng.choice([30, 100])])
                ops.append(['pftxn', pid, a, int(q), int(t), price, rng.choice([0.0, 1.5, rng.uniform(0, 9)])])
                pfs[pid]['held'][a] = pfs[pid]['held'].get(a, 0) + q
            if t > now:
                pass
    return case


def gen_unquoted_case(rng):
    """a held asset loses its quote (a gap in its data) while orders in other, quoted assets are pending: the update still fills
    them.  Judged by the oracle only (a holding marked without a price is outside the model)."""
    start = MON + rng.randrange(0, 5) * 86400 + 52200 + rng.choice([0, 60, 3600])
    case = dict(start=start, funds=1e6, fee=gen_fee(rng), np_quotes=rng.random() < 0.8, ops=[], tzmix=False, cur='USD', oracle_only=True)
    ops = case['ops']
    names = ASSETS[:rng.randint(2, 4)]
    for a in names:
        bid, ask = gen_quote(rng)
        ops.append(['px', a, bid, ask])
    for pid in PIDS[:rng.randint(1, 2)]:
        ops.append(['create', pid])
        ops.append(['subP', pid, 4e5])
    held = rng.choice(names)
    ops.append(['submit', '1', held, rng.choice([1, 10, 100]) * rng.choice([1, -1])])
    t = start + rng.choice([0, 60])
    ops.append(['update', t])
    ops.append(['unpx', held])
    others = [a for a in names if a != held]
    for _ in range(rng.randint(1, 3)):
        ops.append(['submit', rng.choice(['1', '1', '2']) if len([o for o in ops if o[0] == 'create']) > 1 else '1', rng.choice(others),
                    rng.choice([1, 7, 50]) * rng.choice([1, -1])])
    t += rng.choice([60, 3600, 86400])
    ops.append(['update', t])
    if rng.random() < 0.5:
        bid, ask = gen_quote(rng)
        ops.append(['px', held, bid, ask])
        ops.append(['submit', '1', rng.choice(names), rng.choice([1, 5])])
        ops.append(['update', t + 60])
    return case
