"""K3 harness: correspondence of the broker/portfolio/position model with the real code, per property."""
import collections
import json
import os

import k3_check
import k3_gen
import k3_model
import k3_oracle
import k3_real
from common import Tally, rng_for, jsonable

PROJ = dict(C01=('B', k3_check.proj_c01), C02=('B', k3_check.proj_c02), C03=('B', k3_check.proj_c03),
            C04=('A', k3_check.proj_c04), C05=('A', k3_check.proj_c05), C15=('A', k3_check.proj_c15))


def collect_hist(outs, first, last):
    """accumulate hist_new per portfolio over the driver outputs of one step (skipping the `load` reply)."""
    acc = collections.OrderedDict()
    for o in outs[first + 1:last + 1]:
        snap = o.get('snap')
        if not snap:
            continue
        for p in snap['pfs']:
            acc.setdefault(p['id'], []).extend(p['hist_new'])
    return acc


def compare_trace(prop, trace, res_a, res_b, tally, stats):
    """Returns the list of mismatches of `prop`'s projection on one trace."""
    mism = []
    if trace['case'].get('oracle_only'):
        stats['skipped'] += len(trace['steps'])
        return mism
    if trace['new_out'] != 'ok' or res_a['float'][0].get('out') != 'ok':
        if prop == 'C15':
            tally.discrete += 1
            if trace['new_out'] != res_a['float'][0].get('out'):
                mism.append(dict(step=-1, op=['new'], what='broker construction: accepted/refused',
                                 impl=trace['new_out'], model=res_a['float'][0].get('out')))
        return mism
    mode, fn = PROJ[prop]
    res = res_a if mode == 'A' else res_b
    pre = trace['init']
    for i, st in enumerate(trace['steps']):
        span = res['index'][i]
        span_a = res_a['index'][i]
        if span is None:
            if prop == 'C15' and st['op'][0] == 'q':
                stats['skipped'] += 1
            pre = st['post']
            continue
        if st['op'][0] == 'q' and prop != 'C15':
            pre = st['post']
            continue
        first, last = span
        c = k3_check.StepCmp(i, st, pre, res['float'][last], res['rat'][last], tally,
                             collect_hist(res['float'], first, last), collect_hist(res['rat'], first, last))
        disagree = st['op'][0] in ('pfmark', 'pftxn', 'pfsub', 'pfwd') and st['out'] != res['float'][last].get('out')
        if st['op'][0] == 'update' and res is res_b:
            # mode B replays the recorded marks and fills: a recorded input the code accepted but the model refuses (or vice versa)
            recorded = [x['ok'] for x in st['marks'] if x.get('held', True)] + [x['ok'] for x in st['txns']]
            outs_b = [o.get('out') == 'ok' for o in res['float'][first + 2:last + 1]]
            disagree = recorded[:len(outs_b)] != outs_b[:len(recorded)]
        if prop in ('C01', 'C02', 'C03') and disagree:
            stats['validation_disagreement_skipped'] += 1      # accepted/refused differs: that is C15's finding
            pre = st['post']
            continue
        if prop == 'C02':
            fa, la = span_a
            c_a = k3_check.StepCmp(i, st, pre, res_a['float'][la], res_a['rat'][la], tally)
            r = fn(c, c_a)
        else:
            r = fn(c)
        if r == 'skipped':
            stats['skipped'] += 1
        else:
            stats['compared'] += 1
        mism += c.mism
        pre = st['post']
    return mism


def classify(trace, hist):
    """input-distribution histogram (branches of interest hit by this trace)."""
    for st in trace.get('steps', []):
        k = st['op'][0]
        hist['op:' + k] += 1
        if st['out'] != 'ok':
            hist['refused:%s:%s' % (k, st['out'])] += 1
        if k == 'update':
            t = st['op'][1]
            d = t // 86400
            opn = (d + 3) % 7 <= 4 and 52200 <= t % 86400 < 75600
            hist['update:open' if opn else 'update:closed'] += 1
            if t % 86400 in (52200, 75600, 52199, 75599):
                hist['update:boundary-instant'] += 1
            if (d + 3) % 7 > 4:
                hist['update:weekend'] += 1
            if st['txns']:
                hist['update:with-fills'] += 1
                sides = set(x['qty'] < 0 for x in st['txns'])
                if len(sides) == 2:
                    hist['update:mixed-sides-batch'] += 1
            n_pending = sum(len(p['queue']) for p in st['post']['pfs'])
            if not opn and n_pending:
                hist['update:closed-with-pending'] += 1
        for t in st['txns']:
            hist['fill'] += 1
    # flips / closes
    held = {}
    for st in trace.get('steps', []):
        for t in st['txns']:
            if not t['ok']:
                continue
            key = (t['pid'], t['asset'])
            before = held.get(key, 0)
            after = before + t['qty']
            if before != 0 and after == 0:
                hist['position:closed-to-zero'] += 1
            if before * after < 0:
                hist['position:flipped-through-zero'] += 1
            if before == 0 and key in held:
                hist['position:reopened'] += 1
            held[key] = after


def exhaustive_cases(max_len=4):
    """every sequence of at most `max_len` ops over a 14-op alphabet, from a fixed funded one-portfolio state"""
    import itertools
    t_open = k3_real.MON + 52200 + 600        # Monday 14:40
    t_closed = k3_real.MON + 80000            # Monday 22:13
    alphabet = [['subA', 100.0], ['wdA', 50.0], ['wdA', 1e9], ['create', '2'], ['subP', '1', 1000.0], ['subP', '1', -1.0],
                ['wdP', '1', 500.0], ['wdP', '1', 1e9], ['submit', '1', 'AAA', 10], ['submit', '1', 'AAA', -10],
                ['submit', '9', 'AAA', 1], ['update', t_open], ['update', t_closed], ['px', 'AAA', 20.5, 21.0]]
    prefix = [['px', 'AAA', 10.25, 10.75], ['create', '1'], ['subP', '1', 5000.0]]
    out = []
    for n in range(0, max_len + 1):
        for seq in itertools.product(alphabet, repeat=n):
            out.append(dict(start=k3_real.MON + 52200, funds=10000.0, fee=['P', 0.001, 0.005], np_quotes=True,
                            ops=prefix + [list(o) for o in seq]))
    return out


def _execute(case):
    return k3_real.execute(case)


def execute_all(cases):
    if len(cases) < 400:
        return [k3_real.execute(c) for c in cases]
    import multiprocessing
    with multiprocessing.Pool(16) as pool:
        return pool.map(_execute, cases, chunksize=200)


def run(prop, tier, seed, n_cases, corpus=(), exhaustive=False):
    """Generate, execute and compare. Returns dict(mismatches, oracle_findings, stats, tally, hist, samples)."""
    rng = rng_for(seed, 'K3', tier)
    cases = list(corpus)
    n_corpus = len(cases)
    for _ in range(n_cases):
        cases.append(k3_gen.gen_case(rng))
    if prop == 'C04':
        for _ in range(max(40, n_cases // 50)):
            cases.append(k3_gen.gen_unquoted_case(rng))
    n_exh = 0
    if exhaustive:
        ex = exhaustive_cases()
        n_exh = len(ex)
        cases += ex
    traces = execute_all(cases)
    res_a = k3_model.run_models(traces, 'A')
    res_b = k3_model.run_models(traces, 'B')
    tally = Tally()
    stats = collections.Counter()
    hist = collections.Counter()
    mism = []
    oracle = []
    for ti, tr in enumerate(traces):
        classify(tr, hist)
        m = compare_trace(prop, tr, res_a[ti], res_b[ti], tally, stats)
        for x in m:
            x['case_index'] = ti
        mism += m
        for f in k3_oracle.check(prop, tr):
            f['case_index'] = ti
            oracle.append(f)
        stats['steps'] += len(tr.get('steps', []))
    stats['cases'] = len(cases)
    stats['corpus_cases'] = n_corpus
    stats['exhaustive_short_sequences'] = n_exh
    return dict(cases=cases, traces=traces, mismatches=mism, oracle=oracle, stats=stats, tally=tally, hist=hist)
