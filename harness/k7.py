"""K7 harness: whole sessions. Decides C07, C08, C14, C18 and the session-level parts of C09, C16, C19."""
import collections
import datetime as dtm
import json
import math
import multiprocessing
import os
import subprocess
import sys
import tempfile
from fractions import Fraction as F

import k2
import k7_gen
import k7_real
from common import f2b, b2f, cont_match, run_driver_json, Tally, rng_for, scale_of, VERIF

EPOCH = dtm.date(1970, 1, 1)
OPEN, CLOSE = 52200, 75600


# ---------------------------------------------------------------------------------------------
# model

def fee_tokens(fee):
    return ['Z'] if fee[0] == 'Z' else ['P', str(f2b(fee[1])), str(f2b(fee[2]))]


def model_lines(case, rec):
    lines = ['reset']
    parsed = rec.get('parsed') or {}
    toks = ['ds', '1' if case.get('adjust', True) else '0', str(len(parsed))]
    for a, rows in parsed.items():
        toks += [a, str(len(rows))]
        for day, o, c, adj in rows:
            toks += [str(day), k2.num_tok(o), k2.num_tok(c), k2.num_tok(adj)]
    lines.append(' '.join(toks))
    kind = {'buy_and_hold': ['bh'], 'daily': ['daily'], 'end_of_month': ['eom'], 'weekly': ['weekly', case['weekday']]}[case['rebalance']]
    t = ['run', str(case['start']), str(case['end']), '-' if case.get('burn') is None else str(case['burn'])] + kind
    t += ['1' if case['long_only'] else '0', str(f2b(case['param']))] + fee_tokens(case['fee']) + [str(f2b(case['cash']))]
    u = case['universe']
    if 'static' in u:
        t += ['S', str(len(u['static']))] + list(u['static'])
    else:
        t += ['D', str(len(u['dynamic']))]
        for a, e in u['dynamic']:
            t += [a, '-' if e is None else str(e)]
    al = case['alpha']
    if 'fixed' in al:
        t += ['F', str(len(al['fixed']))]
        for a, w in al['fixed']:
            t += [a, str(f2b(w))]
    elif 'single' in al:
        t += ['U', str(f2b(al['single']))]
    else:
        # signal-driven alpha: no whole-run model; a no-trade run of the model with the same signals (signal state does not
        # depend on the alpha model) is used for the signal-cadence correspondence
        t += ['F', '0']
    if case.get('signals'):
        t += ['G', str(len(case['signals']))]
        for k, lbs in case['signals']:
            t += [k, str(len(lbs))] + [str(l) for l in lbs]
    else:
        t += ['-']
    lines.append(' '.join(t))
    return lines


def has_model(case):
    return ('fixed' in case['alpha'] or 'single' in case['alpha']) and not case.get('reserve')


# ---------------------------------------------------------------------------------------------
# independent helpers (calendar, prices) for the oracles

def is_bday(d):
    return (d + 3) % 7 <= 4


def px_table(rec, case):
    rows = {a: sorted(k2.expected_rows(p, case.get('adjust', True))) for a, p in (rec.get('parsed') or {}).items()}

    def px(t, a):
        return k2.latest_observed(rows[a], t) if a in rows else None
    return px


def range_days(case):
    """the Monday-Friday dates of the session's range, from the configuration alone (generative date_range semantics)"""
    s, e = case['start'], case['end']
    if e < s:
        return []
    d, tod = s // 86400, s % 86400
    out = []
    while d * 86400 + tod <= e:
        if is_bday(d):
            out.append(d)
        d += 1
    return out


def mids_at(rec, t):
    """the data handler's mid prices recorded while the event at `t` was being processed"""
    out = {}
    for r in rec.get('reads', []):
        if r[0] == t and r[1] == t and r[3] == 'mid':
            out[r[2]] = r[4]
    return out


def burn_ok(case, t):
    return case.get('burn') is None or t >= case['burn']


# ---------------------------------------------------------------------------------------------
# C08: correspondence with the operational model and the reference; independent Python reference as oracle

def py_reference(case, rec):
    """the documented rules applied independently (port of the Lean L0, written first in exploration)"""
    px = px_table(rec, case)
    sched = set(rec['schedule'])
    w = dict((a, x) for a, x in case['alpha']['fixed'])
    assets_u = list(case['universe']['static'])
    fee = case['fee']
    cash = case['cash']
    hold = collections.OrderedDict()
    pending, fills, eq = [], [], []

    def comm(cons):
        return 0.0 if fee[0] == 'Z' else fee[1] * abs(cons) + fee[2] * abs(cons)

    def fill(t, a, q):
        nonlocal cash
        p = px(t, a)
        if p is None:
            raise LookupError('no price')
        c = comm(round(p * q))
        cash -= p * q + c
        hold[a] = hold.get(a, 0) + q
        if hold[a] == 0:
            del hold[a]
        fills.append((t, a, q, p, c))

    def equity(t):
        tot = 0.0
        for a, q in hold.items():
            p = px(t, a)
            if p is None:
                raise LookupError('no price')
            tot += p * q
        return tot + cash

    def size(t):
        E = equity(t)
        assets = sorted(set(hold) | set(assets_u) | set(w))
        fw = {a: w.get(a, 0.0) for a in assets}
        tgt = {}
        if not assets:
            return []
        if case['long_only']:
            if any(x < 0 for x in fw.values()):
                raise LookupError('negative weight')
            S = math.fsum(fw.values())
            for a in assets:
                A = E * (1.0 - case['param']) * (fw[a] / S if abs(S) > 1e-8 else fw[a])
                p = px(t, a)
                if p is None:
                    raise LookupError('no price')
                tgt[a] = math.floor((A - comm(A)) / p)
        else:
            G = sum(abs(x) for x in fw.values())
            for a in assets:
                A = E * (fw[a] * (case['param'] / G) if G > 1e-8 else fw[a])
                after = A - comm(A)
                tr = math.floor(after) if after >= 0 else math.ceil(after)
                p = px(t, a)
                if p is None:
                    raise LookupError('no price')
                tgt[a] = int(tr / p)
        return [(a, tgt[a] - hold.get(a, 0)) for a in assets if tgt[a] - hold.get(a, 0) != 0]

    days = range_days(case)
    for d in days:
        to, tc = d * 86400 + OPEN, d * 86400 + CLOSE
        if pending:
            for a, q in [x for x in pending if x[1] < 0] + [x for x in pending if x[1] >= 0]:
                fill(to, a, q)
            pending = []
        if to in sched and burn_ok(case, to):
            for a, q in size(to):
                fill(to, a, q)
        if tc in sched and burn_ok(case, tc):
            pending = size(tc)
        if burn_ok(case, tc):
            eq.append((tc, equity(tc)))
    return dict(fills=fills, eq=eq, cash=cash, hold=dict(hold))


def close_f(a, b, rel=1e-9, abs_=1e-6):
    return abs(a - b) <= rel * max(abs(a), abs(b)) + abs_


def cmp_run(case, rec, m, tally, label, scale):
    """implementation record vs one model result dict (operational model output or its 'ref' part)"""
    mism = []
    fi = rec['txns']
    fm = m['fills']
    tally.discrete += 1
    if [(t['time'], t['asset'], t['qty']) for t in fi] != [(x[0], x[1], x[2]) for x in fm]:
        mism.append(dict(what='%s: fills (time, asset, quantity)' % label,
                         impl=[(t['time'], t['asset'], t['qty']) for t in fi][:6], model=[tuple(x[:3]) for x in fm][:6]))
        return mism
    for t, x in zip(fi, fm):
        if not cont_match(t['price'], x[3], None, scale_of(t['price']), tally):
            mism.append(dict(what='%s: fill price %s %s' % (label, t['time'], t['asset']), impl=t['price'], model=b2f(x[3])))
        if not cont_match(t['commission'], x[4], None, scale_of(t['price'] * t['qty']), tally, rel=1e-9):
            mism.append(dict(what='%s: fill commission %s %s' % (label, t['time'], t['asset']), impl=t['commission'], model=b2f(x[4])))
    if not cont_match(rec['cash'], m['cash'], None, scale, tally, rel=1e-11):
        mism.append(dict(what='%s: final cash' % label, impl=rec['cash'], model=b2f(m['cash'])))
    tally.discrete += 1
    if sorted(map(tuple, rec['hold'])) != sorted(map(tuple, m['hold'])):
        mism.append(dict(what='%s: final holdings' % label, impl=rec['hold'], model=m['hold']))
    tally.discrete += 1
    if [t for t, v in rec['equity']] != [t for t, v in m['equity']]:
        mism.append(dict(what='%s: equity dates' % label, impl=len(rec['equity']), model=len(m['equity'])))
    else:
        for (t, v), (_, mv) in zip(rec['equity'], m['equity']):
            if not cont_match(v, mv, None, scale, tally, rel=1e-11):
                mism.append(dict(what='%s: equity at %d' % (label, t), impl=v, model=b2f(mv)))
                break
    return mism


def global_agreement(case, rec, m, tally):
    """whole-run comparison with the operational model (used as `global_model_agreement`; a finding only for C08)"""
    if m is None:
        return None
    if rec['construct'] != m.get('out'):
        return [dict(what='construction outcome', impl=rec['construct'], model=m.get('out'))]
    if rec['construct'] != 'ok':
        return []
    mism = []
    ei = None if rec['err'] is None else [rec['err'][0], rec['err'][1]]
    em = m.get('err')
    if ei != em:
        mism.append(dict(what='run error (event time, class)', impl=ei, model=em))
    scale = scale_of(case['cash']) * 10
    mism += cmp_run(case, rec, m, tally, 'operational model', scale)
    return mism


def check_c08(case, rec, m, tally):
    mism, oracle = [], []
    if 'fixed' not in case['alpha'] or 'static' not in case['universe'] or rec['construct'] != 'ok':
        return mism, oracle, 'skipped'
    scale = scale_of(case['cash']) * 10
    g = global_agreement(case, rec, m, tally)
    mism += g or []
    if rec['err'] is None and m.get('err') is None:
        if m.get('ref') is None:
            mism.append(dict(what='reference specification undefined on an error-free run', impl='ok', model=None))
        else:
            mism += cmp_run(case, rec, m['ref'], tally, 'reference specification', scale)
    # oracle: independent Python reference on the real run
    if rec['err'] is None:
        try:
            ref = py_reference(case, rec)
        except LookupError:
            ref = None
        if ref is None:
            oracle.append(dict(what='run succeeded although the documented rules need an unavailable price', key='rules-undefined'))
        else:
            got = [(t['time'], t['asset'], t['qty']) for t in rec['txns']]
            exp = [(t, a, q) for (t, a, q, p, c) in ref['fills']]
            if got != exp:
                i = next((i for i, (x, y) in enumerate(zip(got, exp)) if x != y), min(len(got), len(exp)))
                oracle.append(dict(what='fills differ from the documented rules at #%d: got %r, rules give %r (%d vs %d fills)' % (
                    i, got[i:i + 2], exp[i:i + 2], len(got), len(exp)), key='fills'))
            else:
                for t, (tt, a, q, p, c) in zip(rec['txns'], ref['fills']):
                    if t['price'] != p:
                        oracle.append(dict(what='fill of %s at %d priced %r, the open price is %r' % (a, tt, t['price'], p), key='fill-price'))
                        break
                    if not close_f(t['commission'], c, abs_=1e-9):
                        oracle.append(dict(what='fill of %s at %d commission %r, fee model gives %r' % (a, tt, t['commission'], c), key='fill-commission'))
                        break
                if not close_f(rec['cash'], ref['cash']):
                    oracle.append(dict(what='final cash %r, rules give %r' % (rec['cash'], ref['cash']), key='cash'))
                if dict(map(tuple, rec['hold'])) != ref['hold']:
                    oracle.append(dict(what='final holdings %r, rules give %r' % (rec['hold'], ref['hold']), key='holdings'))
                if [t for t, v in rec['equity']] != [t for t, v in ref['eq']]:
                    oracle.append(dict(what='equity dates differ from one point per business-day close', key='equity-dates'))
                else:
                    for (t, v), (_, rv) in zip(rec['equity'], ref['eq']):
                        if not close_f(v, rv):
                            oracle.append(dict(what='equity at %d is %r, cash + holdings at the close give %r' % (t, v, rv), key='equity'))
                            break
    return mism, oracle, 'compared'


# ---------------------------------------------------------------------------------------------
# C14: control flow of the session (structure only, never quantities)

def alloc_table_expected(case, rec):
    """model of get_target_allocations applied to the recorded allocation records and equity dates"""
    allocs = [(t // 86400, dict(w)) for t, w in rec['target_allocations']]
    cols = []
    for _, w in rec['target_allocations']:
        for k, _v in w:
            if k not in cols:
                cols.append(k)
    rows = []
    for t, _v in rec['equity']:
        d = t // 86400
        cur = None
        for (da, w) in allocs:
            if da <= d:
                cur = w
        rows.append([d, None if cur is None else [[c, cur.get(c)] for c in cols]])
    if case.get('burn') is not None:
        bd = case['burn'] // 86400
        rows = [r for r in rows if r[0] >= bd]
    return cols, rows


def check_c14(case, rec, m, tally):
    mism, oracle = [], []
    if rec['construct'] != 'ok':
        return mism, oracle, 'skipped'
    days = range_days(case)
    clock = sorted([d * 86400 + OPEN for d in days] + [d * 86400 + CLOSE for d in days])
    closes = [d * 86400 + CLOSE for d in days]
    if [t for t, k in rec['clock']] != clock:
        oracle.append(dict(what='the session clock differs from open/close events on the Monday-Friday dates of [start, end]: extra %r, missing %r' % (
            [t for t, k in rec['clock'] if t not in clock][:4], [t for t in clock if t not in [x for x, k in rec['clock']]][:4]), key='session-clock'))
    oracle += check_schedule(case, rec)
    sched = set(rec['schedule'])
    limit = rec['err'][0] if rec['err'] is not None else None

    def upto(ts_):
        return [t for t in ts_ if limit is None or t <= limit]
    want_alloc = upto([t for t in clock if t in sched and burn_ok(case, t)])
    got_alloc = [a['time'] for a in rec['allocs_tap']]
    if got_alloc != want_alloc:
        extra = [t for t in got_alloc if t not in want_alloc]
        missing = [t for t in want_alloc if t not in got_alloc]
        oracle.append(dict(what='portfolio construction ran at %r; scheduled instants past burn-in are %r (unexpected %r, missing %r)' % (
            got_alloc[:6], want_alloc[:6], extra[:4], missing[:4]), key='rebalance-instants'))
    for a in rec['allocs_tap']:
        if a['orders'] is not None and a['alloc'] is None:
            oracle.append(dict(what='portfolio construction ran at %r (held %r) and returned, but recorded no target allocation' % (a['time'], a['held']),
                               key='allocation-record-missing'))
            break
    for a in rec['allocs_tap']:
        if a['alloc_time'] is not None and a['alloc_time'] != a['time']:
            oracle.append(dict(what='allocation record dated %r for a rebalance at %r' % (a['alloc_time'], a['time']), key='allocation-date'))
    first = want_alloc[0] if want_alloc else None
    for t in rec['txns']:
        if t['time'] % 86400 != OPEN or t['time'] not in clock:
            oracle.append(dict(what='fill at %d is not at a market-open event' % t['time'], key='fill-not-at-open'))
            break
        if first is None or t['time'] < first:
            oracle.append(dict(what='fill at %d precedes the first rebalance %r' % (t['time'], first), key='fill-before-first-rebalance'))
            break
    want_eq = upto([t for t in closes if burn_ok(case, t)])
    got_eq = [t for t, v in rec['equity']]
    if limit is not None and got_eq == want_eq[:-1]:
        want_eq = want_eq[:-1]          # the failing event itself produced no equity point
    if got_eq != want_eq:
        oracle.append(dict(what='equity curve has %d points, business-day closes in [burn-in/start, end] are %d (first difference %r)' % (
            len(got_eq), len(want_eq), next(((a, b) for a, b in zip(got_eq, want_eq) if a != b), None)), key='equity-dates'))
    # each equity value is the account equity marked at that close
    px = px_table(rec, case)
    snaps = {c['time']: c for c in rec['closes']}
    for t, v in rec['equity']:
        c = snaps.get(t)
        if c is None:
            oracle.append(dict(what='equity point at %d without a close snapshot' % t, key='equity-value'))
            break
        if f2b(c['broker_equity']) != f2b(v):
            oracle.append(dict(what='equity point %r differs from get_account_total_equity at that close %r' % (v, c['broker_equity']), key='equity-value'))
            break
        mv = 0.0
        ok = True
        mids = mids_at(rec, t)
        for a, q in c['held']:
            p = mids.get(a)
            if p is None or math.isnan(p):
                ok = False
                break
            mv += p * q
        want_v = c['cash'] + mv + (case.get('reserve') or 0.0)
        if ok and not close_f(v, want_v, rel=1e-9, abs_=1e-6):
            oracle.append(dict(what='equity at %d is %r; cash + holdings valued at that close%s give %r' % (
                t, v, ' + the reserve portfolio' if case.get('reserve') else '', want_v), key='equity-marked-at-close'))
            break
    # the allocation table
    if rec['err'] is None and rec['target_allocations']:
        tbl = rec.get('alloc_table')
        if isinstance(tbl, dict):
            oracle.append(dict(what='get_target_allocations raised %s' % tbl['error'], key='allocation-table'))
        elif tbl is not None:
            cols, rows = alloc_table_expected(case, rec)
            got_rows = [[d, None if all(v is None for c, v in r) else r] for d, r in tbl]
            exp_rows = [[d, None if r is None or all(v is None for c, v in r) else r] for d, r in rows]
            if [d for d, r in got_rows] != [d for d, r in exp_rows]:
                oracle.append(dict(what='allocation table dates %d, equity dates past burn-in %d' % (len(got_rows), len(exp_rows)), key='allocation-table'))
            else:
                for (d, r), (_, e) in zip(got_rows, exp_rows):
                    gr = None if r is None else sorted((c, v) for c, v in r if v is not None)
                    er = None if e is None else sorted((c, v) for c, v in e if v is not None)
                    if gr != er:
                        oracle.append(dict(what='allocation table row %d is %r, the latest rebalance on or before it gives %r' % (d, gr, er),
                                           key='allocation-table'))
                        break
    # correspondence with the session model (structure only)
    status = 'skipped'
    if m is not None and m.get('out') == 'ok' and rec['err'] is None and m.get('err') is None:
        status = 'compared'
        tally.discrete += 3
        am = [t for t, w in m['allocs']]
        if got_alloc != am:
            mism.append(dict(what='rebalance instants', impl=got_alloc[:8], model=am[:8]))
        if got_eq != [t for t, v in m['equity']]:
            mism.append(dict(what='equity dates', impl=len(got_eq), model=len(m['equity'])))
        tbl = rec.get('alloc_table')
        if isinstance(tbl, list) and rec['target_allocations']:
            # dates of the table only: which assets appear in a row depends on what is held (C09's business)
            if [d for d, r in tbl] != [d for d, r in m['table']]:
                mism.append(dict(what='allocation table dates', impl=[d for d, r in tbl][:6], model=[d for d, r in m['table']][:6]))
    return mism, oracle, status


def check_schedule(case, rec):
    """the session's rebalance schedule is the configured kind's schedule over [start, end] (independent calendar, as K1)"""
    import k1
    if rec['construct'] != 'ok' or rec.get('schedule') is None:
        return []
    kind = {'weekly': 'weekly', 'daily': 'daily', 'end_of_month': 'eom', 'buy_and_hold': 'bh'}[case['rebalance']]
    kc = dict(kind=kind, start=case['start'], end=case['end'], wd=case.get('weekday', 'WED'), pre=False)
    out = k1.oracle_c13(kc, dict(out='ok', times=list(rec['schedule']), clock=[t for t, k in rec['clock']]))
    for f in out:
        f['what'] = 'session schedule: ' + f['what']
        f['key'] = 'session-' + f['key']
    return out


def check_not_skipped(case, rec):
    """no scheduled rebalance is silently skipped: at every scheduled instant past burn-in that the clock emitted (up to an
    error, if the run ended in one) the trading system was run"""
    if rec['construct'] != 'ok' or rec.get('schedule') is None:
        return []
    sched = set(rec['schedule'])
    limit = rec['err'][0] if rec['err'] is not None else None
    want = [t for t, k in rec['clock'] if t in sched and burn_ok(case, t) and (limit is None or t <= limit)]
    got = set(a['time'] for a in rec['allocs_tap'])
    missing = [t for t in want if t not in got]
    if missing:
        return [dict(what='the session reached the scheduled rebalance instants %r (of %d) without running the trading system' % (
            missing[:4], len(want)), key='scheduled-rebalance-skipped')]
    return []


# ---------------------------------------------------------------------------------------------
# C07: causality

def cut_market(rng, case, cut_day):
    """market with every row dated after `cut_day` rewritten or removed"""
    mk = {}
    mode = rng.choice(['rewrite', 'remove', 'mixed'])
    for s, rows in case['market'].items():
        out = []
        priced = [(dtm.date.fromisoformat(x[0]) - EPOCH).days for x in rows if x[2] is not None]
        # an asset whose first bar is dated on the cut day itself: in the other world nothing after that bar exists yet
        just_listed = bool(priced) and min(priced) == cut_day and rng.random() < 0.7
        for r in rows:
            d = (dtm.date.fromisoformat(r[0]) - EPOCH).days
            if d <= cut_day:
                out.append(list(r))
            else:
                k = rng.random()
                if just_listed or mode == 'remove' or (mode == 'mixed' and k < 0.4):
                    continue
                f = rng.choice([0.5, 2.0, 1.3, 0.01])
                out.append([r[0]] + [None if x is None else round(x * f * rng.uniform(0.9, 1.1), 4) for x in r[1:]])
        if not out:
            out = [list(rows[0])] if (dtm.date.fromisoformat(rows[0][0]) - EPOCH).days <= cut_day else [[(EPOCH + dtm.timedelta(days=cut_day + 400)).isoformat(), 1.0, 1.0, 1.0]]
        mk[s] = out
    return mk


def check_c07(case, rec, rec2, cut_day):
    oracle = []
    if rec['construct'] != 'ok':
        return oracle
    bad = [(r[0], r[1], r[2]) for r in rec.get('reads', []) if r[0] is not None and r[1] != r[0]]
    if bad:
        oracle.append(dict(what='price read at query time %d while processing the event at %d (asset %s); %d such reads' % (
            bad[0][1], bad[0][0], bad[0][2], len(bad)), key='read-not-at-event-time' if bad[0][1] > bad[0][0] else 'read-at-earlier-time'))
    T = (cut_day + 1) * 86400 - 1
    d1, b1 = k7_real.digest(rec, upto=T)
    d2, b2 = k7_real.digest(rec2, upto=T)
    # the allocation table the session reports (get_target_allocations): rows dated on or before T, cell by cell; a cell
    # without a value is left out, since which all-empty columns exist depends on what is held later
    t1, t2 = rec.get('alloc_table'), rec2.get('alloc_table')
    if isinstance(t1, list) and isinstance(t2, list):
        b1['alloc_table'] = [[d, sorted((c, f2b(v)) for c, v in row if v is not None)] for d, row in t1 if d <= cut_day]
        b2['alloc_table'] = [[d, sorted((c, f2b(v)) for c, v in row if v is not None)] for d, row in t2 if d <= cut_day]
    if d1 != d2 or b1.get('alloc_table') != b2.get('alloc_table'):
        diff = [k for k in b1 if b1[k] != b2[k]]
        detail = ''
        for k in diff:
            if isinstance(b1[k], list):
                i = next((i for i, (x, y) in enumerate(zip(b1[k], b2[k])) if x != y), min(len(b1[k]), len(b2[k])))
                detail = '%s[%d]: %r vs %r' % (k, i, b1[k][i:i + 1], b2[k][i:i + 1])
                break
            detail = '%s: %r vs %r' % (k, b1[k], b2[k])
            break
        oracle.append(dict(what='results dated on or before day %d change when later market data is rewritten: %s' % (cut_day, detail[:300]),
                           key='depends-on-later-data'))
    return oracle


# ---------------------------------------------------------------------------------------------
# C16 / C19 / C09 at session level

def cmp_signals(case, rec, m, tally):
    """final signal state of the session vs the session model (no-trade run): warm-up count, tracked assets, buffers"""
    mism = []
    if m is None or m.get('out') != 'ok' or rec['err'] is not None or m.get('err') is not None or not m.get('signals'):
        return mism, 'skipped'
    days = range_days(case)
    if [t for t, k in rec['clock']] != sorted([d * 86400 + OPEN for d in days] + [d * 86400 + CLOSE for d in days]):
        return mism, 'skipped'      # a different clock is C12's finding; the cadence oracle follows the implementation's clock
    ms = m['signals']
    tally.discrete += 1
    if rec.get('warmup') != ms['warmup']:
        mism.append(dict(what='signals warm-up counter', impl=rec.get('warmup'), model=ms['warmup']))
    names = ['s%d' % i for i in range(len(case['signals']))]
    for n, sm in zip(names, ms['signals']):
        tally.discrete += 2
        if rec['signal_assets'].get(n) != sorted(sm['assets']):
            mism.append(dict(what='assets tracked by signal %s' % n, impl=rec['signal_assets'].get(n), model=sorted(sm['assets'])))
        # which buffers exist and how many observations each holds; the values are judged against the data handler's
        # recorded prices by the cadence oracle (a wrong price is the data source's business, C06)
        bi = [(k, len(v)) for k, v in rec['signal_buffers'].get(n, [])]
        bm = sorted(('%s_%s' % (a, l), len(items)) for a, l, items in sm['buffers'])
        if bi != bm:
            bad = next((i for i, (x, y) in enumerate(zip(bi, bm)) if x != y), min(len(bi), len(bm)))
            mism.append(dict(what='price buffers of signal %s: (key, number of observations) differ at #%d of %d/%d' % (n, bad, len(bi), len(bm)),
                             impl=bi[bad:bad + 1], model=bm[bad:bad + 1]))
    return mism, 'compared'


def check_c16(case, rec):
    oracle = []
    if rec['construct'] != 'ok' or not case.get('signals'):
        return oracle, 'skipped'
    px = px_table(rec, case)
    closes = [t for t, k in rec['clock'] if k == 'market_close']
    limit = rec['err'][0] if rec['err'] is not None else None
    by = collections.defaultdict(list)
    for (now, name, asset, price) in rec['appends']:
        by[(now, name)].append((asset, price))
    u = case['universe']
    tracked = set(u['static']) if 'static' in u else set(a for a, e in u['dynamic'] if e is not None and e <= case['start'])
    names = ['s%d' % i for i in range(len(case['signals']))]
    opens = [t for t, k in rec['clock'] if k != 'market_close']
    for t in opens:
        if any((t, n) in by for n in names):
            oracle.append(dict(what='signals updated at the non-close event %d' % t, key='update-not-at-close'))
            break
    for t in closes:
        if limit is not None and t >= limit:
            break
        if 'dynamic' in u:
            tracked |= set(a for a, e in u['dynamic'] if e is not None and e <= t)
        for n in names:
            got = by.get((t, n), [])
            if sorted(a for a, p in got) != sorted(tracked):
                oracle.append(dict(what='close %d, signal %s: observations for %r, universe members so far %r' % (
                    t, n, sorted(a for a, p in got), sorted(tracked)), key='one-observation-per-asset-per-day'))
                return oracle, 'checked'
            mids = mids_at(rec, t)
            for a, p in got:
                want = mids.get(a)
                if want is None or (math.isnan(want) != math.isnan(p)) or (not math.isnan(want) and f2b(want) != f2b(p)):
                    oracle.append(dict(what='close %d: %s fed %r, the data handler\'s price for that close is %r' % (t, a, p, want),
                                       key='observation-is-the-close'))
                    return oracle, 'checked'
    if rec['err'] is None and rec.get('warmup') != len(closes):
        oracle.append(dict(what='warmup %r after %d closes' % (rec.get('warmup'), len(closes)), key='warmup'))
    return oracle, 'checked'


def check_c19(case, rec):
    oracle = []
    u = case['universe']
    if rec['construct'] != 'ok' or 'dynamic' not in u or 'single' not in case['alpha']:
        return oracle, 'skipped'
    entry = dict((a, e) for a, e in u['dynamic'])
    for a in rec['allocs_tap']:
        t = a['time']
        entered = set(x for x, e in entry.items() if e is not None and e <= t)
        if a['alloc'] is not None:
            keys = [k for k, v in a['alloc']]
            for k, v in a['alloc']:
                if v != 0 and k not in entered:
                    oracle.append(dict(what='rebalance %d: %s has weight %r before its entry %r' % (t, k, v, entry.get(k)), key='weight-before-entry'))
            if entered - set(keys):
                oracle.append(dict(what='rebalance %d: entered assets %r missing from the allocation' % (t, sorted(entered - set(keys))), key='missing-after-entry'))
        for k, q in (a['orders'] or []):
            if k not in entered:
                oracle.append(dict(what='rebalance %d: order for %s before its entry %r' % (t, k, entry.get(k)), key='order-before-entry'))
    # a fill happens at the open after the rebalance that ordered it: the asset must have entered by that rebalance
    reb_times = [a['time'] for a in rec['allocs_tap']]
    for x in rec['txns']:
        prev = [t for t in reb_times if t <= x['time']]
        t0 = prev[-1] if prev else None
        e = entry.get(x['asset'])
        if t0 is None or e is None or e > t0:
            oracle.append(dict(what='fill of %s at %d although its entry %r is after the latest rebalance %r' % (x['asset'], x['time'], e, t0), key='position-before-entry'))
            break
    return oracle, 'checked'


def check_c09(case, rec):
    oracle = []
    if rec['construct'] != 'ok':
        return oracle, 'skipped'
    snaps = sorted(rec['closes'], key=lambda c: c['time'])
    sizer = {s['time']: s for s in rec['sizer']}
    n = 0
    for a in rec['allocs_tap']:
        s = sizer.get(a['time'])
        if s is None or s['target'] is None or a['orders'] is None:
            continue
        tgt = dict((k, q) for k, q in s['target'])
        held = dict((k, q) for k, q in a['held'])
        A = sorted(set(held) | set(a['universe']) | set(k for k, v in (a['alloc'] or [])))
        exp = [[k, tgt.get(k, 0) - held.get(k, 0)] for k in A if tgt.get(k, 0) - held.get(k, 0) != 0]
        if a['orders'] != exp:
            oracle.append(dict(what='rebalance %d: orders %r, target - held = %r' % (a['time'], a['orders'], exp), key='orders'))
        # after the fills (next open), holdings equal the target
        fill_t = a['time'] if a['time'] % 86400 == OPEN else None
        later = [c for c in snaps if c['time'] > a['time']] if fill_t is None else [c for c in snaps if c['time'] >= a['time']]
        if later and (rec['err'] is None or later[0]['time'] < rec['err'][0]):
            got = sorted([k, int(q)] for k, q in later[0]['held'])
            want = sorted([k, q] for k, q in tgt.items() if q != 0)
            n += 1
            if got != want:
                oracle.append(dict(what='after the fills of the rebalance at %d holdings are %r, the target was %r' % (a['time'], got, want), key='reach'))
    return oracle, 'checked' if n else 'skipped'


# ---------------------------------------------------------------------------------------------
# C18: determinism

SUB = r'''
import json, sys
sys.path.insert(0, %r)
import k7_real
case = json.load(open(sys.argv[1]))
rec = k7_real.run_session(case)
print(k7_real.digest(rec)[0])
'''


def sub_digest(args):
    case_path, seed = args
    env = dict(os.environ, PYTHONHASHSEED=str(seed), PYTHONDONTWRITEBYTECODE='1')
    p = subprocess.run([sys.executable, '-c', SUB % os.path.join(VERIF, 'harness'), case_path], capture_output=True, text=True, env=env, timeout=600)
    if p.returncode != 0:
        return 'ERROR ' + p.stderr[-300:]
    return p.stdout.strip().split('\n')[-1]


SUB_BATCH = r'''
import json, sys
sys.path.insert(0, %r)
import k7_real
cases = json.load(open(sys.argv[1]))
print(json.dumps([k7_real.digest(k7_real.run_session(c))[0] for c in cases]))
'''


def batch_fresh_digests(cases, hash_seeds):
    """{hash seed: [digest per case]}: every case run in one fresh interpreter per hash seed (the seeds in parallel)"""
    with tempfile.NamedTemporaryFile('w', suffix='.json', delete=False) as f:
        json.dump(cases, f)
        path = f.name

    def one(hs):
        env = dict(os.environ, PYTHONHASHSEED=str(hs), PYTHONDONTWRITEBYTECODE='1')
        p = subprocess.run([sys.executable, '-c', SUB_BATCH % os.path.join(VERIF, 'harness'), path], capture_output=True, text=True, env=env, timeout=3000)
        if p.returncode != 0:
            from common import Infra
            raise Infra('sub-process run failed: ' + p.stderr[-400:])
        return json.loads(p.stdout.strip().split('\n')[-1])
    try:
        from multiprocessing.pool import ThreadPool
        with ThreadPool(min(8, len(hash_seeds))) as tp:
            return dict(zip(hash_seeds, tp.map(one, hash_seeds)))
    finally:
        os.unlink(path)


def check_c18(case, rec, hash_seeds, rng, fresh=None):
    import shutil
    from qstrader.data.daily_bar_csv import CSVDailyBarDataSource
    from common import ts
    oracle = []
    # baseline: the run in a fresh interpreter (first hash seed); everything else is compared with it
    with tempfile.NamedTemporaryFile('w', suffix='.json', delete=False) as f:
        json.dump(case, f)
        path = f.name
    runs = collections.OrderedDict()
    try:
        if fresh is not None:
            for hs in hash_seeds:
                runs['fresh-interpreter-hashseed-%d' % hs] = fresh[hs]
        else:
            from multiprocessing.pool import ThreadPool
            with ThreadPool(min(8, len(hash_seeds))) as tp:
                for hs, dg in zip(hash_seeds, tp.map(sub_digest, [(path, hs) for hs in hash_seeds])):
                    runs['fresh-interpreter-hashseed-%d' % hs] = dg
    finally:
        os.unlink(path)
    d0 = runs['fresh-interpreter-hashseed-%d' % hash_seeds[0]]
    runs['first-run-of-this-check'] = k7_real.digest(rec)[0]
    # an unrelated session in the same process first: same tickers and dates, different prices and adjustment, own objects
    other = dict(case, adjust=not case.get('adjust', True),
                 market={s_: [[r[0]] + [None if x is None else round(x * 1.7 + 3.0, 4) for x in r[1:]] for r in rows]
                         for s_, rows in case['market'].items()})
    k7_real.run_session(other)
    rec2b = k7_real.run_session(case)
    runs['after-an-unrelated-session-with-the-same-tickers'] = k7_real.digest(rec2b)[0]
    rec2 = k7_real.run_session(case)
    runs['same-process-again'] = k7_real.digest(rec2)[0]
    # one universe object serving two sessions in a row
    try:
        uni_obj = k7_real.make_universe(case['universe'])
        k7_real.run_session(case, universe=uni_obj)
        runs['universe-object-reused-second-session'] = k7_real.digest(k7_real.run_session(case, universe=uni_obj))[0]
    except Exception:
        pass
    d = tempfile.mkdtemp(prefix='qsv_k7_')
    try:
        k2.write_csvs(case['market'], d)
        ds = CSVDailyBarDataSource(d, None, adjust_prices=case.get('adjust', True), csv_symbols=sorted(case['market']))
        syms = ['EQ:' + s for s in case['market']]
        for _ in range(200):         # an unrelated history of queries against the memoised source
            t = case['start'] + rng.randrange(-20 * 86400, 120 * 86400)
            try:
                ds.get_bid(ts(t), rng.choice(syms))
                ds.get_ask(ts(t), rng.choice(syms))
            except Exception:
                pass
        # ... including the session's own instants expressed in other time zones (equal instants hash and compare equal)
        d0_ = case['start'] // 86400
        for k in range(0, 40):
            for tod in (OPEN, CLOSE):
                T = ts((d0_ + k) * 86400 + tod).tz_convert(rng.choice(['America/New_York', 'Asia/Tokyo', 'Europe/London']))
                for a in syms:
                    try:
                        ds.get_bid(T, a)
                        ds.get_ask(T, a)
                    except Exception:
                        pass
        r3 = k7_real.run_session(case, data_dir=d, data_source=ds)
        runs['source-reused-after-queries'] = k7_real.digest(r3)[0]
        r4 = k7_real.run_session(case, data_dir=d, data_source=ds)
        runs['source-reused-second-session'] = k7_real.digest(r4)[0]
    finally:
        shutil.rmtree(d, ignore_errors=True)
    for k, v in runs.items():
        if v.startswith('ERROR'):
            from common import Infra
            raise Infra('sub-process run failed: ' + v)
        if v != d0:
            oracle.append(dict(what='run "%s" differs from the run in a fresh interpreter (digests %s.. vs %s..)' % (k, v[:10], d0[:10]), key='differs:' + k.split('-hashseed')[0]))
    return oracle, len(runs)


# ---------------------------------------------------------------------------------------------

def _exec(case):
    return k7_real.run_session(case)


def _exec_reused(case):
    """the session run on a data-source object that already served a whole session (and so has already been asked
    about, and may remember, every later bar): returns the record of the second session"""
    import shutil
    from qstrader.data.daily_bar_csv import CSVDailyBarDataSource
    d = tempfile.mkdtemp(prefix='qsv_k7_')
    try:
        k2.write_csvs(case['market'], d)
        ds = CSVDailyBarDataSource(d, None, adjust_prices=case.get('adjust', True), csv_symbols=sorted(case['market']))
        k7_real.run_session(case, data_dir=d, data_source=ds)
        return k7_real.run_session(case, data_dir=d, data_source=ds)
    except Exception as e:   # construction of the source itself failed: nothing to compare
        return dict(construct=None, err=['source', type(e).__name__])
    finally:
        shutil.rmtree(d, ignore_errors=True)


def run_many_reused(cases):
    if len(cases) <= 2:
        return [_exec_reused(c) for c in cases]
    with multiprocessing.Pool(min(16, len(cases))) as pool:
        return pool.map(_exec_reused, cases, chunksize=max(1, len(cases) // 64))


def run_many(cases, procs=None):
    procs = procs or min(16, max(1, len(cases)))
    if len(cases) <= 2 or procs == 1:
        return [_exec(c) for c in cases]
    with multiprocessing.Pool(procs) as pool:
        return pool.map(_exec, cases, chunksize=max(1, len(cases) // (procs * 4)))


def classify(case, rec, hist):
    hist['family:' + case.get('family', 'corpus')] += 1
    hist['assets:%d' % len(case['market'])] += 1
    hist['rebalance:' + case['rebalance']] += 1
    hist['long_only' if case['long_only'] else 'long_short'] += 1
    hist['fee:' + case['fee'][0]] += 1
    if case.get('burn') is not None:
        hist['burn-in'] += 1
        if case['burn'] % 86400 == CLOSE and rec.get('schedule') and case['burn'] in rec['schedule']:
            hist['burn-in:exactly-on-a-rebalance'] += 1
    hist['construct:' + rec['construct']] += 1
    if rec['construct'] == 'ok':
        hist['run:' + ('error:' + rec['err'][1] if rec['err'] else 'ok')] += 1
        if rec['txns']:
            hist['run:with-fills'] += 1
        if any(t['qty'] < 0 for t in rec['txns']):
            hist['run:with-sells'] += 1
        if len(rec['allocs_tap']) >= 2:
            hist['run:two-or-more-rebalances'] += 1
        if 'dynamic' in case['universe']:
            ent = [e for a, e in case['universe']['dynamic'] if e is not None]
            if any(e in set(rec['schedule']) for e in ent):
                hist['dynamic:entry-exactly-on-a-rebalance'] += 1
            if any((e - 60) in set(rec['schedule']) for e in ent):
                hist['dynamic:entry-one-minute-after-a-rebalance'] += 1


def nontrivial(case, rec):
    return rec['construct'] == 'ok' and bool(rec['txns'])


FAMILY = dict(C08='fixed', C14='any', C07='any', C18='any', C16='signal', C19='dynamic', C09='any', C13='any')


def run_batch(prop, tier, rng, cases, n_corpus):
    reals = run_many(cases)
    # model runs (one driver process)
    lines, spans = [], []
    for c, r in zip(cases, reals):
        ls_ = model_lines(c, r) if r['construct'] is not None and r.get('parsed') is not None else None
        if ls_ is None and has_model(c) and r.get('parsed') is None:
            # construction failed before the market was read back: still ask the model about construction
            r2 = dict(r, parsed={})
            ls_ = model_lines(c, r2)
        spans.append(None if ls_ is None else (len(lines), len(ls_)))
        lines += ls_ or []
    outs = run_driver_json('k7', 'float', lines, timeout=3000) if lines else []
    tally, stats, hist = Tally(), collections.Counter(), collections.Counter()
    mism, oracle = [], []
    pairs = []
    if prop == 'C07':
        cuts, cases2 = [], []
        for c, r_ in zip(cases, reals):
            d0, d1 = c['start'] // 86400, c['end'] // 86400
            cut = rng.randrange(d0 - 2, d1 + 1)
            fill_days = sorted(set(t['time'] // 86400 for t in (r_.get('txns') or [])))
            if fill_days and rng.random() < 0.3:
                cut = rng.choice(fill_days)      # the future starts right after a day on which orders were filled
            sp = [d for d in c.get('spike_days', []) if d0 - 2 <= d <= d1]
            if sp and rng.random() < 0.7:
                cut = rng.choice(sp)          # the later data start right after a one-bar jump
            # an asset whose first priced bar lies inside the range: the future starts shortly before its listing
            firsts = []
            for rows in c['market'].values():
                priced = [(dtm.date.fromisoformat(x[0]) - EPOCH).days for x in rows if x[2] is not None]
                if priced and d0 < priced[0] <= d1:
                    firsts.append(priced[0])
            if firsts and rng.random() < 0.6:
                cut = max(d0 - 2, rng.choice(firsts) - rng.choice([0, 0, 0, 1, 1, 2, 3]))     # 0: the listing day is the last known day
            cuts.append(cut)
            cases2.append(dict(c, market=cut_market(rng, c, cut)))
        reals2 = run_many(cases2)
        n3 = len(cases) if tier == 'thorough' else min(len(cases), 120)
        reals3 = run_many_reused(cases[:n3]) + [None] * (len(cases) - n3)
        pairs = list(zip(cuts, reals2, reals3))
    for i, (c, r) in enumerate(zip(cases, reals)):
        classify(c, r, hist)
        m_raw = outs[spans[i][0] + spans[i][1] - 1] if spans[i] is not None else None
        m = m_raw if has_model(c) else None       # signal-driven alpha: the model run is a no-trade run, used for signals only
        g = global_agreement(c, r, m, Tally()) if m is not None else None
        if g is not None:
            stats['global_model_runs'] += 1
            if not g:
                stats['global_model_agreement'] += 1
        mm, oo, status = [], [], 'checked'
        if prop == 'C08':
            mm, oo, status = check_c08(c, r, m, tally)
        elif prop == 'C14':
            mm, oo, status = check_c14(c, r, m, tally)
        elif prop == 'C13':
            oo = check_schedule(c, r) + check_not_skipped(c, r)
        elif prop == 'C07':
            cut, r2, r3 = pairs[i]
            oo = check_c07(c, r, r2, cut)
            stats['paired_runs'] += 1
            if r3 is not None and r3.get('construct') is not None and r['construct'] == 'ok':
                stats['runs_on_a_source_that_already_served_a_session'] += 1
                T = (cut + 1) * 86400 - 1
                for upto, lab in ((T, 'up to day %d' % cut), (None, 'of the whole run')):
                    d1, b1 = k7_real.digest(r, upto=upto)
                    d3, b3 = k7_real.digest(r3, upto=upto)
                    if d1 != d3:
                        diff = [k for k in b1 if b1[k] != b3.get(k)]
                        oo.append(dict(what='results %s differ when the data source has already served a session over the later bars (%s)' % (
                            lab, ', '.join(diff)[:200]), key='depends-on-later-data-already-read'))
                        break
            stats['reads_checked'] += len(r.get('reads', []))
        elif prop == 'C18':
            if i == 0:
                c18_seeds = [rng.randrange(1, 10 ** 6) for _ in range(6 if tier == 'quick' else 10)]
                c18_fresh = batch_fresh_digests(cases, c18_seeds)
            if i < (24 if tier == 'quick' else 10 ** 9):
                # in-process relations (another session first, repeats, a re-used data source) and the fresh interpreters
                oo, nruns = check_c18(c, r, c18_seeds, rng, fresh={hs: c18_fresh[hs][i] for hs in c18_seeds})
            else:
                # the fresh-interpreter comparison alone
                d0 = c18_fresh[c18_seeds[0]][i]
                oo, nruns = [], len(c18_seeds) + 1
                runs_ = [('fresh-interpreter-hashseed-%d' % hs, c18_fresh[hs][i]) for hs in c18_seeds] + [('first-run-of-this-check', k7_real.digest(r)[0])]
                for kname, v in runs_:
                    if v != d0:
                        oo.append(dict(what='run "%s" differs from the run in a fresh interpreter (digests %s.. vs %s..)' % (kname, v[:10], d0[:10]),
                                       key='differs:' + kname.split('-hashseed')[0]))
            stats['repeated_runs'] += nruns
        elif prop == 'C16':
            oo, status = check_c16(c, r)
            mm, st2 = cmp_signals(c, r, m_raw, tally) if c.get('signals') else ([], 'skipped')
            stats['signals_' + st2] += 1
        elif prop == 'C19':
            oo, status = check_c19(c, r)
        elif prop == 'C09':
            oo, status = check_c09(c, r)
        stats[status] += 1
        for x in mm:
            x['case_index'] = i
            mism.append(x)
        for f in oo:
            f['case_index'] = i
            oracle.append(f)
    stats['cases'] = len(cases)
    stats['corpus_cases'] = n_corpus
    stats['nontrivial_cases'] = sum(1 for c, r in zip(cases, reals) if nontrivial(c, r))
    return dict(cases=cases, mismatches=mism, oracle=oracle, stats=stats, tally=tally, hist=hist)


BATCH = 1500


def run(prop, tier, seed, n_cases, corpus=()):
    """sessions are generated and judged in batches (records are dropped after each batch to bound memory)"""
    rng = rng_for(seed, 'K7' + prop, tier)
    total = dict(cases=[], mismatches=[], oracle=[], stats=collections.Counter(), tally=Tally(), hist=collections.Counter())
    todo = list(corpus)
    n_corpus = len(todo)
    remaining = n_cases
    first = True
    while first or remaining > 0:
        k = min(BATCH, remaining)
        batch = (todo if first else []) + [k7_gen.gen_case(rng, ('rotation' if prop == 'C18' and j % 2 == 0 else FAMILY[prop])) for j in range(k)]
        if prop in ('C14', 'C09'):
            for j, c_ in enumerate(batch):
                if j % 4 == 3 and 'reserve' not in c_:
                    c_['reserve'] = rng.choice([250000.0, 1000.0, 123456.78])
        remaining -= k
        r = run_batch(prop, tier, rng, batch, n_corpus if first else 0)
        first = False
        off = len(total['cases'])
        # keep the cases of findings only (plus the last one as a sample)
        keep = sorted(set(x['case_index'] for x in r['mismatches'] + r['oracle']))
        remap = {}
        for ci in keep:
            remap[ci] = len(total['cases'])
            total['cases'].append(r['cases'][ci])
        for x in r['mismatches']:
            x['case_index'] = remap[x['case_index']]
            total['mismatches'].append(x)
        for x in r['oracle']:
            x['case_index'] = remap[x['case_index']]
            total['oracle'].append(x)
        total['stats'].update(r['stats'])
        total['hist'].update(r['hist'])
        for kk, vv in r['tally'].as_dict().items():
            pass
        total['tally'].bit_exact += r['tally'].bit_exact
        total['tally'].tolerance += r['tally'].tolerance
        total['tally'].near_disc += r['tally'].near_disc
        total['tally'].discrete += r['tally'].discrete
        total['sample'] = r['cases'][-1] if r['cases'] else total.get('sample')
        if len(total['oracle']) + len(total['mismatches']) > 50:
            break
    total['reals'] = None
    return total
