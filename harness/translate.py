#!/venv/bin/python
"""Translator: Python source of qstrader's arithmetic kernels  ->  Lean 4 definitions (`lean/QsGen/*.lean`).

The hand-written model (`lean/QsModel`) is tied to the code by differential correspondence.  For the straight-line
arithmetic core (Position, Transaction, fee models, Portfolio cash arithmetic, the per-asset sizing formulas, the
fill price/consideration of the broker) this module adds a *second, structural* tie that is not sampled: the
functions are translated from `/repo`'s current working tree on every run, and `lean/QsProofs/Tie/*.lean` proves
`Gen.f = Qs.f` (for every argument, on the lawful field carrier).  A changed formula, comparison, branch or order
of mutation therefore breaks a proof obligation deterministically, however rare its trigger.

Method: symbolic execution of the function's AST over a restricted Python subset (assignments to locals and to
`self` attributes, augmented assignment, `if/elif/else`, `return`, `raise`, conditional expressions, arithmetic,
comparisons, calls of other translated methods/properties of the same object, a fixed table of builtins).  The
result is a decision tree whose leaves are (returned value | raised exception class, final attribute values); it is
printed as one Lean term.  Anything outside the subset makes the function *untranslatable* (reported, never
guessed): the structural tie then does not apply to that function and only the correspondence ties it.

Logging and printing statements are no-ops (they cannot influence a modelled value).
"""
import ast
import json
import os
import sys
from fractions import Fraction

REPO = os.environ.get('QS_REPO') or os.environ.get('QSTRADER_REPO', '/repo')
HERE = os.path.dirname(os.path.abspath(__file__))
LEAN = os.path.join(os.path.dirname(HERE), 'lean')


class Untranslatable(Exception):
    pass


# ------------------------------------------------------------------------------------------------------------
# symbolic values: (kind, ...) tuples; every value carries a type in {'num','int','bool','str','none','obj:<T>'}

def V(lean, ty):
    return ('var', lean, ty)


def ty_of(e):
    k = e[0]
    if k == 'var':
        return e[2]
    if k == 'lit':
        return e[2]
    if k == 'bin':
        op, a, b = e[1], e[2], e[3]
        ta, tb = ty_of(a), ty_of(b)
        if ta not in ('num', 'int') or tb not in ('num', 'int'):
            raise Untranslatable('arithmetic on %s, %s' % (ta, tb))
        if op == '/':
            return 'num'
        return 'int' if ta == tb == 'int' else 'num'
    if k == 'neg':
        return ty_of(e[1])
    if k in ('cmp', 'and', 'or', 'not', 'blit'):
        return 'bool'
    if k == 'ite':
        ta, tb = ty_of(e[2]), ty_of(e[3])
        if ta == tb:
            return ta
        if {ta, tb} == {'num', 'int'}:
            return 'num'
        raise Untranslatable('conditional expression of types %s / %s' % (ta, tb))
    if k == 'call':
        return e[3]
    if k == 'struct':
        return 'obj:' + e[1]
    if k == 'tup':
        return 'tup'
    if k == 'lst':
        et = ty_of(e[2])
        if et == 'tup' and [ty_of(x) for x in e[2][1]] in (['str', 'num'], ['str', 'int']):
            return 'dict:num'
        if et == 'tup':
            return 'list:tup'
        return 'list:' + et
    if k == 'nan':
        return 'nan'
    if k == 'flt':
        return 'list:str'
    if k == 'opaque':
        raise Untranslatable('use of a value the translator does not model (%s)' % e[1])
    raise Untranslatable('type of %r' % (e,))


def lit(v):
    if isinstance(v, bool):
        return ('blit', v)
    if isinstance(v, int):
        return ('lit', Fraction(v), 'int')
    if isinstance(v, float):
        if v != v or v in (float('inf'), float('-inf')):
            raise Untranslatable('non-finite literal')
        # the decimal the programmer wrote, not the double: the field carrier reads `0.001` as 1/1000
        return ('lit', Fraction(repr(v)), 'num')
    raise Untranslatable('literal %r' % (v,))


# ------------------------------------------------------------------------------------------------------------
# Lean printing

def p_int(fr):
    n = int(fr)
    return '(%d : Int)' % n if n >= 0 else '(%d : Int)' % n


def as_num(e):
    """Lean term of type α for a value of type num or int."""
    t = ty_of(e)
    if t == 'num':
        return pr(e)
    if t == 'int':
        return '(ofInt %s)' % pr(e)
    raise Untranslatable('number expected, got %s' % t)


def pr(e):
    k = e[0]
    if k == 'var':
        return e[1]
    if k == 'lit':
        fr, t = e[1], e[2]
        if t == 'int':
            return p_int(fr)
        if fr.denominator == 1:
            return '(ofInt %s)' % p_int(fr)
        return '((ofInt %s) / (ofInt %s))' % (p_int(Fraction(fr.numerator)), p_int(Fraction(fr.denominator)))
    if k == 'bin':
        op, a, b = e[1], e[2], e[3]
        if ty_of(e) == 'int':
            return '(%s %s %s)' % (pr(a), op, pr(b))
        return '(%s %s %s)' % (as_num(a), op, as_num(b))
    if k == 'neg':
        return '(-%s)' % pr(e[1])
    if k == 'cmp':
        op, a, b = e[1], e[2], e[3]
        ta, tb = ty_of(a), ty_of(b)
        if ta == 'str' and tb == 'str':
            if op == '==':
                return '(%s == %s)' % (pr(a), pr(b))
            if op == '!=':
                return '(!(%s == %s))' % (pr(a), pr(b))
            raise Untranslatable('string comparison %s' % op)
        if ta == 'int' and tb == 'int':
            sym = {'<': '<', '<=': '≤', '>': '>', '>=': '≥', '==': '=', '!=': '≠'}[op]
            return '(decide (%s %s %s))' % (pr(a), sym, pr(b))
        if ta in ('num', 'int') and tb in ('num', 'int'):
            x, y = as_num(a), as_num(b)
            return {'<': '(lt %s %s)' % (x, y), '<=': '(le %s %s)' % (x, y),
                    '>': '(lt %s %s)' % (y, x), '>=': '(le %s %s)' % (y, x),
                    '==': '(beq %s %s)' % (x, y), '!=': '(!(beq %s %s))' % (x, y)}[op]
        raise Untranslatable('comparison of %s with %s' % (ta, tb))
    if k == 'blit':
        return 'true' if e[1] else 'false'
    if k == 'and':
        return '(' + ' && '.join(pr(x) for x in e[1]) + ')'
    if k == 'or':
        return '(' + ' || '.join(pr(x) for x in e[1]) + ')'
    if k == 'not':
        return '(!%s)' % pr(e[1])
    if k == 'ite':
        t = ty_of(e)
        if t == 'num':
            return '(if %s then %s else %s)' % (pr(e[1]), as_num(e[2]), as_num(e[3]))
        return '(if %s then %s else %s)' % (pr(e[1]), pr(e[2]), pr(e[3]))
    if k == 'call':
        name, args = e[1], e[2]
        return BUILTIN_PRINT[name](args)
    if k == 'tup':
        return '(' + ', '.join((as_num(x) if ty_of(x) in ('num',) else pr(x)) for x in e[1]) + ')'
    if k == 'lst':
        base, elem = e[1], e[2]
        if elem in (ELEM_ID, ELEM_OPT, ELEM_STR):
            return base
        return '(List.map (fun x => %s) %s)' % ((as_num(elem) if ty_of(elem) == 'num' else pr(elem)), base)
    if k == 'flt':
        return '(List.filterMap (fun x => if %s then some %s else none) %s)' % (pr(e[2]), pr(e[3]), e[1])
    if k == 'struct':
        return '{ ' + ', '.join('%s := %s' % (f, (as_num(v) if t == 'num' else pr(v))) for f, t, v in e[2]) + ' }'
    raise Untranslatable('print %r' % (e,))


ELEM_ID = ('tup', [('var', 'x.1', 'str'), ('var', 'x.2', 'num')])
ELEM_OPT = ('tup', [('var', 'x.1', 'str'), ('var', 'x.2', 'optint')])
ELEM_STR = ('var', 'x', 'str')


def _pr_any(a):
    lst = a[0]
    return '(List.any %s (fun x => %s))' % (lst[1], pr(lst[2]))


def _pr_sum(fn):
    def f(a):
        lst = a[0]
        if lst[2] == ('var', 'x.2', 'num'):
            return '(%s (List.map (·.2) %s))' % (fn, lst[1])
        return '(%s (List.map (fun x => %s) %s))' % (fn, as_num(lst[2]), lst[1])
    return f


BUILTIN_PRINT = {
    'anyL': _pr_any,
    'sumNeumaier': _pr_sum('sumNeumaier'),
    'sumNaive': _pr_sum('sumNaive'),
    'lenL': lambda a: '(%s.length : Int)' % a[0][1],
    'feeTotal': lambda a: '(fee.totalCost %s)' % as_num(a[0]),
    'abs_num': lambda a: '(abs %s)' % as_num(a[0]),
    'abs_int': lambda a: '(Int.natAbs %s : Int)' % pr(a[0]),
    'floorI': lambda a: '(floorI %s)' % as_num(a[0]),
    'ceilI': lambda a: '(ceilI %s)' % as_num(a[0]),
    'truncI': lambda a: '(Num.truncI %s)' % as_num(a[0]),
    'floorF': lambda a: '(ofInt (floorI %s))' % as_num(a[0]),
    'truncF': lambda a: '(ofInt (Num.truncI %s))' % as_num(a[0]),
    'ceilF': lambda a: '(ofInt (ceilI %s))' % as_num(a[0]),
    'roundI': lambda a: '(Num.roundHalfEvenI %s)' % as_num(a[0]),
    'round2': lambda a: '(round2 %s)' % as_num(a[0]),
    'isCloseZero': lambda a: '(Num.isCloseZero %s)' % as_num(a[0]),
    'signI': lambda a: '(if (lt %s (ofInt (0 : Int))) then (-1 : Int) else (1 : Int))' % as_num(a[0]),
}


# ------------------------------------------------------------------------------------------------------------
# symbolic execution

NOOP_CALL_ROOTS = ('print',)


def is_noop_stmt(s):
    """logging / printing statements and blocks made only of them"""
    if isinstance(s, ast.Pass):
        return True
    if isinstance(s, ast.Expr):
        v = s.value
        if isinstance(v, ast.Constant):
            return True  # docstring
        if isinstance(v, ast.Call):
            f = v.func
            if isinstance(f, ast.Name) and f.id in NOOP_CALL_ROOTS:
                return True
            if isinstance(f, ast.Attribute) and isinstance(f.value, ast.Attribute) and f.value.attr == 'logger':
                return True
        return False
    if isinstance(s, ast.If):
        return all(is_noop_stmt(x) for x in s.body) and all(is_noop_stmt(x) for x in s.orelse)
    return False


class Ctx:
    def __init__(self, unit, fields, locs, self_name='self'):
        self.unit = unit          # ClassUnit
        self.fields = fields      # attr -> sym
        self.locs = locs          # name -> sym
        self.self_name = self_name
        self.known = set()        # optionals known to hold a value on this path

    def copy(self):
        c = Ctx(self.unit, dict(self.fields), dict(self.locs), self.self_name)
        c.known = set(self.known)
        return c


class ClassUnit:
    """One Python class: its AST methods, the typing of its attributes and the objects it may touch."""

    def __init__(self, path, cls, attr_types, obj_types=None, depth_limit=6):
        src = open(os.path.join(REPO, path)).read()
        tree = ast.parse(src)
        self.path, self.cls = path, cls
        self.methods = {}
        self.consts = {}      # class-level and module-level names bound once to a numeric literal
        for c in tree.body:
            if isinstance(c, ast.Assign) and len(c.targets) == 1 and isinstance(c.targets[0], ast.Name):
                try:
                    self.consts[c.targets[0].id] = ast.literal_eval(c.value)
                except (ValueError, SyntaxError):
                    pass
            if isinstance(c, ast.ClassDef) and c.name == cls:
                for m in c.body:
                    if isinstance(m, ast.FunctionDef):
                        self.methods[m.name] = m
                    if isinstance(m, ast.Assign) and len(m.targets) == 1 and isinstance(m.targets[0], ast.Name):
                        try:
                            self.consts['self.' + m.targets[0].id] = ast.literal_eval(m.value)
                        except (ValueError, SyntaxError):
                            pass
        self.consts = {k: v for k, v in self.consts.items() if isinstance(v, (int, float)) and not isinstance(v, bool)}
        if not self.methods:
            raise Untranslatable('class %s not found in %s' % (cls, path))
        self.attr_types = attr_types          # python attr -> type
        self.expr_subst = {}                  # unparsed expression -> sym: reads of other components' state
        self.call_subst = []                  # [(suffix of the unparsed callee, handler)]: calls into other components
        self.callables = {}                   # python property -> (Lean call text, type): kept as calls, not inlined
        self.base_fields = None
        self.deps = set()
        self.obj_types = obj_types or {}      # type name -> {attr: (lean field, type)}
        self.depth_limit = depth_limit

    def is_property(self, name):
        m = self.methods.get(name)
        return m is not None and any(isinstance(d, ast.Name) and d.id == 'property' for d in m.decorator_list)

    # -- expressions -------------------------------------------------------------------------------------
    def ev(self, n, ctx, depth=0):
        if self.expr_subst and isinstance(n, (ast.Attribute, ast.Subscript, ast.Call)):
            txt = ast.unparse(n)
            if txt in self.expr_subst:
                return self.expr_subst[txt]
        if isinstance(n, ast.Constant):
            if isinstance(n.value, str):
                return ('var', json.dumps(n.value), 'str')
            if n.value is None:
                return ('var', 'none', 'none')
            return lit(n.value)
        if isinstance(n, ast.Name):
            if n.id not in ctx.locs and n.id in self.consts:
                return lit(self.consts[n.id])
            if n.id in ctx.locs:
                if ctx.locs[n.id][0] == 'opaque':
                    raise Untranslatable('use of `%s`, which the translator does not model (%s)' % (n.id, ctx.locs[n.id][1]))
                return ctx.locs[n.id]
            raise Untranslatable('unknown name %s' % n.id)
        if isinstance(n, ast.Attribute) and isinstance(n.value, ast.Name) and n.value.id in ('np', 'numpy', 'math') and n.attr == 'nan':
            return ('nan',)
        if isinstance(n, ast.Attribute):
            if isinstance(n.value, ast.Name) and n.value.id == ctx.self_name:
                if n.attr in ctx.fields:
                    return ctx.fields[n.attr]
                if 'self.' + n.attr in self.consts:
                    return lit(self.consts['self.' + n.attr])
                if self.is_property(n.attr):
                    if n.attr in self.callables and self.base_fields is not None and \
                            all(ctx.fields[k] is self.base_fields[k] for k in self.base_fields):
                        # the object is still as it was on entry: refer to the translated property by name
                        self.deps.add(n.attr)
                        return V(self.callables[n.attr][0], self.callables[n.attr][1])
                    return self.inline_property(n.attr, ctx, depth)
                raise Untranslatable('unknown attribute self.%s' % n.attr)
            base = self.ev(n.value, ctx, depth)
            t = ty_of(base)
            if t.startswith('obj:') and t[4:] in self.obj_types and n.attr in self.obj_types[t[4:]]:
                fld, ft = self.obj_types[t[4:]][n.attr]
                if base[0] == 'struct':
                    for f, _t, v in base[2]:
                        if f == fld:
                            return v
                if callable(fld):
                    return fld(base)
                return V('%s.%s' % (pr(base), fld), ft)
            raise Untranslatable('attribute .%s of %s' % (n.attr, t))
        if isinstance(n, ast.UnaryOp):
            a = self.ev(n.operand, ctx, depth)
            if isinstance(n.op, ast.USub):
                if a[0] == 'lit':
                    return ('lit', -a[1], a[2])
                return ('neg', a)
            if isinstance(n.op, ast.Not):
                return ('not', self.truth(a))
            if isinstance(n.op, ast.UAdd):
                return a
            raise Untranslatable('unary operator')
        if isinstance(n, ast.BinOp):
            ops = {ast.Add: '+', ast.Sub: '-', ast.Mult: '*', ast.Div: '/'}
            if type(n.op) not in ops:
                raise Untranslatable('operator %s' % type(n.op).__name__)
            e = ('bin', ops[type(n.op)], self.ev(n.left, ctx, depth), self.ev(n.right, ctx, depth))
            ty_of(e)
            return e
        if isinstance(n, ast.Compare):
            ops = {ast.Lt: '<', ast.LtE: '<=', ast.Gt: '>', ast.GtE: '>=', ast.Eq: '==', ast.NotEq: '!='}
            parts = []
            left = self.ev(n.left, ctx, depth)
            for op, rn in zip(n.ops, n.comparators):
                right = self.ev(rn, ctx, depth)
                if isinstance(op, (ast.Is, ast.IsNot)) and len(n.ops) == 1 and ty_of(left).startswith('opt') and ty_of(right) == 'none':
                    e_ = ('var', '(%s).isSome' % pr(left), 'bool')
                    ctx.known.add(pr(left))
                    return e_ if isinstance(op, ast.IsNot) else ('not', e_)
                if isinstance(op, (ast.Is, ast.IsNot)):
                    # `x is None` / `x is not None` with a statically typed x
                    tl, tr = ty_of(left), ty_of(right)
                    if 'none' not in (tl, tr) or len(n.ops) != 1:
                        raise Untranslatable('identity comparison')
                    same = (tl == tr == 'none')
                    return ('blit', same if isinstance(op, ast.Is) else not same)
                if isinstance(op, (ast.In, ast.NotIn)) and len(n.ops) == 1:
                    # membership of a string in a list of strings (never containment in another string)
                    if right[0] == 'lst' and right[2] == ELEM_STR and ty_of(left) == 'str':
                        e_ = ('var', '(List.contains %s %s)' % (right[1], pr(left)), 'bool')
                        return e_ if isinstance(op, ast.In) else ('not', e_)
                    raise Untranslatable('membership test in a %s' % (right[0] if right[0] != 'var' else ty_of(right)))
                if type(op) not in ops:
                    raise Untranslatable('comparison %s' % type(op).__name__)

                def unopt(v):
                    if v[0] == 'var' and v[2] == 'optint':
                        if pr(v) not in ctx.known:
                            raise Untranslatable('comparison with a value that may be None')
                        return ('var', '((%s).getD 0)' % pr(v), 'int')
                    return v
                left, right = unopt(left), unopt(right)
                if isinstance(op, (ast.Eq, ast.NotEq)) and len(n.ops) == 1:
                    # a number is never NaN on the carrier: `x == nan`, `(a, b) == (nan, nan)` are False
                    def has_nan(v):
                        return v[0] == 'nan' or (v[0] == 'tup' and any(has_nan(y) for y in v[1]))
                    if has_nan(left) or has_nan(right):
                        return ('blit', isinstance(op, ast.NotEq))
                parts.append(('cmp', ops[type(op)], left, right))
                left = right
            return parts[0] if len(parts) == 1 else ('and', parts)
        if isinstance(n, ast.BoolOp):
            saved = set(ctx.known)
            vals = []
            for v in n.values:
                vals.append(self.truth(self.ev(v, ctx, depth)))
                if not isinstance(n.op, ast.And):
                    ctx.known = set(saved)
            if not (isinstance(n.op, ast.And) and getattr(ctx, 'in_test', False)):
                ctx.known = saved          # what an `and` establishes outlives it only as the test of an `if`
            return ('and' if isinstance(n.op, ast.And) else 'or', vals)
        if isinstance(n, ast.IfExp):
            return ('ite', self.truth(self.ev(n.test, ctx, depth)), self.ev(n.body, ctx, depth), self.ev(n.orelse, ctx, depth))
        if isinstance(n, ast.Call):
            return self.ev_call(n, ctx, depth)
        if isinstance(n, ast.Tuple):
            return ('tup', [self.ev(x, ctx, depth) for x in n.elts])
        if isinstance(n, ast.Subscript):
            base = self.ev(n.value, ctx, depth)
            idx = n.slice
            if base[0] == 'tup' and isinstance(idx, ast.Constant) and isinstance(idx.value, int) and 0 <= idx.value < len(base[1]):
                return base[1][idx.value]
            raise Untranslatable('subscript')
        if isinstance(n, (ast.ListComp, ast.GeneratorExp, ast.DictComp)):
            if len(n.generators) != 1 or len(n.generators[0].ifs) > 1 or n.generators[0].is_async:
                raise Untranslatable('comprehension shape')
            g = n.generators[0]
            src = self.ev(g.iter, ctx, depth)
            if src[0] != 'lst':
                raise Untranslatable('comprehension over a %s' % src[0])
            c2 = ctx.copy()
            self.bind_pattern(g.target, src[2], c2)
            if g.ifs:
                if isinstance(n, ast.DictComp) or src[2] != ELEM_OPT:
                    raise Untranslatable('filtered comprehension shape')
                cond = self.truth(self.ev(g.ifs[0], c2, depth))
                elem = self.ev(n.elt, c2, depth)
                if ty_of(elem) != 'str':
                    raise Untranslatable('filtered comprehension element')
                return ('flt', src[1], cond, elem)
            if isinstance(n, ast.DictComp):
                elem = ('tup', [self.ev(n.key, c2, depth), self.ev(n.value, c2, depth)])
            else:
                elem = self.ev(n.elt, c2, depth)
            out = ('lst', src[1], elem)
            ty_of(out)
            return out
        raise Untranslatable('expression %s' % type(n).__name__)

    def bind_pattern(self, target, value, ctx):
        if isinstance(target, ast.Name):
            ctx.locs[target.id] = value
            return
        if isinstance(target, ast.Tuple) and value[0] == 'tup' and len(target.elts) == len(value[1]):
            for t, v in zip(target.elts, value[1]):
                self.bind_pattern(t, v, ctx)
            return
        raise Untranslatable('binding pattern')

    def truth(self, e):
        if ty_of(e) != 'bool':
            raise Untranslatable('truth value of a %s' % ty_of(e))
        return e

    def ev_call(self, n, ctx, depth):
        f = n.func
        ftxt = ast.unparse(f)
        for pat, handler in self.call_subst:
            if ftxt.endswith(pat):
                return handler(self, n, ctx, depth)
        if isinstance(f, ast.Attribute) and f.attr in ('values', 'items', 'keys') and not n.args and not n.keywords:
            base = self.ev(f.value, ctx, depth)
            if base[0] == 'lst' and base[2] in (ELEM_ID, ELEM_OPT):
                k_, v_ = base[2][1]
                return ('lst', base[1], {'values': v_, 'items': base[2], 'keys': k_}[f.attr])
            raise Untranslatable('.%s() of a %s' % (f.attr, base[0]))
        args = [self.ev(a, ctx, depth) for a in n.args]
        kw = {k.arg: self.ev(k.value, ctx, depth) for k in n.keywords}
        name = None
        if isinstance(f, ast.Name):
            name = f.id
        elif isinstance(f, ast.Attribute) and isinstance(f.value, ast.Name) and f.value.id in ('np', 'numpy', 'math'):
            name = f.value.id.replace('numpy', 'np') + '.' + f.attr
        if name is not None:
            return self.builtin(name, args, kw)
        # method of self with a return value
        if isinstance(f, ast.Attribute) and isinstance(f.value, ast.Name) and f.value.id == ctx.self_name \
                and f.attr in self.methods:
            tree = self.run_method(f.attr, args, kw, ctx, depth + 1)
            return self.tree_to_expr(tree, ctx)
        # method of a typed object (e.g. the fee model) given by the unit's table
        if isinstance(f, ast.Attribute):
            base = self.ev(f.value, ctx, depth)
            t = ty_of(base)
            if t.startswith('obj:'):
                tbl = self.obj_types.get(t[4:], {})
                key = f.attr + '()'
                if key in tbl:
                    return tbl[key][0](base, args, kw)
        raise Untranslatable('call of %s' % ast.unparse(f))

    def builtin(self, name, args, kw):
        def one():
            if len(args) != 1 or kw:
                raise Untranslatable('arity of %s' % name)
            return args[0]
        if name == 'abs' or name == 'np.abs' or name == 'np.fabs' or name == 'math.fabs':
            a = one()
            if ty_of(a) == 'int':
                return ('call', 'abs_int', [a], 'int')
            return ('call', 'abs_num', [a], 'num', 'np') if name.startswith('np.') else ('call', 'abs_num', [a], 'num')
        if name in ('floor', 'math.floor'):
            a = one()
            return a if ty_of(a) == 'int' else ('call', 'floorI', [a], 'int')
        if name in ('ceil', 'math.ceil'):
            a = one()
            return a if ty_of(a) == 'int' else ('call', 'ceilI', [a], 'int')
        if name == 'np.floor':
            a = one()
            return ('call', 'floorF', [a], 'num')
        if name == 'np.ceil':
            a = one()
            return ('call', 'ceilF', [a], 'num')
        if name == 'int':
            a = one()
            if ty_of(a) == 'int':
                return a
            # int(np.floor(x)) is the floor itself; int(x) truncates toward zero
            if a[0] == 'call' and a[1] == 'floorF':
                return ('call', 'floorI', a[2], 'int')
            if a[0] == 'call' and a[1] == 'ceilF':
                return ('call', 'ceilI', a[2], 'int')
            if a[0] == 'call' and a[1] == 'truncF':
                return ('call', 'truncI', a[2], 'int')
            return ('call', 'truncI', [a], 'int')
        if name == 'float':
            a = one()
            return a if ty_of(a) == 'num' else ('bin', '*', ('lit', Fraction(1), 'num'), a)
        if name == 'round':
            if len(args) == 1 and not kw:
                a = args[0]
                return a if ty_of(a) == 'int' else ('call', 'roundI', [a], 'int')
            if len(args) == 2 and args[1][0] == 'lit' and args[1][1] == 2:
                return ('call', 'round2', [args[0]], 'num')
            raise Untranslatable('round with these arguments')
        if name == 'np.copysign':
            if len(args) == 2 and args[0][0] == 'lit' and args[0][1] == 1:
                a = args[1]
                if ty_of(a) == 'int':
                    return ('ite', ('cmp', '<', a, ('lit', Fraction(0), 'int')), ('lit', Fraction(-1), 'int'), ('lit', Fraction(1), 'int'))
                return ('call', 'signI', [a], 'int')
            raise Untranslatable('copysign with these arguments')
        if name == 'np.isclose':
            if len(args) == 2 and args[1][0] == 'lit' and args[1][1] == 0 and not kw:
                return ('call', 'isCloseZero', [args[0]], 'bool')
            if len(args) == 2 and not kw and ty_of(args[0]) in ('num', 'int') and ty_of(args[1]) in ('num', 'int'):
                # |a - b| <= atol + rtol * |b| with numpy's defaults (atol is the carrier's `tiny`, rtol = 1e-5)
                a, b = args
                rhs = ('bin', '+', ('var', 'tiny', 'num'), ('bin', '*', ('lit', Fraction(1, 100000), 'num'), ('call', 'abs_num', [b], 'num')))
                return ('cmp', '<=', ('call', 'abs_num', [('bin', '-', a, b)], 'num'), rhs)
            raise Untranslatable('isclose with these arguments')
        if name in ('np.trunc',):
            a = one()
            return ('call', 'truncF', [a], 'num', 'np')
        if name in ('math.trunc',):
            a = one()
            return a if ty_of(a) == 'int' else ('call', 'truncI', [a], 'int')
        if name == 'sorted' and len(args) == 1 and not kw and args[0][0] == 'tup' and len(args[0][1]) == 2 and \
                all(ty_of(x) == 'num' for x in args[0][1]):
            a, b = args[0][1]
            c = ('cmp', '<', b, a)
            return ('tup', [('ite', c, b, a), ('ite', c, a, b)])
        if name == 'any' and len(args) == 1 and args[0][0] == 'lst' and ty_of(args[0][2]) == 'bool':
            return ('call', 'anyL', [args[0]], 'bool')
        if name == 'sum' and len(args) == 1 and args[0][0] == 'lst' and ty_of(args[0][2]) == 'num':
            # CPython's sum() over `float` items is Neumaier-compensated; over numpy.float64 items (results of np.*) it is a left fold
            el = args[0][2]
            npy = el[0] == 'call' and len(el) > 4 and el[4] == 'np'
            return ('call', 'sumNaive' if npy else 'sumNeumaier', [args[0]], 'num')
        if name == 'len' and len(args) == 1 and args[0][0] == 'lst':
            return ('call', 'lenL', [args[0]], 'int')
        if name == 'np.isnan' and len(args) == 1 and ty_of(args[0]) in ('num', 'int'):
            return ('blit', False)            # a carrier element is a number
        if name in ('max', 'min') and len(args) == 2 and not kw:
            a, b = args
            # Python: max(a, b) returns a unless b > a; min(a, b) returns a unless b < a
            c = ('cmp', '>' if name == 'max' else '<', b, a)
            return ('ite', c, b, a)
        raise Untranslatable('call of %s' % name)

    # -- statements --------------------------------------------------------------------------------------
    def run(self, stmts, ctx, depth):
        """-> tree: ('if', cond, t1, t2) | ('ret', value|None, ctx) | ('raise', errname, ctx)"""
        stmts = [s for s in stmts if not is_noop_stmt(s)]
        if not stmts:
            return ('ret', None, ctx)
        s, rest = stmts[0], stmts[1:]
        if isinstance(s, ast.Assign):
            if len(s.targets) != 1:
                raise Untranslatable('multiple assignment')
            val = self.ev(s.value, ctx, depth)
            self.assign(s.targets[0], val, ctx)
            return self.run(rest, ctx, depth)
        if isinstance(s, ast.AugAssign):
            ops = {ast.Add: '+', ast.Sub: '-', ast.Mult: '*', ast.Div: '/'}
            if type(s.op) not in ops:
                raise Untranslatable('augmented operator')
            cur = self.ev(s.target, ctx, depth)
            val = ('bin', ops[type(s.op)], cur, self.ev(s.value, ctx, depth))
            ty_of(val)
            self.assign(s.target, val, ctx)
            return self.run(rest, ctx, depth)
        if isinstance(s, ast.If):
            c = self.truth(self.ev(s.test, ctx, depth))
            if c[0] == 'blit':
                return self.run((list(s.body) if c[1] else list(s.orelse)) + rest, ctx, depth)
            return ('if', c, self.run(list(s.body) + rest, ctx.copy(), depth), self.run(list(s.orelse) + rest, ctx.copy(), depth))
        if isinstance(s, ast.Return):
            return ('ret', None if s.value is None else self.ev(s.value, ctx, depth), ctx)
        if isinstance(s, ast.Raise):
            return ('raise', raised_class(s), ctx)
        if isinstance(s, ast.Expr) and isinstance(s.value, ast.Call):
            f = s.value.func
            if isinstance(f, ast.Attribute) and isinstance(f.value, ast.Name) and f.value.id == ctx.self_name \
                    and f.attr in self.methods:
                args = [self.ev(a, ctx, depth) for a in s.value.args]
                kw = {k.arg: self.ev(k.value, ctx, depth) for k in s.value.keywords}
                sub = self.run_method(f.attr, args, kw, ctx, depth + 1)
                return self.bind(sub, ctx, rest, depth)
            raise Untranslatable('statement call %s' % ast.unparse(f))
        raise Untranslatable('statement %s' % type(s).__name__)

    def bind(self, tree, ctx, rest, depth):
        """continue with `rest` after an inlined call; the callee's attribute writes are kept, its locals dropped"""
        if tree[0] == 'if':
            return ('if', tree[1], self.bind(tree[2], ctx, rest, depth), self.bind(tree[3], ctx, rest, depth))
        if tree[0] == 'raise':
            c2 = ctx.copy()
            c2.fields = dict(tree[2].fields)
            return ('raise', tree[1], c2)
        c2 = ctx.copy()
        c2.fields = dict(tree[2].fields)
        return self.run(rest, c2, depth)

    def assign(self, target, val, ctx):
        if isinstance(target, ast.Name):
            ctx.locs[target.id] = val
            return
        if isinstance(target, ast.Attribute) and isinstance(target.value, ast.Name) and target.value.id == ctx.self_name:
            if target.attr not in self.attr_types:
                raise Untranslatable('assignment to unknown attribute self.%s' % target.attr)
            want = self.attr_types[target.attr]
            got = ty_of(val)
            if want == 'num' and got == 'int':
                pass  # printed through ofInt
            elif want != got:
                raise Untranslatable('self.%s : %s assigned a %s' % (target.attr, want, got))
            ctx.fields[target.attr] = val
            return
        raise Untranslatable('assignment target %s' % ast.unparse(target))

    def run_method(self, name, args, kw, ctx, depth):
        if depth > self.depth_limit:
            raise Untranslatable('inlining depth')
        m = self.methods[name]
        params = [a.arg for a in m.args.args]
        if m.args.vararg or m.args.kwarg or m.args.kwonlyargs:
            raise Untranslatable('signature of %s' % name)
        locs = {}
        static = any(isinstance(d, ast.Name) and d.id == 'staticmethod' for d in m.decorator_list)
        if static:
            params = ['<no self>'] + params
        pos = params[1:]
        defaults = m.args.defaults
        dmap = {}
        for p, d in zip(pos[len(pos) - len(defaults):], defaults):
            dmap[p] = d
        if len(args) > len(pos):
            raise Untranslatable('too many arguments for %s' % name)
        for p, a in zip(pos, args):
            locs[p] = a
        for k, v in kw.items():
            if k not in pos or k in locs:
                raise Untranslatable('keyword %s of %s' % (k, name))
            locs[k] = v
        for p in pos:
            if p not in locs:
                if p not in dmap:
                    raise Untranslatable('missing argument %s of %s' % (p, name))
                locs[p] = self.ev(dmap[p], Ctx(self, {}, {}), depth)
        c = Ctx(self, dict(ctx.fields), locs, params[0] if params else 'self')
        return self.run(list(m.body), c, depth)

    def inline_property(self, name, ctx, depth):
        if depth > self.depth_limit:
            raise Untranslatable('inlining depth')
        tree = self.run_method(name, [], {}, ctx, depth + 1)
        return self.tree_to_expr(tree, ctx)

    def tree_to_expr(self, tree, ctx):
        """a call used as a value: no raise, no attribute write"""
        if tree[0] == 'if':
            return ('ite', tree[1], self.tree_to_expr(tree[2], ctx), self.tree_to_expr(tree[3], ctx))
        if tree[0] == 'raise':
            raise Untranslatable('a raising call used as a value')
        if tree[2].fields != ctx.fields:
            raise Untranslatable('a mutating call used as a value')
        if tree[1] is None:
            raise Untranslatable('call without a value used as a value')
        return tree[1]


# ------------------------------------------------------------------------------------------------------------
# printing trees as Lean definitions

ERR = {'ValueError': '.value', 'KeyError': '.key', 'AttributeError': '.attr', 'TypeError': '.type'}


def pr_tree(tree, leaf, indent):
    pad = '  ' * indent
    if tree[0] == 'if':
        return 'if %s then\n%s  %s\n%selse\n%s  %s' % (pr(tree[1]), pad, pr_tree(tree[2], leaf, indent + 1), pad, pad,
                                                      pr_tree(tree[3], leaf, indent + 1))
    return leaf(tree)


def record_update(selfvar, fieldmap, fields0, fields1, attr_types):
    ups = []
    for attr, (leanf, _t) in fieldmap.items():
        if fields1[attr] is not fields0[attr] and fields1[attr] != fields0[attr]:
            v = fields1[attr]
            ups.append('%s := %s' % (leanf, as_num(v) if attr_types[attr] == 'num' else pr(v)))
    if not ups:
        return selfvar
    return '{ %s with %s }' % (selfvar, ', '.join(ups))


# ------------------------------------------------------------------------------------------------------------
# units

class Fn:
    """one translated function: python method -> Lean definition `Qs.Gen.<ns>.<lean>` and its tie theorem"""

    def __init__(self, py, lean, kind, params=(), ret=None, model=None, hyp=None, model_args=None):
        self.py, self.lean, self.kind = py, lean, kind
        self.params = list(params)      # (python name, type, lean binder name)
        self.ret = ret                  # 'num' | 'int' | 'bool' for kind 'pure'
        self.model = model              # fully qualified model function the tie theorem compares with
        self.hyp = hyp                  # extra hypothesis of the tie theorem (Lean text) or None
        self.model_args = model_args    # argument text for the model side (default: same binders)


def lean_type(t, objs):
    if t == 'num':
        return 'α'
    if t == 'int':
        return 'Int'
    if t == 'bool':
        return 'Bool'
    if t == 'str':
        return 'String'
    if t.startswith('obj:'):
        return objs[t[4:]]
    raise Untranslatable('lean type of %s' % t)


class Unit:
    def __init__(self, ns, path, cls, self_type, self_var, fieldmap, fns, obj_types=None, obj_lean=None, ctor_fields=None,
                 imports=('QsModel.Position',), model_defs=()):
        self.ns, self.path, self.cls = ns, path, cls
        self.self_type, self.self_var = self_type, self_var
        self.fieldmap = fieldmap            # python attr -> (lean field, type)
        self.fns = fns
        self.obj_types = obj_types or {}
        self.obj_lean = obj_lean or {}      # obj type -> Lean type text
        self.ctor_fields = ctor_fields      # for `cls(...)`: ordered list of python __init__ parameter names
        self.imports = imports
        self.model_defs = list(model_defs)  # model definitions the tie tactic may unfold

    def translate(self):
        """-> (list of (Fn, lean def text | None, reason | None))"""
        out = []
        try:
            cu = ClassUnit(self.path, self.cls, {a: t for a, (f, t) in self.fieldmap.items()}, self.obj_types)
        except (Untranslatable, OSError, SyntaxError) as e:
            return [(fn, None, 'class not readable: %s' % e) for fn in self.fns]
        unit = self

        # `cls(...)` constructor calls
        orig_ev_call = cu.ev_call

        def ev_call(n, ctx, depth):
            f = n.func
            if isinstance(f, ast.Name) and f.id == 'cls' and unit.ctor_fields:
                args = [cu.ev(a, ctx, depth) for a in n.args]
                if n.keywords or len(args) != len(unit.ctor_fields):
                    raise Untranslatable('constructor call shape')
                flds = []
                for pyname, v in zip(unit.ctor_fields, args):
                    lf, t = unit.fieldmap[pyname]
                    got = ty_of(v)
                    if got != t and not (t == 'num' and got == 'int'):
                        raise Untranslatable('constructor argument %s : %s given a %s' % (pyname, t, got))
                    flds.append((lf, t, v))
                return ('struct', unit.self_type, flds)
            return orig_ev_call(n, ctx, depth)
        cu.ev_call = ev_call

        for fn in self.fns:
            if fn.kind == 'pure' and not fn.params:
                cu.callables[fn.py] = ('(Qs.Gen.%s.%s %s)' % (self.ns, fn.lean, self.self_var), fn.ret)
        for fn in self.fns:
            cu.deps = set()
            try:
                if fn.py not in cu.methods:
                    raise Untranslatable('method %s.%s not found' % (self.cls, fn.py))
                m = cu.methods[fn.py]
                pyparams = [a.arg for a in m.args.args][1:]
                want = [p[0] for p in fn.params]
                if pyparams[:len(want)] != want:
                    raise Untranslatable('signature of %s is (%s), expected (%s)' % (fn.py, ', '.join(pyparams), ', '.join(want)))
                fields = {a: V('%s.%s' % (self.self_var, f), t) for a, (f, t) in self.fieldmap.items()}
                cu.base_fields = fields
                saved = cu.callables.pop(fn.py, None)      # a function never refers to itself
                args = [V(b, t) for (_n, t, b) in fn.params]
                ctx0 = Ctx(cu, dict(fields), {})
                if fn.kind == 'ctor':
                    ctx0.self_name = 'cls'
                tree = cu.run_method(fn.py, args, {}, ctx0, 0)
                binders = ''
                if fn.kind != 'ctor':
                    binders += ' (%s : %s)' % (self.self_var, self.self_type)
                for (_n, t, b) in fn.params:
                    binders += ' (%s : %s)' % (b, lean_type(t, self.obj_lean))
                attr_types = {a: t for a, (f, t) in self.fieldmap.items()}

                def rec(leaf_tree):
                    return record_update(self.self_var, self.fieldmap, fields, leaf_tree[2].fields, attr_types)

                if fn.kind == 'pure':
                    def leaf(t):
                        if t[0] == 'raise':
                            raise Untranslatable('raise in a pure function')
                        if t[2].fields != fields:
                            raise Untranslatable('attribute write in a pure function')
                        if t[1] is None:
                            raise Untranslatable('no return value')
                        return as_num(t[1]) if fn.ret == 'num' else pr(t[1])
                    rty = lean_type(fn.ret, self.obj_lean)
                elif fn.kind == 'mut':
                    def leaf(t):
                        if t[0] == 'raise':
                            raise Untranslatable('raise in a non-raising mutator')
                        return rec(t)
                    rty = self.self_type
                elif fn.kind == 'mutexc':
                    def leaf(t):
                        if t[0] == 'raise':
                            return '(%s, some %s)' % (rec(t), ERR[t[1]])
                        return '(%s, none)' % rec(t)
                    rty = '%s × Option Err' % self.self_type
                elif fn.kind == 'ctor':
                    def leaf(t):
                        if t[0] == 'raise' or t[1] is None or t[1][0] != 'struct':
                            raise Untranslatable('constructor must return cls(...)')
                        return pr(t[1])
                    rty = self.self_type
                else:
                    raise Untranslatable('kind %s' % fn.kind)
                body = pr_tree(tree, leaf, 1)
                text = 'def %s%s : %s :=\n  %s\n' % (fn.lean, binders, rty, body)
                fn.deps = sorted(cu.deps)
                out.append((fn, text, None))
            except Untranslatable as e:
                fn.deps = []
                out.append((fn, None, str(e)))
            except RecursionError:
                fn.deps = []
                out.append((fn, None, 'recursion limit'))
            finally:
                if fn.kind == 'pure' and not fn.params and fn.py not in cu.callables:
                    cu.callables[fn.py] = ('(Qs.Gen.%s.%s %s)' % (self.ns, fn.lean, self.self_var), fn.ret)
        # a property that could not be translated cannot be referred to: re-translate its users with it inlined
        bad = set(fn.py for fn, text, why in out if text is None)
        if bad and any(set(fn.deps) & bad for fn, text, why in out if text is not None):
            for fn in self.fns:
                pass
            out = [(fn, (None if set(fn.deps) & bad else text), ('depends on an untranslatable property' if set(fn.deps) & bad and text else why))
                   for fn, text, why in out]
        # dependency order
        by_py = {fn.py: (fn, text, why) for fn, text, why in out}
        ordered, seen = [], set()

        def visit(py):
            if py in seen or py not in by_py:
                return
            seen.add(py)
            for d in by_py[py][0].deps:
                visit(d)
            ordered.append(by_py[py])
        for fn in self.fns:
            visit(fn.py)
        return ordered

    def tie_statement(self, fn):
        binders, args = '', []
        if fn.kind != 'ctor':
            binders += ' (%s : %s)' % (self.self_var, self.self_type)
            args.append(self.self_var)
        for (_n, t, b) in fn.params:
            binders += ' (%s : %s)' % (b, lean_type(t, self.obj_lean))
            args.append(b)
        hyp = (' (h : %s)' % fn.hyp) if fn.hyp else ''
        margs = fn.model_args if fn.model_args is not None else ' '.join(args)
        return 'theorem tie_%s_%s%s%s :\n    Qs.Gen.%s.%s %s = %s %s' % (
            self.ns, fn.lean, binders, hyp, self.ns, fn.lean, ' '.join(args), fn.model, margs)


POSITION = Unit(
    ns='Position', path='qstrader/broker/portfolio/position.py', cls='Position',
    self_type='Qs.Position α', self_var='p',
    fieldmap=dict(asset=('asset', 'str'), current_price=('price', 'num'), current_dt=('clock', 'int'),
                  buy_quantity=('buyQ', 'num'), sell_quantity=('sellQ', 'num'), avg_bought=('avgB', 'num'),
                  avg_sold=('avgS', 'num'), buy_commission=('comB', 'num'), sell_commission=('comS', 'num')),
    ctor_fields=['asset', 'current_price', 'current_dt', 'buy_quantity', 'sell_quantity', 'avg_bought', 'avg_sold',
                 'buy_commission', 'sell_commission'],
    obj_types=dict(Txn=dict(asset=('asset', 'str'), quantity=('qty', 'int'), dt=('time', 'int'), price=('price', 'num'),
                            commission=('commission', 'num'))),
    obj_lean=dict(Txn='Qs.Txn α'),
    model_defs=['Qs.Position.net', 'Qs.Position.marketValue', 'Qs.Position.avgPrice', 'Qs.Position.totalBought',
                'Qs.Position.totalSold', 'Qs.Position.netTotal', 'Qs.Position.commission', 'Qs.Position.netInclCommission',
                'Qs.Position.realised', 'Qs.Position.unrealised', 'Qs.Position.totalPnl', 'Qs.Position.updatePrice',
                'Qs.Position.transactBuy', 'Qs.Position.transactSell', 'Qs.Position.transact', 'Qs.Position.openFrom'],
    fns=[
        Fn('net_quantity', 'net', 'pure', ret='num', model='Qs.Position.net'),
        Fn('market_value', 'marketValue', 'pure', ret='num', model='Qs.Position.marketValue'),
        Fn('avg_price', 'avgPrice', 'pure', ret='num', model='Qs.Position.avgPrice'),
        Fn('total_bought', 'totalBought', 'pure', ret='num', model='Qs.Position.totalBought'),
        Fn('total_sold', 'totalSold', 'pure', ret='num', model='Qs.Position.totalSold'),
        Fn('net_total', 'netTotal', 'pure', ret='num', model='Qs.Position.netTotal'),
        Fn('commission', 'commission', 'pure', ret='num', model='Qs.Position.commission'),
        Fn('net_incl_commission', 'netInclCommission', 'pure', ret='num', model='Qs.Position.netInclCommission'),
        Fn('realised_pnl', 'realised', 'pure', ret='num', model='Qs.Position.realised'),
        Fn('unrealised_pnl', 'unrealised', 'pure', ret='num', model='Qs.Position.unrealised'),
        Fn('total_pnl', 'totalPnl', 'pure', ret='num', model='Qs.Position.totalPnl'),
        Fn('update_current_price', 'updatePrice', 'mutexc', params=[('market_price', 'num', 'price'), ('dt', 'int', 't')],
           model='Qs.Position.updatePrice'),
        Fn('_transact_buy', 'transactBuy', 'mut', params=[('quantity', 'num', 'q'), ('price', 'num', 'price'), ('commission', 'num', 'c')],
           model='Qs.Position.transactBuy'),
        Fn('_transact_sell', 'transactSell', 'mut', params=[('quantity', 'num', 'q'), ('price', 'num', 'price'), ('commission', 'num', 'c')],
           model='Qs.Position.transactSell'),
        Fn('transact', 'transact', 'mutexc', params=[('transaction', 'obj:Txn', 't')], model='Qs.Position.transact',
           hyp='p.asset = t.asset'),
        Fn('open_from_transaction', 'openFrom', 'ctor', params=[('transaction', 'obj:Txn', 't')], model='Qs.Position.openFrom'),
    ])

UNITS = [POSITION]


# ------------------------------------------------------------------------------------------------------------
# kernel units: functions whose `self` attributes are plain binders, and "kernels" (the computation a method performs
# up to a designated sink, with calls into other components replaced by parameters)

def raised_class(s):
    """the exception class a `raise` statement names (the error kind of the tie comes from the source, never assumed)"""
    exc = s.exc
    name = None
    if isinstance(exc, ast.Call) and isinstance(exc.func, ast.Name):
        name = exc.func.id
    elif isinstance(exc, ast.Name):
        name = exc.id
    if name not in ERR:
        raise Untranslatable('raise of %s' % (name,))
    return name


class KFn:
    def __init__(self, key, path, cls, py, lean, binders, fields, params, ret, statement, defs, kind='pure', subst=(), sink=None,
                 loop_bind=None, obj_types=None, expr_subst=None, proof=None, components=None):
        self.expr_subst = expr_subst or {}
        self.proof = proof
        self.components = components or []     # [(suffix, statement)]: component-wise obligations (same proof tactic)
        self.key, self.path, self.cls, self.py, self.lean = key, path, cls, py, lean
        self.binders = binders          # [(lean name, lean type)]
        self.fields = fields            # python self attribute -> sym
        self.params = params            # python parameter -> sym
        self.ret = ret                  # 'num' | 'int' | 'dict:num' | 'exc:dict:num' | 'struct'
        self.statement = statement      # tie statement, `GEN` stands for the generated function's full name
        self.defs = defs
        self.kind, self.subst, self.sink, self.loop_bind = kind, list(subst), sink, loop_bind
        self.obj_types = obj_types or {}


def contains(node, pred):
    return any(pred(x) for x in ast.walk(node))


def run_kernel(cu, stmts, ctx, fn, depth=0):
    stmts = [s for s in stmts if not is_noop_stmt(s)]
    if not stmts:
        raise Untranslatable('the sink is not reached')
    s, rest = stmts[0], stmts[1:]
    v = fn.sink(cu, s, ctx)
    if v is not None:
        return ('ret', v, ctx)
    if isinstance(s, ast.For):
        if fn.loop_bind is None or s.orelse:
            raise Untranslatable('loop')
        c2 = ctx.copy()
        cu.bind_pattern(s.target, fn.loop_bind, c2)
        return run_kernel(cu, list(s.body), c2, fn, depth)
    if isinstance(s, (ast.Assign, ast.AugAssign)):
        tgt = s.targets[0] if isinstance(s, ast.Assign) else s.target
        if isinstance(s, ast.Assign) and len(s.targets) != 1:
            raise Untranslatable('multiple assignment')
        try:
            if isinstance(s, ast.Assign):
                val = cu.ev(s.value, ctx, depth)
            else:
                ops = {ast.Add: '+', ast.Sub: '-', ast.Mult: '*', ast.Div: '/'}
                val = ('bin', ops[type(s.op)], cu.ev(s.target, ctx, depth), cu.ev(s.value, ctx, depth))
                ty_of(val)
        except (Untranslatable, KeyError) as e:
            val = ('opaque', str(e))
        if isinstance(tgt, ast.Name):
            ctx.locs[tgt.id] = val
        elif isinstance(tgt, ast.Tuple):
            if val[0] == 'tup' and len(val[1]) == len(tgt.elts) and all(isinstance(e_, ast.Name) for e_ in tgt.elts):
                for e_, v_ in zip(tgt.elts, val[1]):
                    ctx.locs[e_.id] = v_
            else:
                for e_ in ast.walk(tgt):
                    if isinstance(e_, ast.Name):
                        ctx.locs[e_.id] = ('opaque', 'unpacking of a value the translator does not model')
        elif val[0] != 'opaque':
            cu.assign(tgt, val, ctx)
        return run_kernel(cu, rest, ctx, fn, depth)
    if isinstance(s, ast.If):
        try:
            c = cu.truth(cu.ev(s.test, ctx, depth))
        except Untranslatable:
            # a guard on something outside the kernel: allowed only if it cannot lead to the sink
            if contains(s, lambda x: isinstance(x, ast.stmt) and x is not s and fn.sink(cu, x, ctx.copy()) is not None) or \
                    contains(s, lambda x: isinstance(x, ast.For)):
                raise
            # whatever the skipped statement may assign is unknown from here on
            for x in ast.walk(s):
                if isinstance(x, ast.Name) and isinstance(x.ctx, ast.Store):
                    ctx.locs[x.id] = ('opaque', 'assigned under a condition the translator does not model')
                if isinstance(x, ast.Attribute) and isinstance(x.ctx, ast.Store):
                    raise Untranslatable('attribute assigned under a condition the translator does not model')
            return run_kernel(cu, rest, ctx, fn, depth)
        if c[0] == 'blit':
            return run_kernel(cu, (list(s.body) if c[1] else list(s.orelse)) + rest, ctx, fn, depth)
        return ('if', c, run_kernel(cu, list(s.body) + rest, ctx.copy(), fn, depth), run_kernel(cu, list(s.orelse) + rest, ctx.copy(), fn, depth))
    if isinstance(s, ast.Raise):
        return ('raise', raised_class(s), ctx)
    if isinstance(s, ast.Return):
        raise Untranslatable('return before the sink')
    if isinstance(s, ast.Expr):
        return run_kernel(cu, rest, ctx, fn, depth)      # a call for effect cannot rebind a local
    raise Untranslatable('statement %s' % type(s).__name__)


def translate_kfn(fn):
    """-> (lean def text | None, reason | None)"""
    try:
        cu = ClassUnit(fn.path, fn.cls, {a: ty_of(v) for a, v in fn.fields.items()}, fn.obj_types)
        cu.call_subst = list(fn.subst)
        cu.expr_subst = dict(fn.expr_subst)
        if fn.py not in cu.methods:
            raise Untranslatable('method %s.%s not found' % (fn.cls, fn.py))
        m = cu.methods[fn.py]
        pyparams = [a.arg for a in m.args.args][1:]
        if pyparams[:len(fn.params)] != [p for p, _ in fn.params]:
            raise Untranslatable('signature of %s is (%s)' % (fn.py, ', '.join(pyparams)))
        fields = dict(fn.fields)
        cu.base_fields = None
        binders = ''.join(' (%s : %s)' % b for b in fn.binders)
        if fn.kind == 'kernel':
            ctx = Ctx(cu, dict(fields), {p: v for p, v in fn.params})
            for p_, d_ in zip(pyparams[len(pyparams) - len(m.args.defaults):], m.args.defaults):
                ctx.locs.setdefault(p_, ('opaque', 'default argument'))
            for p_ in pyparams:
                ctx.locs.setdefault(p_, ('opaque', 'parameter %s' % p_))
            tree = run_kernel(cu, list(m.body), ctx, fn)
        else:
            ctx = Ctx(cu, dict(fields), {})
            tree = cu.run_method(fn.py, [v for _, v in fn.params], {}, ctx, 0)
        exc = fn.ret.startswith('exc:')
        rt = fn.ret[4:] if exc else fn.ret

        def val(v):
            if v is None:
                raise Untranslatable('no value')
            got = ty_of(v)
            if rt == 'num':
                return as_num(v)
            if rt.startswith('struct'):
                if v[0] != 'struct':
                    raise Untranslatable('the sink is not a constructor call')
                return pr(v)
            if got != rt:
                raise Untranslatable('returns a %s, expected %s' % (got, rt))
            return pr(v)

        def leaf(t):
            if t[0] == 'raise':
                if not exc:
                    raise Untranslatable('raise in a function modelled as total')
                return '(.error %s)' % ERR[t[1]]
            for a in fields:
                if t[2].fields[a] is not fields[a]:
                    raise Untranslatable('attribute write')
            return ('(.ok %s)' % val(t[1])) if exc else val(t[1])
        lt = {'num': 'α', 'int': 'Int', 'dict:num': 'Qs.Weights α', 'struct': 'Qs.Txn α', 'list:str': 'List String', 'str': 'String',
              'struct:Xfer': 'Qs.Broker.Xfer α'}[rt]
        rty = ('Except Err (%s)' % lt) if exc else lt
        body = pr_tree(tree, leaf, 1)
        return 'def %s%s : %s :=\n  %s\n' % (fn.lean.split('.')[-1], binders, rty, body), None
    except Untranslatable as e:
        return None, str(e)
    except (RecursionError, KeyError, IndexError) as e:
        return None, 'translator limit: %s' % type(e).__name__


def _fee_subst(cu, n, ctx, depth):
    # <...>.fee_model.calc_total_cost(asset, quantity, consideration, broker): the fee model is a parameter of the kernel
    if len(n.args) < 3:
        raise Untranslatable('calc_total_cost call shape')
    return ('call', 'feeTotal', [cu.ev(n.args[2], ctx, depth)], 'num')


def _const_subst(sym):
    return lambda cu, n, ctx, depth: sym


def _sizer_sink(cu, s, ctx):
    if isinstance(s, ast.Assign) and len(s.targets) == 1 and isinstance(s.targets[0], ast.Subscript) and \
            isinstance(s.targets[0].value, ast.Name) and s.targets[0].value.id == 'target_portfolio' and isinstance(s.value, ast.Dict) and \
            len(s.value.keys) == 1 and isinstance(s.value.keys[0], ast.Constant) and s.value.keys[0].value == 'quantity':
        try:
            return cu.ev(s.value.values[0], ctx, 0)
        except Untranslatable:
            raise
    return None


def _master_sink(cu, s, ctx):
    """the statement that writes the master cash balance (`self.cash_balances[self.base_currency] += / -= / = ...`)"""
    tgt = s.target if isinstance(s, ast.AugAssign) else (s.targets[0] if isinstance(s, ast.Assign) and len(s.targets) == 1 else None)
    if tgt is None or ast.unparse(tgt) != 'self.cash_balances[self.base_currency]':
        return None
    if isinstance(s, ast.Assign):
        return cu.ev(s.value, ctx, 0)
    ops = {ast.Add: '+', ast.Sub: '-', ast.Mult: '*', ast.Div: '/'}
    if type(s.op) not in ops:
        raise Untranslatable('augmented assignment %s' % type(s.op).__name__)
    return ('bin', ops[type(s.op)], cu.ev(s.target, ctx, 0), cu.ev(s.value, ctx, 0))


def _xfer_sink(method):
    """sink of a broker-to-portfolio transfer: the call `self.portfolios[portfolio_id].<method>(dt, amount)` is remembered, and the
    statement writing the master balance yields (new master balance, amount handed to the portfolio, time handed to it)"""
    def sink(cu, s, ctx):
        if isinstance(s, ast.Expr) and isinstance(s.value, ast.Call) and ast.unparse(s.value.func) == 'self.portfolios[portfolio_id].' + method:
            if len(s.value.args) != 2 or s.value.keywords:
                raise Untranslatable('%s call shape' % method)
            if ctx.fields.get('__pfcall__') is not None:
                raise Untranslatable('the portfolio is credited / debited twice')
            ctx.fields['__pfcall__'] = (cu.ev(s.value.args[0], ctx, 0), cu.ev(s.value.args[1], ctx, 0))
            return None
        m = _master_sink(cu, s, ctx)
        if m is None:
            return None
        call = ctx.fields.get('__pfcall__')
        if call is None:
            raise Untranslatable('the master balance is written before the portfolio is credited / debited')
        if ty_of(call[0]) != 'int' or ty_of(call[1]) not in ('num', 'int'):
            raise Untranslatable('%s(%s, %s)' % (method, ty_of(call[0]), ty_of(call[1])))
        return ('struct', 'Xfer', [('master', 'num', m), ('amount', 'num', call[1]), ('time', 'int', call[0])])
    return sink


def _txn_sink(cu, s, ctx):
    if isinstance(s, ast.Assign) and isinstance(s.value, ast.Call) and isinstance(s.value.func, ast.Name) and s.value.func.id == 'Transaction':
        names = ['asset', 'quantity', 'dt', 'price', 'order_id', 'commission']
        vals = {}
        for nm, a in zip(names, s.value.args):
            vals[nm] = cu.ev(a, ctx, 0)
        for k in s.value.keywords:
            vals[k.arg] = cu.ev(k.value, ctx, 0)
        if sorted(vals) != sorted(names):
            raise Untranslatable('Transaction(...) call shape')
        want = dict(asset='str', quantity='int', dt='int', price='num', order_id='nat', commission='num')
        for k, t in want.items():
            got = ty_of(vals[k])
            if got != t and not (t == 'num' and got == 'int'):
                raise Untranslatable('Transaction %s : %s given a %s' % (k, t, got))
        return ('struct', 'Txn', [('asset', 'str', vals['asset']), ('qty', 'int', vals['quantity']), ('time', 'int', vals['dt']),
                                  ('price', 'num', vals['price']), ('commission', 'num', vals['commission']),
                                  ('orderId', 'nat', vals['order_id'])])
    return None


W = ('lst', 'w', ELEM_ID)
ORDER_OBJ = dict(Order=dict(asset=('asset', 'str'), quantity=('qty', 'int'), order_id=('id', 'nat'),
                            direction=(lambda base: ('ite', ('cmp', '<', V('%s.qty' % pr(base), 'int'), ('lit', Fraction(0), 'int')),
                                                     ('lit', Fraction(-1), 'int'), ('lit', Fraction(1), 'int')), 'int')))
FEE_PARAMS = [('asset', V('asset', 'str')), ('quantity', V('q', 'int')), ('consideration', V('x', 'num'))]
SIZER_DEFS = ['Qs.dwQuantity', 'Qs.lsQuantity', 'Qs.dwNormalise', 'Qs.lsNormalise', 'Qs.FeeModel.totalCost', 'Num.truncI', 'Num.isCloseZero']

KFNS = [
    KFn('PercentFee.totalCost', 'qstrader/broker/fee_model/percent_fee_model.py', 'PercentFeeModel', 'calc_total_cost', 'PercentFee.totalCost',
        binders=[('c', 'α'), ('τ', 'α'), ('asset', 'String'), ('q', 'Int'), ('x', 'α')],
        fields=dict(commission_pct=V('c', 'num'), tax_pct=V('τ', 'num')), params=FEE_PARAMS, ret='num',
        statement='(c τ : α) (asset : String) (q : Int) (x : α) :\n    GEN c τ asset q x = Qs.FeeModel.totalCost (.percent c τ) x',
        defs=['Qs.FeeModel.totalCost']),
    KFn('ZeroFee.totalCost', 'qstrader/broker/fee_model/zero_fee_model.py', 'ZeroFeeModel', 'calc_total_cost', 'ZeroFee.totalCost',
        binders=[('asset', 'String'), ('q', 'Int'), ('x', 'α')], fields={}, params=FEE_PARAMS, ret='num',
        statement='(asset : String) (q : Int) (x : α) :\n    GEN (α := α) asset q x = Qs.FeeModel.totalCost (.zero : Qs.FeeModel α) x',
        defs=['Qs.FeeModel.totalCost']),
    KFn('Broker.checkFunds', 'qstrader/broker/simulated_broker.py', 'SimulatedBroker', '_set_initial_funds', 'Broker.checkFunds',
        binders=[('funds', 'α')], fields={}, params=[('initial_funds', V('funds', 'num'))], ret='exc:num',
        statement='(funds : α) :\n    GEN funds = Qs.Broker.checkFunds funds', defs=['Qs.Broker.checkFunds']),
    KFn('Broker.checkCurrency', 'qstrader/broker/simulated_broker.py', 'SimulatedBroker', '_set_base_currency', 'Broker.checkCurrency',
        binders=[('supported', 'List String'), ('cur', 'String')], fields={}, params=[('base_currency', V('cur', 'str'))], ret='exc:str',
        expr_subst={"settings.SUPPORTED['CURRENCIES']": ('lst', 'supported', ELEM_STR)},
        statement='(supported : List String) (cur : String) :\n    GEN supported cur = Qs.Broker.checkCurrency supported cur',
        defs=['Qs.Broker.checkCurrency']),
    KFn('Broker.subscribeAccount', 'qstrader/broker/simulated_broker.py', 'SimulatedBroker', 'subscribe_funds_to_account',
        'Broker.subscribeAccount', binders=[('master', 'α'), ('amount', 'α')], fields={}, params=[('amount', V('amount', 'num'))],
        ret='exc:num', kind='kernel', sink=_master_sink, expr_subst={'self.cash_balances[self.base_currency]': V('master', 'num')},
        statement='(master amount : α) :\n    GEN master amount = Qs.Broker.subscribeAccountMaster master amount',
        defs=['Qs.Broker.subscribeAccountMaster']),
    KFn('Broker.withdrawAccount', 'qstrader/broker/simulated_broker.py', 'SimulatedBroker', 'withdraw_funds_from_account',
        'Broker.withdrawAccount', binders=[('master', 'α'), ('amount', 'α')], fields={}, params=[('amount', V('amount', 'num'))],
        ret='exc:num', kind='kernel', sink=_master_sink, expr_subst={'self.cash_balances[self.base_currency]': V('master', 'num')},
        statement='(master amount : α) :\n    GEN master amount = Qs.Broker.withdrawAccountMaster master amount',
        defs=['Qs.Broker.withdrawAccountMaster']),
    KFn('Broker.subscribePortfolio', 'qstrader/broker/simulated_broker.py', 'SimulatedBroker', 'subscribe_funds_to_portfolio',
        'Broker.subscribePortfolio', binders=[('pids', 'List String'), ('clock', 'Int'), ('master', 'α'), ('pid', 'String'), ('amount', 'α')],
        fields=dict(current_dt=V('clock', 'int')), params=[('portfolio_id', V('pid', 'str')), ('amount', V('amount', 'num'))],
        ret='exc:struct:Xfer', kind='kernel', sink=_xfer_sink('subscribe_funds'),
        expr_subst={'self.cash_balances[self.base_currency]': V('master', 'num'), 'self.portfolios.keys()': ('lst', 'pids', ELEM_STR)},
        statement='(pids : List String) (clock : Int) (master : α) (pid : String) (amount : α) :\n'
                  '    GEN pids clock master pid amount = Qs.Broker.subscribePortfolioXfer (pids.contains pid) clock master amount',
        defs=['Qs.Broker.subscribePortfolioXfer']),
    KFn('Broker.withdrawPortfolio', 'qstrader/broker/simulated_broker.py', 'SimulatedBroker', 'withdraw_funds_from_portfolio',
        'Broker.withdrawPortfolio',
        binders=[('pids', 'List String'), ('clock', 'Int'), ('master', 'α'), ('pfCash', 'α'), ('pid', 'String'), ('amount', 'α')],
        fields=dict(current_dt=V('clock', 'int')), params=[('portfolio_id', V('pid', 'str')), ('amount', V('amount', 'num'))],
        ret='exc:struct:Xfer', kind='kernel', sink=_xfer_sink('withdraw_funds'),
        expr_subst={'self.cash_balances[self.base_currency]': V('master', 'num'), 'self.portfolios.keys()': ('lst', 'pids', ELEM_STR),
                    'self.portfolios[portfolio_id].cash': V('pfCash', 'num')},
        statement='(pids : List String) (clock : Int) (master pfCash : α) (pid : String) (amount : α) :\n'
                  '    GEN pids clock master pfCash pid amount = Qs.Broker.withdrawPortfolioXfer (pids.contains pid) clock master pfCash amount',
        defs=['Qs.Broker.withdrawPortfolioXfer']),
    KFn('DW.checkBuffer', 'qstrader/portcon/order_sizer/dollar_weighted.py', 'DollarWeightedCashBufferedOrderSizer', '_check_set_cash_buffer',
        'DW.checkBuffer', binders=[('b', 'α')], fields={}, params=[('cash_buffer_percentage', V('b', 'num'))], ret='exc:num',
        statement='(b : α) :\n    GEN b = Qs.dwCheckBuffer b', defs=['Qs.dwCheckBuffer']),
    KFn('LS.checkLeverage', 'qstrader/portcon/order_sizer/long_short.py', 'LongShortLeveragedOrderSizer', '_check_set_gross_leverage',
        'LS.checkLeverage', binders=[('l', 'α')], fields={}, params=[('gross_leverage', V('l', 'num'))], ret='exc:num',
        statement='(l : α) :\n    GEN l = Qs.lsCheckLeverage l', defs=['Qs.lsCheckLeverage']),
    KFn('DW.normalise', 'qstrader/portcon/order_sizer/dollar_weighted.py', 'DollarWeightedCashBufferedOrderSizer', '_normalise_weights',
        'DW.normalise', binders=[('w', 'Qs.Weights α')], fields={}, params=[('weights', W)], ret='exc:dict:num',
        statement='(w : Qs.Weights α) :\n    GEN w = Qs.dwNormalise w', defs=SIZER_DEFS),
    KFn('LS.normalise', 'qstrader/portcon/order_sizer/long_short.py', 'LongShortLeveragedOrderSizer', '_normalise_weights',
        'LS.normalise', binders=[('leverage', 'α'), ('w', 'Qs.Weights α')], fields=dict(gross_leverage=V('leverage', 'num')),
        params=[('weights', W)], ret='dict:num',
        statement='(leverage : α) (w : Qs.Weights α) :\n    GEN leverage w = Qs.lsNormalise leverage w', defs=SIZER_DEFS),
    KFn('DW.quantity', 'qstrader/portcon/order_sizer/dollar_weighted.py', 'DollarWeightedCashBufferedOrderSizer', '__call__', 'DW.quantity',
        binders=[('fee', 'Qs.FeeModel α'), ('equity', 'α'), ('buffer', 'α'), ('weight', 'α'), ('price', 'α')],
        fields=dict(cash_buffer_percentage=V('buffer', 'num')), params=[('dt', ('opaque', 'the timestamp')), ('weights', ('opaque', 'the weights'))],
        ret='int', kind='kernel', sink=_sizer_sink, loop_bind=('tup', [V('a', 'str'), V('weight', 'num')]),
        subst=[('_obtain_broker_portfolio_total_equity', _const_subst(V('equity', 'num'))), ('fee_model.calc_total_cost', _fee_subst),
               ('get_asset_latest_ask_price', _const_subst(V('price', 'num')))],
        statement='(fee : Qs.FeeModel α) (equity buffer weight price : α) :\n'
                  '    GEN fee equity buffer weight price = Qs.dwQuantity fee (equity * (Num.one - buffer)) weight price', defs=SIZER_DEFS),
    KFn('LS.quantity', 'qstrader/portcon/order_sizer/long_short.py', 'LongShortLeveragedOrderSizer', '__call__', 'LS.quantity',
        binders=[('fee', 'Qs.FeeModel α'), ('equity', 'α'), ('weight', 'α'), ('price', 'α')],
        fields={}, params=[('dt', ('opaque', 'the timestamp')), ('weights', ('opaque', 'the weights'))],
        ret='int', kind='kernel', sink=_sizer_sink, loop_bind=('tup', [V('a', 'str'), V('weight', 'num')]),
        subst=[('_obtain_broker_portfolio_total_equity', _const_subst(V('equity', 'num'))), ('fee_model.calc_total_cost', _fee_subst),
               ('get_asset_latest_ask_price', _const_subst(V('price', 'num')))],
        statement='(fee : Qs.FeeModel α) (equity weight price : α) :\n    GEN fee equity weight price = Qs.lsQuantity fee equity weight price',
        defs=SIZER_DEFS),
    KFn('Universe.dynamicAssets', 'qstrader/asset/universe/dynamic.py', 'DynamicUniverse', 'get_assets', 'Universe.dynamicAssets',
        binders=[('dates', 'List (String × Option Int)'), ('t', 'Int')], fields=dict(asset_dates=('lst', 'dates', ELEM_OPT)),
        params=[('dt', V('t', 'int'))], ret='list:str',
        statement='(dates : List (String × Option Int)) (t : Int) :\n    GEN dates t = Qs.dynamicAssets dates t', defs=['Qs.dynamicAssets'],
        proof='simp only [DEFS]\n  apply List.filterMap_congr\n  rintro ⟨a, _ | e⟩ _ <;> simp'),
    KFn('Optimiser.equalWeight', 'qstrader/portcon/optimiser/equal_weight.py', 'EqualWeightPortfolioOptimiser', '__call__', 'Optimiser.equalWeight',
        binders=[('scale', 'α'), ('w', 'Qs.Weights α')], fields=dict(scale=V('scale', 'num')),
        params=[('dt', ('opaque', 'the timestamp')), ('initial_weights', W)], ret='dict:num',
        statement='(scale : α) (w : Qs.Weights α) :\n    GEN scale w = Qs.equalWeight scale w', defs=['Qs.equalWeight']),
    KFn('Alpha.singleSignal', 'qstrader/alpha_model/single_signal.py', 'SingleSignalAlphaModel', '__call__', 'Alpha.singleSignal',
        binders=[('assets', 'List String'), ('signal', 'α')], fields=dict(signal=V('signal', 'num')),
        params=[('dt', ('opaque', 'the timestamp'))], ret='dict:num',
        subst=[('universe.get_assets', _const_subst(('lst', 'assets', ELEM_STR)))],
        statement='(assets : List String) (signal : α) :\n    GEN assets signal = Qs.singleSignal assets signal', defs=['Qs.singleSignal']),
    KFn('Broker.makeTxn', 'qstrader/broker/simulated_broker.py', 'SimulatedBroker', '_execute_order', 'Broker.makeTxn',
        binders=[('clock', 'Int'), ('fee', 'Qs.FeeModel α'), ('cash', 'α'), ('bid', 'α'), ('ask', 'α'), ('o', 'Qs.Order')],
        fields=dict(current_dt=V('clock', 'int')), expr_subst={'self.portfolios[portfolio_id].cash': V('cash', 'num')},
        params=[('dt', ('opaque', 'the update time')), ('portfolio_id', ('opaque', 'the portfolio')), ('order', V('o', 'obj:Order'))],
        ret='struct', kind='kernel', sink=_txn_sink, obj_types=ORDER_OBJ,
        subst=[('get_asset_latest_bid_ask_price', _const_subst(('tup', [V('bid', 'num'), V('ask', 'num')]))), ('fee_model.calc_total_cost', _fee_subst)],
        statement='(b : Qs.Broker α) (q : Qs.Quotes α) (o : Qs.Order) (cash bid ask : α) (h : q o.asset = some (bid, ask)) :\n'
                  '    Qs.Broker.makeTxn b q o = .ok (GEN b.clock b.fee cash bid ask o)',
        defs=['Qs.Broker.makeTxn', 'Qs.FeeModel.totalCost', 'Qs.Order.direction', 'Qs.dirOf'],
        components=[
            ('fill', '%s∃ tx, Qs.Broker.makeTxn b q o = .ok tx ∧ tx.qty = (GEN b.clock b.fee cash bid ask o).qty ∧ '
                     'tx.asset = (GEN b.clock b.fee cash bid ask o).asset ∧ tx.time = (GEN b.clock b.fee cash bid ask o).time' % '(b : Qs.Broker α) (q : Qs.Quotes α) (o : Qs.Order) (cash bid ask : α) (h : q o.asset = some (bid, ask)) :\n    '),
            ('price', '%s∃ tx, Qs.Broker.makeTxn b q o = .ok tx ∧ tx.price = (GEN b.clock b.fee cash bid ask o).price' % '(b : Qs.Broker α) (q : Qs.Quotes α) (o : Qs.Order) (cash bid ask : α) (h : q o.asset = some (bid, ask)) :\n    '),
            ('commission', '%s∃ tx, Qs.Broker.makeTxn b q o = .ok tx ∧ tx.commission = (GEN b.clock b.fee cash bid ask o).commission' % '(b : Qs.Broker α) (q : Qs.Quotes α) (o : Qs.Order) (cash bid ask : α) (h : q o.asset = some (bid, ask)) :\n    '),
        ]),
]

# ------------------------------------------------------------------------------------------------------------
# effect units: a method is run to its end; what it leaves behind (attribute values, the event it appended to the
# history, the exception it raised) is printed as a flat "view" record and compared with the same view of the model

class ForeignClass:
    """a class of another module whose constructor / classmethods are executed symbolically (e.g. PortfolioEvent)"""

    def __init__(self, path, cls, init_types):
        self.path, self.cls, self.init_types = path, cls, init_types
        self.cu = None

    def unit(self):
        if self.cu is None:
            self.cu = ClassUnit(self.path, self.cls, {})
            init = self.cu.methods.get('__init__')
            if init is None:
                raise Untranslatable('%s.__init__ not found' % self.cls)
            self.init_params = [a.arg for a in init.args.args][1:]
            # the constructor must store every parameter under its own name (checked, not assumed)
            stored = {}
            for st in init.body:
                if is_noop_stmt(st):
                    continue
                if isinstance(st, ast.Assign) and len(st.targets) == 1 and isinstance(st.targets[0], ast.Attribute) and \
                        isinstance(st.value, ast.Name):
                    stored[st.targets[0].attr] = st.value.id
                else:
                    raise Untranslatable('%s.__init__ does more than store its arguments' % self.cls)
            for p_ in self.init_params:
                if stored.get(p_) != p_:
                    raise Untranslatable('%s.__init__ does not store %s under its own name' % (self.cls, p_))
        return self.cu

    def construct(self, args, kw):
        self.unit()
        vals = {}
        for nm, a in zip(self.init_params, args):
            vals[nm] = a
        for k, v in kw.items():
            if k in vals or k not in self.init_params:
                raise Untranslatable('%s(...) argument %s' % (self.cls, k))
            vals[k] = v
        if sorted(vals) != sorted(self.init_params):
            raise Untranslatable('%s(...) call shape' % self.cls)
        flds = []
        for nm in self.init_params:
            t = self.init_types.get(nm)
            v = vals[nm]
            if t is None:
                continue                      # not part of the view (e.g. a formatted description)
            if v[0] == 'opaque':
                raise Untranslatable('%s.%s is not modelled (%s)' % (self.cls, nm, v[1]))
            got = ty_of(v)
            if got != t and not (t == 'num' and got == 'int'):
                raise Untranslatable('%s.%s : %s given a %s' % (self.cls, nm, t, got))
            flds.append((nm, t, v))
        return ('struct', self.cls, flds)

    def handler(self):
        fc = self

        def h(cu, n, ctx, depth):
            f = n.func
            def lazy(x):
                try:
                    return cu.ev(x, ctx, depth)
                except Untranslatable as e:
                    return ('opaque', str(e))
            args = [lazy(a) for a in n.args]
            kw = {k.arg: lazy(k.value) for k in n.keywords}
            if isinstance(f, ast.Name):
                return fc.construct(args, kw)
            # classmethod: run it in the foreign class with `cls(...)` building the struct
            u = fc.unit()
            meth = f.attr
            if meth not in u.methods:
                raise Untranslatable('%s.%s not found' % (fc.cls, meth))
            orig = u.ev_call

            def ev_call(n2, ctx2, depth2):
                if isinstance(n2.func, ast.Name) and n2.func.id == 'cls':
                    a2 = [u.ev(a, ctx2, depth2) for a in n2.args]
                    k2 = {k.arg: u.ev(k.value, ctx2, depth2) for k in n2.keywords}
                    return fc.construct(a2, k2)
                return orig(n2, ctx2, depth2)
            u.ev_call = ev_call
            try:
                c0 = Ctx(u, {}, {})
                c0.self_name = 'cls'
                if any(a[0] == 'opaque' for a in args) or kw:
                    raise Untranslatable('arguments of %s.%s' % (fc.cls, meth))
                tree = u.run_method(meth, args, {}, c0, depth + 1)
                return u.tree_to_expr(tree, c0)
            finally:
                u.ev_call = orig
        return h


class EFn:
    def __init__(self, key, path, cls, py, lean, binders, fields, params, statement, defs, foreign=(), raise_calls=(), view=None,
                 obj_types=None, event_attr='history', event_cls='PortfolioEvent', action_calls=(), loop_bind=None, subst=()):
        self.action_calls = list(action_calls)   # [(callee suffix, tag)]: calls recorded, in order, as the method's plan
        self.loop_bind = loop_bind
        self.subst = list(subst)
        self.key, self.path, self.cls, self.py, self.lean = key, path, cls, py, lean
        self.binders, self.fields, self.params = binders, fields, params
        self.statement, self.defs = statement, defs
        self.foreign = list(foreign)          # [(callee suffix, ForeignClass)]
        self.raise_calls = list(raise_calls)  # [(callee suffix, boolean binder)]: calls for effect that may raise
        self.view = view
        self.obj_types = obj_types or {}
        self.event_attr, self.event_cls = event_attr, event_cls


def run_effects(cu, stmts, ctx, fn, depth=0):
    """like ClassUnit.run, but: values the translator cannot read become opaque (an error only if used); `self.history.append(e)`
    records the event; listed calls for effect branch on a boolean parameter (False = the call raised)"""
    stmts = [s for s in stmts if not is_noop_stmt(s)]
    if not stmts:
        return ('ret', None, ctx)
    s, rest = stmts[0], stmts[1:]
    if isinstance(s, (ast.Assign, ast.AugAssign)):
        tgt = s.targets[0] if isinstance(s, ast.Assign) else s.target
        if isinstance(s, ast.Assign) and len(s.targets) != 1:
            raise Untranslatable('multiple assignment')
        is_attr = isinstance(tgt, ast.Attribute) and isinstance(tgt.value, ast.Name) and tgt.value.id == ctx.self_name
        try:
            if isinstance(s, ast.Assign):
                val = cu.ev(s.value, ctx, depth)
            else:
                ops = {ast.Add: '+', ast.Sub: '-', ast.Mult: '*', ast.Div: '/'}
                val = ('bin', ops[type(s.op)], cu.ev(s.target, ctx, depth), cu.ev(s.value, ctx, depth))
            if val[0] not in ('struct', 'tup', 'lst', 'nan'):
                ty_of(val)
        except (Untranslatable, KeyError) as e:
            if is_attr and tgt.attr in cu.attr_types:
                raise
            val = ('opaque', str(e))
        if isinstance(tgt, ast.Name):
            ctx.locs[tgt.id] = val
        elif is_attr and tgt.attr in cu.attr_types:
            cu.assign(tgt, val, ctx)
        elif is_attr:
            pass                                   # an attribute outside the view
        else:
            raise Untranslatable('assignment target %s' % ast.unparse(tgt))
        return run_effects(cu, rest, ctx, fn, depth)
    if isinstance(s, ast.If):
        before = set(ctx.known)
        ctx.in_test = True
        try:
            c = cu.truth(cu.ev(s.test, ctx, depth))
        finally:
            ctx.in_test = False
        inside = set(ctx.known)
        ctx.known = before
        if c[0] == 'blit':
            if c[1]:
                ctx.known = inside
            return run_effects(cu, (list(s.body) if c[1] else list(s.orelse)) + rest, ctx, fn, depth)
        cb = ctx.copy()
        cb.known = inside
        return ('if', c, run_effects(cu, list(s.body) + rest, cb, fn, depth), run_effects(cu, list(s.orelse) + rest, ctx.copy(), fn, depth))
    if isinstance(s, ast.Return):
        return ('ret', None, ctx)
    if isinstance(s, ast.Raise):
        return ('raise', raised_class(s), ctx)
    if isinstance(s, ast.For):
        if fn.loop_bind is None or s.orelse:
            raise Untranslatable('loop')
        c2 = ctx.copy()
        cu.bind_pattern(s.target, fn.loop_bind, c2)
        return run_effects(cu, list(s.body), c2, fn, depth)      # one iteration; what follows the loop is not part of the plan
    if isinstance(s, ast.Expr) and isinstance(s.value, ast.Call):
        ftxt = ast.unparse(s.value.func)
        if ftxt == '%s.%s.append' % (ctx.self_name, fn.event_attr) and len(s.value.args) == 1:
            ev = cu.ev(s.value.args[0], ctx, depth)
            if ev[0] != 'struct' or ev[1] != fn.event_cls:
                raise Untranslatable('the appended event is not a %s(...)' % fn.event_cls)
            if ctx.fields.get('__event__') is not None:
                raise Untranslatable('two events appended')
            ctx.fields['__event__'] = ev
            return run_effects(cu, rest, ctx, fn, depth)
        for suf, tag in fn.action_calls:
            if ftxt.endswith(suf):
                ctx.fields['__actions__'] = tuple(ctx.fields.get('__actions__') or ()) + (tag,)
                return run_effects(cu, rest, ctx, fn, depth)
        for suf, flag in fn.raise_calls:
            if ftxt.endswith(suf):
                c2 = ctx.copy()
                # the callee's own outcome is a parameter: `none` = it returned, `some e` = it raised e (which propagates)
                return ('if', V('%s.isNone' % flag, 'bool'), run_effects(cu, rest, ctx, fn, depth), ('raise', 'DYN:' + flag, c2))
        raise Untranslatable('statement call %s' % ftxt)
    raise Untranslatable('statement %s' % type(s).__name__)


def translate_efn(fn):
    try:
        cu = ClassUnit(fn.path, fn.cls, {a: ty_of(v) for a, v in fn.fields.items()}, fn.obj_types)
        cu.call_subst = [(suf, fc.handler()) for suf, fc in fn.foreign]
        if fn.py not in cu.methods:
            raise Untranslatable('method %s.%s not found' % (fn.cls, fn.py))
        m = cu.methods[fn.py]
        pyparams = [a.arg for a in m.args.args][1:]
        if pyparams != [p for p, _ in fn.params]:
            raise Untranslatable('signature of %s is (%s)' % (fn.py, ', '.join(pyparams)))
        fields = dict(fn.fields)
        fields['__event__'] = None
        ctx = Ctx(cu, dict(fields), {p: v for p, v in fn.params})
        tree = run_effects(cu, list(m.body), ctx, fn)

        def leaf(t):
            f = t[2].fields
            ev = f.get('__event__')
            parts = ['err := %s' % ((t[1][4:] if t[1].startswith('DYN:') else 'some ' + ERR[t[1]]) if t[0] == 'raise' else 'none')]
            for a, v0 in fn.fields.items():
                parts.append('%s := %s' % (fn.view[a], as_num(f[a]) if ty_of(v0) == 'num' else pr(f[a])))
            if ev is None:
                parts += ['appended := false', 'evTime := 0', 'evKind := ""', 'evDebit := (ofInt (0 : Int))', 'evCredit := (ofInt (0 : Int))',
                          'evBalance := (ofInt (0 : Int))']
            else:
                d = {nm: v for nm, t_, v in ev[2]}
                parts += ['appended := true', 'evTime := %s' % pr(d['dt']), 'evKind := %s' % pr(d['type']), 'evDebit := %s' % as_num(d['debit']),
                          'evCredit := %s' % as_num(d['credit']), 'evBalance := %s' % as_num(d['balance'])]
            return '{ ' + ', '.join(parts) + ' }'
        binders = ''.join(' (%s : %s)' % b for b in fn.binders)
        body = pr_tree(tree, leaf, 1)
        return 'def %s%s : Qs.Gen.PfView α :=\n  %s\n' % (fn.lean.split('.')[-1], binders, body), None
    except Untranslatable as e:
        return None, str(e)
    except (RecursionError, KeyError, IndexError) as e:
        return None, 'translator limit: %s' % type(e).__name__


def translate_plan(fn):
    """the ordered list of component calls one iteration of a loop makes, as a function of the branch conditions"""
    try:
        cu = ClassUnit(fn.path, fn.cls, {a: ty_of(v) for a, v in fn.fields.items()}, fn.obj_types)
        cu.call_subst = list(fn.subst)
        if fn.py not in cu.methods:
            raise Untranslatable('method %s.%s not found' % (fn.cls, fn.py))
        m = cu.methods[fn.py]
        fields = dict(fn.fields)
        fields['__event__'] = None
        fields['__actions__'] = ()
        ctx = Ctx(cu, dict(fields), {p: v for p, v in fn.params})
        for a in m.args.args[1:]:
            ctx.locs.setdefault(a.arg, ('opaque', 'parameter %s' % a.arg))
        tree = run_effects(cu, list(m.body), ctx, fn)

        def leaf(t):
            if t[0] == 'raise':
                raise Untranslatable('raise inside the loop body')
            for a, v0 in fn.fields.items():
                if t[2].fields[a] is not v0:
                    raise Untranslatable('attribute write inside the loop body')
            return '[' + ', '.join(json.dumps(x) for x in (t[2].fields.get('__actions__') or ())) + ']'
        binders = ''.join(' (%s : %s)' % b for b in fn.binders)
        return 'def %s%s : List String :=\n  %s\n' % (fn.lean.split('.')[-1], binders, pr_tree(tree, leaf, 1)), None
    except Untranslatable as e:
        return None, str(e)
    except (RecursionError, KeyError, IndexError) as e:
        return None, 'translator limit: %s' % type(e).__name__


EVENT_OBJ = dict(Event=dict(ts=(lambda base: V('t', 'int'), 'int'), event_type=(lambda base: V('kind', 'str'), 'str')))
PLAN = EFn('Session.plan', 'qstrader/trading/backtest.py', 'BacktestTradingSession', 'run', 'Session.plan',
           binders=[('sigs', 'Option Unit'), ('burn', 'Option Int'), ('t', 'Int'), ('kind', 'String'), ('inSched', 'Bool')],
           fields=dict(signals=V('sigs', 'optobj'), burn_in_dt=V('burn', 'optint')), params=[('results', ('opaque', 'the results flag'))],
           obj_types=EVENT_OBJ, loop_bind=V('ev', 'obj:Event'),
           subst=[('_is_rebalance_event', _const_subst(V('inSched', 'bool')))],
           action_calls=[('broker.update', 'broker'), ('signals.update', 'signals'), ('self.qts', 'qts'), ('_update_equity_curve', 'equity')],
           statement='(cfg : Qs.SessionCfg α) (sched : List Int) (s : Qs.Session α) (ev : Qs.SimEvent) :\n'
                     '    GEN (s.signals.map fun _ => ()) cfg.burnIn ev.time ev.kind.name (sched.contains ev.time) =\n'
                     '      ["broker"] ++ (if s.signals.isSome && decide (ev.kind = .marketClose) then ["signals"] else []) ++\n'
                     '      (if Qs.Sess.isReb cfg sched ev.time then ["qts"] else []) ++ (if Qs.Sess.isEq cfg ev then ["equity"] else [])',
           defs=['Qs.Sess.isReb', 'Qs.Sess.isEq', 'Qs.burnOk', 'Qs.EvKind.name'])


# ------------------------------------------------------------------------------------------------------------
# handler unit: a method that works on ONE key of a dictionary of translated objects (`PositionHandler.transact_position`).
# The dictionary is abstracted to the slot under that key: `slot : Option (Position α)`.

def translate_handler():
    """-> (lean def text | None, reason)"""
    path, cls, py = 'qstrader/broker/portfolio/position_handler.py', 'PositionHandler', 'transact_position'
    try:
        cu = ClassUnit(path, cls, {}, {'Txn': POSITION.obj_types['Txn']})
        if py not in cu.methods:
            raise Untranslatable('method %s.%s not found' % (cls, py))
        m = cu.methods[py]
        if [a.arg for a in m.args.args][1:] != ['transaction']:
            raise Untranslatable('signature of %s' % py)
        pos_fns = {f.py: f for f in POSITION.fns}
        KEY = 't.asset'
        DICT = 'positions'

        def is_dict(n):
            return isinstance(n, ast.Attribute) and isinstance(n.value, ast.Name) and n.value.id == 'self' and n.attr == DICT

        def key_ok(n, ctx):
            v = cu.ev(n, ctx, 0)
            if pr(v) != KEY:
                raise Untranslatable('dictionary key %s is not the transaction\'s asset' % ast.unparse(n))

        def slot_value(ctx):
            sl = ctx.fields.get('__slot__')
            if sl is None:
                raise Untranslatable('the dictionary is read before membership of the key is known')
            if sl == 'abs':
                raise Untranslatable('the dictionary is read under a key that is absent on this path')
            return sl

        def run(stmts, ctx):
            stmts = [x for x in stmts if not is_noop_stmt(x)]
            if not stmts:
                return ('ret', None, ctx)
            st, rest = stmts[0], stmts[1:]
            # `if K in self.positions:`
            if isinstance(st, ast.If) and isinstance(st.test, ast.Compare) and len(st.test.ops) == 1 and \
                    isinstance(st.test.ops[0], (ast.In, ast.NotIn)) and is_dict(st.test.comparators[0]):
                key_ok(st.test.left, ctx)
                neg = isinstance(st.test.ops[0], ast.NotIn)
                known = ctx.fields.get('__slot__')
                b_in, b_out = (st.orelse, st.body) if neg else (st.body, st.orelse)
                if known is not None:
                    return run((list(b_out) if known == 'abs' else list(b_in)) + rest, ctx)
                c1, c2 = ctx.copy(), ctx.copy()
                c1.fields['__slot__'] = 'p'
                c2.fields['__slot__'] = 'abs'
                return ('match', run(list(b_in) + rest, c1), run(list(b_out) + rest, c2))
            if isinstance(st, ast.If):
                c = cu.truth(ev(st.test, ctx))
                if c[0] == 'blit':
                    return run((list(st.body) if c[1] else list(st.orelse)) + rest, ctx)
                return ('if', c, run(list(st.body) + rest, ctx.copy()), run(list(st.orelse) + rest, ctx.copy()))
            if isinstance(st, ast.Delete) and len(st.targets) == 1 and isinstance(st.targets[0], ast.Subscript) and is_dict(st.targets[0].value):
                key_ok(st.targets[0].slice, ctx)
                slot_value(ctx)
                ctx.fields['__slot__'] = 'abs'
                return run(rest, ctx)
            if isinstance(st, ast.Assign) and len(st.targets) == 1:
                tg = st.targets[0]
                if isinstance(tg, ast.Subscript) and is_dict(tg.value):
                    key_ok(tg.slice, ctx)
                    v = ev(st.value, ctx)
                    if ty_of(v) != 'obj:Pos':
                        raise Untranslatable('a %s stored in the dictionary' % ty_of(v))
                    ctx.fields['__slot__'] = pr(v)
                    return run(rest, ctx)
                if isinstance(tg, ast.Name):
                    ctx.locs[tg.id] = ev(st.value, ctx)
                    return run(rest, ctx)
                raise Untranslatable('assignment target %s' % ast.unparse(tg))
            if isinstance(st, ast.Expr) and isinstance(st.value, ast.Call):
                f = st.value.func
                # self.positions[K].<mutator>(transaction), or the same through a local that holds that object
                target_is_slot = False
                if isinstance(f, ast.Attribute) and isinstance(f.value, ast.Subscript) and is_dict(f.value.value):
                    key_ok(f.value.slice, ctx)
                    target_is_slot = True
                elif isinstance(f, ast.Attribute) and isinstance(f.value, ast.Name) and f.value.id in ctx.locs:
                    v_ = ctx.locs[f.value.id]
                    if v_[0] == 'var' and v_[2] == 'obj:Pos' and ctx.fields.get('__slot__') not in (None, 'abs') and v_[1] == ctx.fields['__slot__']:
                        target_is_slot = True
                if target_is_slot:
                    cur = slot_value(ctx)
                    fn = pos_fns.get(f.attr)
                    if fn is None or fn.kind != 'mutexc' or len(st.value.args) != 1 or st.value.keywords:
                        raise Untranslatable('call of %s on a stored object' % f.attr)
                    a = ev(st.value.args[0], ctx)
                    if pr(a) != 't':
                        raise Untranslatable('argument of %s' % f.attr)
                    call = '(Qs.Gen.Position.%s %s t)' % (fn.lean, cur)
                    c_err, c_ok = ctx.copy(), ctx.copy()
                    c_err.fields['__slot__'] = '%s.1' % call
                    c_ok.fields['__slot__'] = '%s.1' % call
                    return ('if', V('(%s.2).isSome' % call, 'bool'), ('raise', 'DYN:%s.2' % call, c_err), run(rest, c_ok))
                raise Untranslatable('statement call %s' % ast.unparse(f))
            if isinstance(st, ast.Return):
                return ('ret', None, ctx)
            if isinstance(st, ast.Raise):
                return ('raise', raised_class(st), ctx)
            raise Untranslatable('statement %s' % type(st).__name__)

        orig_ev = cu.ev
        pos_fields = {a_: (f_, t_) for a_, (f_, t_) in POSITION.fieldmap.items()}

        def ev2(n, ctx, depth=0):
            # Position.<ctor>(transaction)
            if isinstance(n, ast.Call) and isinstance(n.func, ast.Attribute) and isinstance(n.func.value, ast.Name) and n.func.value.id == 'Position':
                fn = pos_fns.get(n.func.attr)
                if fn is None or fn.kind != 'ctor' or len(n.args) != 1 or pr(cu.ev(n.args[0], ctx, depth)) != 't':
                    raise Untranslatable('call of Position.%s' % n.func.attr)
                return V('(Qs.Gen.Position.%s t)' % fn.lean, 'obj:Pos')
            # self.positions[K]: the object stored under the key
            if isinstance(n, ast.Subscript) and is_dict(n.value):
                key_ok(n.slice, ctx)
                return V(slot_value(ctx), 'obj:Pos')
            # <position object>.<property | attribute>
            if isinstance(n, ast.Attribute) and not is_dict(n):
                try:
                    base = cu.ev(n.value, ctx, depth)
                except Untranslatable:
                    base = None
                if base is not None and base[0] == 'var' and base[2] == 'obj:Pos':
                    fn = pos_fns.get(n.attr)
                    if fn is not None and fn.kind == 'pure' and not fn.params:
                        return V('(Qs.Gen.Position.%s %s)' % (fn.lean, base[1]), fn.ret)
                    if n.attr in pos_fields:
                        return V('%s.%s' % (base[1], pos_fields[n.attr][0]), pos_fields[n.attr][1])
                    raise Untranslatable('attribute %s of a Position' % n.attr)
            return orig_ev(n, ctx, depth)
        cu.ev = ev2

        def ev(n, ctx):
            return cu.ev(n, ctx, 0)

        ctx = Ctx(cu, {'__slot__': None}, {'transaction': V('t', 'obj:Txn')})
        tree = run(list(m.body), ctx)

        def leaf(t):
            sl = t[2].fields.get('__slot__')
            if sl is None:
                sl_txt = 'slot'
            else:
                sl_txt = 'none' if sl == 'abs' else '(some %s)' % sl
            err = (t[1][4:] if t[1].startswith('DYN:') else 'some ' + ERR[t[1]]) if t[0] == 'raise' else 'none'
            return '(%s, %s)' % (sl_txt, err)

        def prt(t, ind):
            pad = '  ' * ind
            if t[0] == 'match':
                return 'match slot with\n%s| some p =>\n%s  %s\n%s| none =>\n%s  %s' % (pad, pad, prt(t[1], ind + 1), pad, pad, prt(t[2], ind + 1))
            if t[0] == 'if':
                return 'if %s then\n%s  %s\n%selse\n%s  %s' % (pr(t[1]), pad, prt(t[2], ind + 1), pad, pad, prt(t[3], ind + 1))
            return leaf(t)
        text = ('def transactPosition (slot : Option (Qs.Position α)) (t : Qs.Txn α) : Option (Qs.Position α) × Option Err :=\n  %s\n'
                % prt(tree, 1))
        return text, None
    except Untranslatable as e:
        return None, str(e)
    except (RecursionError, KeyError, IndexError) as e:
        return None, 'translator limit: %s' % type(e).__name__


HANDLER_PROOF = """  unfold Qs.Gen.Handler.transactPosition Qs.Positions.transactPosition
  rcases hf : Qs.Positions.find? ps t.asset with _ | p
  · simp only [tie_Position_net, tie_Position_openFrom]
    split_ifs with h1 <;>
      simp_all [find_erase, find_append_new ps _ t.asset hf (openFrom_asset t)]
  · have hpa : p.asset = t.asset := find_asset ps p t.asset hf
    simp only [tie_Position_transact p t hpa, tie_Position_net]
    have hp' : (Qs.Position.transact p t).1.asset = t.asset := by rw [transact_asset, hpa]
    rcases ht : Qs.Position.transact p t with ⟨p', _ | e⟩ <;> rw [ht] at hp' <;>
      simp only [Option.isSome_none, Option.isSome_some, Bool.false_eq_true, if_false, if_true] <;>
      (try split_ifs) <;> simp_all [find_erase, find_set ps p p' t.asset hf hp']"""


PEVENT = ForeignClass('qstrader/broker/portfolio/portfolio_event.py', 'PortfolioEvent',
                      dict(dt='int', type='str', debit='num', credit='num', balance='num'))
PF_FIELDS = dict(current_dt=V('clock', 'int'), cash=V('cash', 'num'))
PF_VIEW = dict(current_dt='clock', cash='cash')
PF_DEFS = ['Qs.Gen.pfView', 'Qs.Portfolio.subscribe', 'Qs.Portfolio.withdraw', 'Qs.Portfolio.transactAsset', 'Qs.EventKind.name', 'Qs.dirOf']
TXN_OBJ = dict(Txn=dict(asset=('asset', 'str'), quantity=('qty', 'int'), dt=('time', 'int'), price=('price', 'num'),
                        commission=('commission', 'num'),
                        direction=(lambda base: ('ite', ('cmp', '<', V('%s.qty' % pr(base), 'int'), ('lit', Fraction(0), 'int')),
                                                 ('lit', Fraction(-1), 'int'), ('lit', Fraction(1), 'int')), 'int')))

EFNS = [
    EFn('Portfolio.subscribe', 'qstrader/broker/portfolio/portfolio.py', 'Portfolio', 'subscribe_funds', 'Portfolio.subscribe',
        binders=[('clock', 'Int'), ('cash', 'α'), ('t', 'Int'), ('amount', 'α')], fields=PF_FIELDS, view=PF_VIEW,
        params=[('dt', V('t', 'int')), ('amount', V('amount', 'num'))], foreign=[('PortfolioEvent.create_subscription', PEVENT), ('PortfolioEvent', PEVENT)],
        statement='(p : Qs.Portfolio α) (t : Int) (amount : α) :\n    Qs.Gen.pfView p (Qs.Portfolio.subscribe p t amount) = GEN p.clock p.cash t amount',
        defs=PF_DEFS),
    EFn('Portfolio.withdraw', 'qstrader/broker/portfolio/portfolio.py', 'Portfolio', 'withdraw_funds', 'Portfolio.withdraw',
        binders=[('clock', 'Int'), ('cash', 'α'), ('t', 'Int'), ('amount', 'α')], fields=PF_FIELDS, view=PF_VIEW,
        params=[('dt', V('t', 'int')), ('amount', V('amount', 'num'))], foreign=[('PortfolioEvent.create_withdrawal', PEVENT), ('PortfolioEvent', PEVENT)],
        statement='(p : Qs.Portfolio α) (t : Int) (amount : α) :\n    Qs.Gen.pfView p (Qs.Portfolio.withdraw p t amount) = GEN p.clock p.cash t amount',
        defs=PF_DEFS),
    EFn('Portfolio.transactAsset', 'qstrader/broker/portfolio/portfolio.py', 'Portfolio', 'transact_asset', 'Portfolio.transactAsset',
        binders=[('clock', 'Int'), ('cash', 'α'), ('t', 'Qs.Txn α'), ('posErr', 'Option Err')], fields=PF_FIELDS, view=PF_VIEW,
        params=[('txn', V('t', 'obj:Txn'))], foreign=[('PortfolioEvent', PEVENT)], obj_types=TXN_OBJ,
        raise_calls=[('pos_handler.transact_position', 'posErr')],
        statement='(p : Qs.Portfolio α) (t : Qs.Txn α) :\n    Qs.Gen.pfView p (Qs.Portfolio.transactAsset p t) = '
                  'GEN p.clock p.cash t (p.positions.transactPosition t).2',
        defs=PF_DEFS),
]

KHEADER = """/-
  GENERATED by harness/translate.py from the working tree of the repository — do not edit.
  Fee models, the per-asset sizing kernels, weight normalisation and the fill kernel of the broker, read off the Python source.
-/
import QsModel.Sizer
import QsModel.Broker
import QsGen.Views

namespace Qs.Gen
open NumOps Num

section
variable {α : Type} [Add α] [Sub α] [Mul α] [Div α] [Neg α] [NumOps α]

"""


HEADER = '''/-
  GENERATED by harness/translate.py from %s (working tree of the repository) — do not edit.
  Each definition is the symbolic execution of the Python method of the same name.
-/
%s

namespace Qs.Gen
open NumOps Num

section
variable {α : Type} [Add α] [Sub α] [Mul α] [Div α] [Neg α] [NumOps α]

namespace %s

'''


TIE_HEAD = ('/-\n  GENERATED by harness/translate.py — the tie obligations `Gen.f = Qs.f` for %s.\n'
            '  The statements are fixed by the translator\'s unit table; the proofs are the fixed tactic `qs_tie`.\n-/\n'
            'import QsGen.%s\nimport QsProofs.Tie.Tactic\n\nset_option linter.unusedTactic false\n'
            'set_option linter.unreachableTactic false\nset_option linter.unusedSectionVars false\n'
            'set_option linter.unusedSimpArgs false\nset_option linter.unusedVariables false\n\nopen NumOps Num\n\n'
            'namespace Qs.Tie\n\n'
            'variable {α : Type} [Field α] [LinearOrder α] [IsStrictOrderedRing α] [FloorRing α] [NumOps α] [LawfulNumOps α]\n\n')


PFVIEW_COMPONENTS = ['err', 'clock', 'cash', 'appended', 'evTime', 'evKind', 'evDebit', 'evCredit', 'evBalance']


def projections(u, fn):
    """[(suffix, lhs/rhs projection text)] for the component-wise tie obligations of a state-returning function"""
    if fn.kind == 'mutexc':
        return [(f, '.1.%s' % f) for a, (f, t) in u.fieldmap.items()] + [('err', '.2')]
    if fn.kind in ('mut', 'ctor'):
        return [(f, '.%s' % f) for a, (f, t) in u.fieldmap.items()]
    return []


def generate(outdir=None, verbose=False, omit_defs=(), omit_thms=()):
    """writes lean/QsGen/<Unit>.lean and lean/QsProofs/Tie/<Unit>Gen.lean from the repository's working tree.
    `omit_defs`: keys whose generated definition did not typecheck (treated as not translatable);
    `omit_thms`: theorem names whose proof did not check (left out so that the module builds and the others can be audited).
    Returns {key: dict(translated, theorem(s), spans…)}; keys are `<Unit>.<fn>` and `<Unit>.<fn>#<component>`."""
    outdir = outdir or LEAN
    status = {}
    os.makedirs(os.path.join(outdir, 'QsGen'), exist_ok=True)
    os.makedirs(os.path.join(outdir, 'QsProofs', 'Tie'), exist_ok=True)
    for u in UNITS:
        res = u.translate()
        gen = HEADER % (u.path, '\n'.join('import %s' % i for i in u.imports), u.ns)
        tie = TIE_HEAD % (u.path, u.ns)
        lean_of = {f.py: f.lean for f in u.fns}
        dropped = set()       # python names without a usable definition
        for fn, text, why in res:
            key = '%s.%s' % (u.ns, fn.lean)
            if text is not None and key in omit_defs:
                text, why = None, 'the generated definition does not typecheck'
            if text is not None and set(fn.deps) & dropped:
                text, why = None, 'refers to a property that is not translatable'
            if text is None:
                dropped.add(fn.py)
                status[key] = dict(translated=False, reason=why, python='%s.%s' % (u.cls, fn.py), file=u.path, unit=u.ns)
                gen += '-- %s.%s: not translatable (%s)\n\n' % (u.cls, fn.py, why)
                for suf, _ in projections(u, fn) + ([('refusal', '')] if fn.kind == 'mutexc' else []):
                    status[key + '#' + suf] = dict(status[key])
                continue
            g0 = gen.count('\n') + 1
            gen += '/-- `%s.%s` -/\n%s\n' % (u.cls, fn.py, text)
            core = ['Qs.Gen.%s.%s' % (u.ns, fn.lean)] + ['tie_%s_%s' % (u.ns, lean_of[d]) for d in fn.deps] + [fn.model]
            extra = [d for d in u.model_defs if d not in core]
            stmts = [(key, 'tie_%s_%s' % (u.ns, fn.lean), u.tie_statement(fn))]
            for suf, proj in projections(u, fn):
                st = u.tie_statement(fn)
                head, eq = st.rsplit(':\n', 1)
                lhs, rhs = eq.strip().split(' = ', 1)
                stmts.append((key + '#' + suf, 'tie_%s_%s__%s' % (u.ns, fn.lean, suf),
                              '%s:\n    (%s)%s = (%s)%s' % (head.replace('tie_%s_%s' % (u.ns, fn.lean), 'tie_%s_%s__%s' % (u.ns, fn.lean, suf)),
                                                         lhs, proj, rhs, proj)))
            if fn.kind == 'mutexc':
                # about the translated source alone: a refusal leaves every attribute except the clock as it was
                st = u.tie_statement(fn)
                head = st.rsplit(':\n', 1)[0].replace('tie_%s_%s' % (u.ns, fn.lean), 'refusal_%s_%s' % (u.ns, fn.lean))
                call = st.rsplit(':\n', 1)[1].strip().split(' = ', 1)[0]
                keep = [f for a, (f, t) in u.fieldmap.items() if f != 'clock']
                stmts.append((key + '#refusal', 'refusal_%s_%s' % (u.ns, fn.lean),
                              '%s:\n    (%s).2 ≠ none → %s' % (head, call, ' ∧ '.join('(%s).1.%s = %s.%s' % (call, f, u.self_var, f) for f in keep))))
            for k2, name, st in stmts:
                full = 'Qs.Tie.' + name
                ent = dict(translated=True, python='%s.%s' % (u.cls, fn.py), file=u.path, unit=u.ns, theorem=full, model=fn.model,
                           def_span=[g0, gen.count('\n')])
                if full in omit_thms or any(('Qs.Tie.tie_%s_%s' % (u.ns, lean_of[d])) in omit_thms for d in fn.deps):
                    ent['proved'] = False
                    tie += '-- %s: the proof does not check against the current source\n\n' % name
                else:
                    t0 = tie.count('\n') + 1
                    if k2.endswith('#refusal'):
                        tie += '%s := by\n  simp only [Qs.Gen.%s.%s]\n  split_ifs <;> simp_all\n\n' % (st, u.ns, fn.lean)
                    else:
                        tie += '%s := by\n  first\n  | qs_tie [%s]\n  | qs_tie [%s]\n\n' % (st, ', '.join(core), ', '.join(core + extra))
                    ent['thm_span'] = [t0, tie.count('\n')]
                status[k2] = ent
        gen += 'end %s\n\nend\nend Qs.Gen\n' % u.ns
        tie += 'end Qs.Tie\n'
        _write_if_changed(os.path.join(outdir, 'QsGen', u.ns + '.lean'), gen)
        _write_if_changed(os.path.join(outdir, 'QsProofs', 'Tie', u.ns + 'Gen.lean'), tie)
    # kernel units
    gen = KHEADER
    tie = TIE_HEAD % ('the fee models, order sizers and the broker\'s fill kernel', 'Kernels')
    for fn in KFNS:
        text, why = translate_kfn(fn)
        if text is not None and fn.key in omit_defs:
            text, why = None, 'the generated definition does not typecheck'
        if text is None:
            status[fn.key] = dict(translated=False, reason=why, python='%s.%s' % (fn.cls, fn.py), file=fn.path, unit='Kernels')
            for suf, _c in fn.components:
                status[fn.key + '#' + suf] = dict(status[fn.key])
            gen += '-- %s.%s: not translatable (%s)\n\n' % (fn.cls, fn.py, why)
            continue
        ns, nm = fn.lean.split('.')
        g0 = gen.count('\n') + 1
        gen += 'namespace %s\n/-- kernel of `%s.%s` -/\n%send %s\n\n' % (ns, fn.cls, fn.py, text, ns)
        name = 'tie_%s_%s' % (ns, nm)
        full = 'Qs.Tie.' + name
        ent = dict(translated=True, python='%s.%s' % (fn.cls, fn.py), file=fn.path, unit='Kernels', theorem=full,
                   def_span=[g0, gen.count('\n')])
        if full in omit_thms:
            ent['proved'] = False
            tie += '-- %s: the proof does not check against the current source\n\n' % name
        else:
            t0 = tie.count('\n') + 1
            core = ['Qs.Gen.' + fn.lean] + fn.defs
            if fn.proof:
                tie += 'theorem %s %s := by\n  %s\n\n' % (name, fn.statement.replace('GEN', 'Qs.Gen.' + fn.lean),
                                                         fn.proof.replace('DEFS', ', '.join(core)))
            else:
                tie += 'theorem %s %s := by\n  first\n  | qs_tie [%s]\n  | qs_tie_h h [%s]\n\n' % (
                    name, fn.statement.replace('GEN', 'Qs.Gen.' + fn.lean), ', '.join(core), ', '.join(core))
            ent['thm_span'] = [t0, tie.count('\n')]
        status[fn.key] = ent
        for suf, cstmt in fn.components:
            cname = '%s__%s' % (name, suf)
            cent = dict(translated=True, python='%s.%s' % (fn.cls, fn.py), file=fn.path, unit='Kernels', theorem='Qs.Tie.' + cname,
                        def_span=ent['def_span'])
            if 'Qs.Tie.' + cname in omit_thms:
                cent['proved'] = False
                tie += '-- %s: the proof does not check against the current source\n\n' % cname
            else:
                t0 = tie.count('\n') + 1
                core = ['Qs.Gen.' + fn.lean] + fn.defs
                tie += 'theorem %s %s := by\n  first\n  | qs_tie_h h [%s]\n  | (simp only [%s, h] <;> split_ifs <;> simp_all)\n\n' % (
                    cname, cstmt.replace('GEN', 'Qs.Gen.' + fn.lean), ', '.join(core), ', '.join(core))
                cent['thm_span'] = [t0, tie.count('\n')]
            status[fn.key + '#' + suf] = cent
    for fn in EFNS:
        text, why = translate_efn(fn)
        if text is not None and fn.key in omit_defs:
            text, why = None, 'the generated definition does not typecheck'
        if text is None:
            status[fn.key] = dict(translated=False, reason=why, python='%s.%s' % (fn.cls, fn.py), file=fn.path, unit='Kernels')
            gen += '-- %s.%s: not translatable (%s)\n\n' % (fn.cls, fn.py, why)
            for comp in PFVIEW_COMPONENTS + ['refusal']:
                status[fn.key + '#' + comp] = dict(status[fn.key])
            continue
        ns, nm = fn.lean.split('.')
        g0 = gen.count('\n') + 1
        gen += 'namespace %s\n/-- effects of `%s.%s` -/\n%send %s\n\n' % (ns, fn.cls, fn.py, text, ns)
        g1 = gen.count('\n')
        core = ['Qs.Gen.' + fn.lean] + fn.defs
        stmt = fn.statement.replace('GEN', 'Qs.Gen.' + fn.lean)
        head, eq = stmt.rsplit(':\n', 1)
        lhs, rhs = eq.strip().split(' = ', 1)
        items = [(fn.key, 'tie_%s_%s' % (ns, nm), stmt)] + [
            (fn.key + '#' + comp, 'tie_%s_%s__%s' % (ns, nm, comp), '%s:\n    (%s).%s = (%s).%s' % (head, lhs, comp, rhs, comp))
            for comp in PFVIEW_COMPONENTS]
        # a statement about the translated source alone: a refused request leaves the cash as it was and appends nothing
        bnames = ' '.join(b for b, _t in fn.binders)
        btext = ''.join(' (%s : %s)' % b for b in fn.binders)
        items.append((fn.key + '#refusal', 'refusal_%s_%s' % (ns, nm),
                      '%s :\n    (Qs.Gen.%s %s).err ≠ none → (Qs.Gen.%s %s).cash = cash ∧ (Qs.Gen.%s %s).appended = false' % (
                          btext, fn.lean, bnames, fn.lean, bnames, fn.lean, bnames)))
        for k2, name, st_ in items:
            full = 'Qs.Tie.' + name
            ent = dict(translated=True, python='%s.%s' % (fn.cls, fn.py), file=fn.path, unit='Kernels', theorem=full, def_span=[g0, g1])
            if full in omit_thms:
                ent['proved'] = False
                tie += '-- %s: the proof does not check against the current source\n\n' % name
            else:
                t0 = tie.count('\n') + 1
                if k2.endswith('#refusal'):
                    tie += 'theorem %s%s := by\n  simp only [Qs.Gen.%s]\n  split_ifs <;> simp_all\n\n' % (name, st_, fn.lean)
                else:
                    tie += 'theorem %s %s := by\n  qs_tie_view [%s]\n\n' % (name, st_, ', '.join(core))
                ent['thm_span'] = [t0, tie.count('\n')]
            status[k2] = ent
    gen += 'end\nend Qs.Gen\n'
    tie += 'end Qs.Tie\n'
    _write_if_changed(os.path.join(outdir, 'QsGen', 'Kernels.lean'), gen)
    _write_if_changed(os.path.join(outdir, 'QsProofs', 'Tie', 'KernelsGen.lean'), tie)
    # the position handler (one key of a dictionary of Position objects)
    text, why = translate_handler()
    key = 'Handler.transactPosition'
    gen = ('/-\n  GENERATED by harness/translate.py from qstrader/broker/portfolio/position_handler.py — do not edit.\n-/\n'
           'import QsGen.Position\n\nnamespace Qs.Gen\nopen NumOps Num\n\nsection\n'
           'variable {α : Type} [Add α] [Sub α] [Mul α] [Div α] [Neg α] [NumOps α]\n\nnamespace Handler\n\n')
    tie = (TIE_HEAD % ('qstrader/broker/portfolio/position_handler.py', 'Handler')).replace(
        'import QsProofs.Tie.Tactic\n', 'import QsProofs.Tie.Tactic\nimport QsProofs.Tie.PositionGen\nimport QsProofs.Tie.HandlerLemmas\n')
    if text is not None and key in omit_defs:
        text, why = None, 'the generated definition does not typecheck'
    pos_ok = all(status.get(k, {}).get('translated') and status[k].get('proved') is not False
                 for k in ('Position.transact', 'Position.net', 'Position.openFrom'))
    if text is not None and not pos_ok:
        text, why = None, 'the Position methods it calls are not tied in their current form'
    if text is None:
        status[key] = dict(translated=False, reason=why, python='PositionHandler.transact_position',
                           file='qstrader/broker/portfolio/position_handler.py', unit='Handler')
        gen += '-- PositionHandler.transact_position: not translatable (%s)\n\n' % why
    else:
        g0 = gen.count('\n') + 1
        gen += '/-- `PositionHandler.transact_position`, on the slot under the transaction\'s asset -/\n%s\n' % text
        full = 'Qs.Tie.tie_Handler_transactPosition'
        ent = dict(translated=True, python='PositionHandler.transact_position', file='qstrader/broker/portfolio/position_handler.py',
                   unit='Handler', theorem=full, def_span=[g0, gen.count('\n')])
        if full in omit_thms:
            ent['proved'] = False
            tie += '-- tie_Handler_transactPosition: the proof does not check against the current source\n\n'
        else:
            t0 = tie.count('\n') + 1
            tie += ('theorem tie_Handler_transactPosition (ps : Qs.Positions α) (t : Qs.Txn α) :\n'
                    '    Qs.Gen.Handler.transactPosition (Qs.Positions.find? ps t.asset) t\n'
                    '      = (Qs.Positions.find? (Qs.Positions.transactPosition ps t).1 t.asset, (Qs.Positions.transactPosition ps t).2) := by\n'
                    + HANDLER_PROOF + '\n\n')
            ent['thm_span'] = [t0, tie.count('\n')]
        status[key] = ent
    gen += 'end Handler\n\nend\nend Qs.Gen\n'
    tie += 'end Qs.Tie\n'
    _write_if_changed(os.path.join(outdir, 'QsGen', 'Handler.lean'), gen)
    _write_if_changed(os.path.join(outdir, 'QsProofs', 'Tie', 'HandlerGen.lean'), tie)
    # the session loop's plan
    fn = PLAN
    text, why = translate_plan(fn)
    gen = ('/-\n  GENERATED by harness/translate.py from %s — do not edit.\n  Which components one iteration of '
           '`BacktestTradingSession.run` calls, in order.\n-/\n\nnamespace Qs.Gen\n\nnamespace Session\n\n' % fn.path)
    tie = ('/-\n  GENERATED by harness/translate.py — the plan of one loop iteration equals the stages of `Session.step`.\n-/\n'
           'import QsGen.Plan\nimport QsProofs.Tie.Tactic\nimport QsProofs.Lemmas.Session\n\nset_option linter.unusedTactic false\n'
           'set_option linter.unreachableTactic false\nset_option linter.unusedSectionVars false\nset_option linter.unusedSimpArgs false\n'
           'set_option linter.unusedVariables false\n\nopen NumOps Num\n\nnamespace Qs.Tie\n\n'
           'variable {α : Type} [Add α] [Sub α] [Mul α] [Div α] [Neg α] [NumOps α]\n\n')
    if text is not None and fn.key in omit_defs:
        text, why = None, 'the generated definition does not typecheck'
    if text is None:
        status[fn.key] = dict(translated=False, reason=why, python='%s.%s' % (fn.cls, fn.py), file=fn.path, unit='Plan')
        gen += '-- %s.%s: not translatable (%s)\n\n' % (fn.cls, fn.py, why)
    else:
        g0 = gen.count('\n') + 1
        gen += '/-- plan of one iteration of `%s.%s` -/\n%s\n' % (fn.cls, fn.py, text)
        full = 'Qs.Tie.tie_Session_plan'
        ent = dict(translated=True, python='%s.%s' % (fn.cls, fn.py), file=fn.path, unit='Plan', theorem=full, def_span=[g0, gen.count('\n')])
        if full in omit_thms:
            ent['proved'] = False
            tie += '-- tie_Session_plan: the proof does not check against the current source\n\n'
        else:
            t0 = tie.count('\n') + 1
            tie += ('theorem tie_Session_plan %s := by\n  rcases ev with ⟨t, k⟩\n  cases k <;> cases hs : s.signals <;> cases hb : cfg.burnIn <;> '
                    'cases hc : sched.contains t <;>\n    simp [Qs.Gen.Session.plan, %s, hs, hb, hc] <;> (try split_ifs) <;> simp_all <;> omega\n\n' % (
                        fn.statement.replace('GEN', 'Qs.Gen.' + fn.lean), ', '.join(fn.defs)))
            ent['thm_span'] = [t0, tie.count('\n')]
        status[fn.key] = ent
    gen += 'end Session\n\nend Qs.Gen\n'
    tie += 'end Qs.Tie\n'
    _write_if_changed(os.path.join(outdir, 'QsGen', 'Plan.lean'), gen)
    _write_if_changed(os.path.join(outdir, 'QsProofs', 'Tie', 'PlanGen.lean'), tie)
    if verbose:
        for k, v in status.items():
            if '#' not in k:
                print(k, 'ok' if v['translated'] else 'UNTRANSLATABLE: ' + v['reason'])
    return status


def _write_if_changed(path, text):
    try:
        if open(path).read() == text:
            return
    except OSError:
        pass
    with open(path, 'w') as f:
        f.write(text)


if __name__ == '__main__':
    st = generate(verbose=True)
    json.dump(st, sys.stdout if '--json' in sys.argv else open(os.devnull, 'w'), indent=1)
