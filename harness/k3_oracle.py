"""K3 property oracles: direct transcriptions of C01-C05, C15 evaluated on a trace of the real code in exact
rational arithmetic (stated tolerance where the implementation computes in floating point).

An oracle never decides a pass; a failure is a concrete failing history on the implementation (the replay).
"""
import math
from fractions import Fraction as F

from k3_check import snap_scale, C15_OPS

SUPPORTED_CURRENCIES = ('USD', 'GBP', 'EUR')


def is_open(t):
    d = t // 86400
    return (d + 3) % 7 <= 4 and 52200 <= t % 86400 < 75600


def rhe(x):
    """round half to even of a Fraction"""
    fl = math.floor(x)
    d = x - fl
    if d < F(1, 2):
        return fl
    if d > F(1, 2):
        return fl + 1
    return fl if fl % 2 == 0 else fl + 1


def fx(x):
    return F(float(x))


class Out(object):
    def __init__(self):
        self.items = []

    def add(self, step, what, key, **kw):
        d = dict(step=step, what=what, key=key)
        d.update(kw)
        self.items.append(d)


def obs(s):
    # a holding is its quantity and the price it is carried at (a refused request may advance clocks, nothing else)
    return (s['master'], [(p['id'], p['cash'], sorted((q['asset'], q['buyQ'] - q['sellQ'], q['price']) for q in p['positions']),
                           [tuple(x) for x in p['queue']], p['hist_len']) for p in s['pfs']])


def check(prop, trace):
    if trace.get('new_out') != 'ok':
        out = Out()
        if prop == 'C15':
            funds = trace['case']['funds']
            if funds < 0 and trace['new_out'] != 'ValueError':
                out.add(-1, 'negative initial funds accepted or wrong error: %s' % trace['new_out'], 'new-negative-funds')
            if funds >= 0 and trace['case'].get('cur', 'USD') in trace.get('supported', SUPPORTED_CURRENCIES):
                out.add(-1, 'a broker with a supported currency and non-negative funds was refused: %s' % trace['new_out'],
                        'new-refused')
        return out.items
    if prop == 'C15' and trace['case'].get('cur', 'USD') not in trace.get('supported', SUPPORTED_CURRENCIES):
        out = Out()
        out.add(-1, 'unsupported base currency %r accepted' % trace['case'].get('cur'), 'new-unsupported-currency')
        return out.items
    return dict(C01=c01, C02=c02, C03=c03, C04=c04, C05=c05, C15=c15)[prop](trace)


# -------------------------------------------------------------------------------------------------

def movements(st):
    """cash movements of one executed step: (master delta, {pid: [signed amounts]}) from the op, its outcome and the
    Transactions the portfolios accepted"""
    op, ok = st['op'], st['out'] == 'ok'
    k = op[0]
    dm = F(0)
    per = {}
    if ok:
        if k == 'subA':
            dm += fx(op[1])
        elif k == 'wdA':
            dm -= fx(op[1])
        elif k == 'subP':
            dm -= fx(op[2]); per.setdefault(op[1], []).append(('subscription', fx(op[2])))
        elif k == 'wdP':
            dm += fx(op[2]); per.setdefault(op[1], []).append(('withdrawal', -fx(op[2])))
        elif k == 'pfsub':
            per.setdefault(op[1], []).append(('subscription', fx(op[3])))
        elif k == 'pfwd':
            per.setdefault(op[1], []).append(('withdrawal', -fx(op[3])))
    for t in st['txns']:
        if t['ok']:
            per.setdefault(t['pid'], []).append(('asset_transaction', -(fx(t['price']) * t['qty'] + fx(t['commission'])), t))
    return dm, per


def c01(trace):
    out = Out()
    funds = trace['case']['funds']
    master = fx(funds) if funds > 0 else F(0)
    cash = {}
    pre = trace['init']
    submitter = {}
    for i, st in enumerate(trace['steps']):
        post = st['post']
        scale = F(snap_scale(pre, post, st['op']))
        tol = scale / 10 ** 9 + F(1, 10 ** 9)
        # a fill moves the cash of the portfolio the order was submitted to, and of no other
        if st['op'][0] == 'submit' and st['out'] == 'ok' and st.get('order_id') is not None:
            submitter.setdefault(st['order_id'], set()).add(st['op'][1])
        for t in st.get('txns', []):
            if st['op'][0] == 'update' and t.get('ok'):
                # the commission of a broker fill is what the broker's fee model charges for it, whatever the order object carries
                wants, ctol = fee_wants(trace['case']['fee'], t)
                if not any(abs(fx(t['commission']) - w) <= ctol for w in wants):
                    out.add(i, 'the fill of %+d %s was debited a commission of %r; the fee model charges %s'
                            % (t['qty'], t['asset'], t['commission'], [float(w) for w in wants]), 'commission-not-the-fee-models')
            if t.get('id') in submitter and t['pid'] not in submitter[t['id']]:
                out.add(i, 'the fill of order %s (%s x %s), submitted to portfolio %s, was debited to portfolio %s'
                        % (t['id'], t['qty'], t['asset'], sorted(submitter[t['id']]), t['pid']), 'fill-in-another-portfolio')
        dm, per = movements(st)
        master += dm
        if abs(fx(post['master']) - master) > tol:
            out.add(i, 'master cash %r differs from initial funds + account transfers - portfolio transfers = %s'
                    % (post['master'], float(master)), 'master-cash')
            master = fx(post['master'])
        if isinstance(post.get('cash_api'), dict):
            out.add(i, 'get_account_cash_balance raised %s' % post['cash_api']['error'], 'cash-getter')
        for p in post['pfs']:
            pid = p['id']
            moves = per.get(pid, [])
            c0 = cash.get(pid, F(0))
            run = c0
            evs = p['hist_new']
            if len(evs) != len(moves):
                out.add(i, 'portfolio %s history gained %d events for %d cash movements' % (pid, len(evs), len(moves)),
                        'history-length')
            if p.get('hist_df_len') is not None and p['hist_df_len'] != p['hist_len']:
                out.add(i, 'portfolio %s: the exported history (history_to_df) has %r rows for %d events' % (pid, p['hist_df_len'], p['hist_len']),
                        'exported-history-length')
            for ev, mv in zip(evs, moves):
                run += mv[1]
                kind, amt = mv[0], mv[1]
                if ev['kind'] != kind:
                    out.add(i, 'history event kind %s for a %s' % (ev['kind'], kind), 'history-kind')
                if kind == 'subscription':
                    shown, other = ev['credit'], ev['debit']
                    want = amt
                elif kind == 'withdrawal':
                    shown, other = ev['debit'], ev['credit']
                    want = -amt
                else:
                    t = mv[2]
                    if ev['time'] != t['time'] or ev['qty'] != t['qty'] or ev['asset'] != t['asset'].upper():
                        out.add(i, 'history entry %r does not describe fill %r' % (ev, t), 'history-fill')
                    if t['qty'] >= 0:
                        shown, other, want = ev['debit'], ev['credit'], -amt
                    else:
                        shown, other, want = ev['credit'], ev['debit'], amt
                half = F(1, 200) + tol
                if abs(fx(shown) - want) > half or other != 0.0:
                    out.add(i, 'history amount %r (other side %r) is not the movement %s rounded to cents'
                            % (shown, other, float(want)), 'history-amount')
                if abs(fx(ev['balance']) - run) > half:
                    out.add(i, 'history balance %r is not the running cash %s rounded to cents'
                            % (ev['balance'], float(run)), 'history-balance')
                for v in (shown, ev['balance']):
                    c = fx(v) * 100
                    if abs(c - round(c)) > F(1, 10 ** 4):
                        out.add(i, 'history value %r is not a whole number of cents' % v, 'history-cents')
            run = c0 + sum((m[1] for m in moves), F(0))
            if abs(fx(p['cash']) - run) > tol:
                out.add(i, 'portfolio %s cash %r differs from its ledger %s (transfers in - out - sum(price*qty + commission))'
                        % (pid, p['cash'], float(run)), 'portfolio-cash')
                run = fx(p['cash'])
            cash[pid] = run
            if isinstance(p.get('cash_api'), dict) or p.get('cash_api') != p['cash']:
                out.add(i, 'get_portfolio_cash_balance(%s) = %r, cash = %r' % (pid, p.get('cash_api'), p['cash']), 'cash-getter')
        for key, per_key in (('acct_eq', 'equity'), ('acct_mv', 'tmv')):
            a = post[key]
            if 'error' in a:
                if post['pfs']:
                    out.add(i, '%s not obtainable: %s' % (key, a['error']), 'aggregate-raises:' + key)
                continue
            want = sum((fx(p[per_key]) for p in post['pfs'] if not isinstance(p[per_key], dict)), F(0))
            if abs(fx(a['master']) - want) > tol:
                out.add(i, '%s master %r is not the sum of the per-portfolio figures %s' % (key, a['master'], float(want)),
                        'aggregate-sum')
            for p in post['pfs']:
                if p['id'] not in a or (not isinstance(p[per_key], dict) and abs(fx(a[p['id']]) - fx(p[per_key])) > tol):
                    out.add(i, '%s[%s] differs from the per-portfolio getter' % (key, p['id']), 'aggregate-entry')
        pre = post
    return out.items


def apply_fills_marks(st, total, lastpx, openfills):
    """update the fill bookkeeping with the accepted marks and fills of one step, in the order the code made them"""
    for m in st['marks']:
        if m['ok'] and m['held']:
            if m['price'] != m['price']:
                lastpx.pop((m['pid'], m['asset']), None)     # marked with NaN (no quote): the value is not judged until a price is seen
                continue
            lastpx[(m['pid'], m['asset'])] = fx(m['price'])
    for t in st['txns']:
        if not t['ok']:
            continue
        key = (t['pid'], t['asset'])
        before = total.get(key, 0)
        total[key] = before + t['qty']
        lastpx[key] = fx(t['price'])
        if before == 0:
            openfills[key] = []
        openfills.setdefault(key, []).append((t['qty'], fx(t['price']), fx(t['commission'])))
        if total[key] == 0:
            openfills[key] = []


def c02(trace):
    out = Out()
    total, lastpx, openfills = {}, {}, {}
    pre = trace['init']
    ordered = {}
    for i, st in enumerate(trace['steps']):
        post = st['post']
        # a fill is in the asset, and for the quantity, of the order it executes (symbols are compared as they were given)
        if st['op'][0] == 'submit' and st['out'] == 'ok' and st.get('order_id') is not None:
            ordered.setdefault(st['order_id'], []).append((st['op'][2], st['op'][3]))
        if st['op'][0] == 'update':
            for t in st['txns']:
                if t.get('id') in ordered and (t['asset'], t['qty']) not in ordered[t['id']]:
                    out.add(i, 'the fill of order %s is booked as %+d %r; the order was for %r' % (t['id'], t['qty'], t['asset'], ordered[t['id']]),
                            'fill-differs-from-its-order')
        apply_fills_marks(st, total, lastpx, openfills)
        tol = F(snap_scale(pre, post)) / 10 ** 9 + F(1, 10 ** 9)
        if st['op'][0] == 'update' and st['out'] == 'ok':
            # every held asset is valued at the latest price seen: an update marks all of them
            held_pre = [(p['id'], q['asset']) for p in pre['pfs'] for q in p['positions']]
            marked = [(m['pid'], m['asset']) for m in st['marks'] if m['held']]
            if sorted(held_pre) != sorted(marked):
                out.add(i, 'update marked %r, held assets were %r' % (marked, held_pre), 'update-marks')
        for p in post['pfs']:
            pid = p['id']
            if 'error' in p['api']:
                out.add(i, 'get_portfolio_as_dict raised %s' % p['api']['error'], 'holdings-getter')
                continue
            want_held = sorted(a for (pp, a), q in total.items() if pp == pid and q != 0)
            if sorted(p['api'].keys()) != want_held:
                out.add(i, 'portfolio %s reports holdings %r, fills net to non-zero for %r'
                        % (pid, sorted(p['api'].keys()), want_held), 'membership')
            mv = F(0)
            for a, row in p['api'].items():
                q = total.get((pid, a), 0)
                if float(row['quantity']) != float(q):
                    out.add(i, 'quantity of %s/%s is %r, signed sum of fills is %d' % (pid, a, row['quantity'], q), 'quantity')
                px = lastpx.get((pid, a))
                if px is None or math.isnan(row['market_value']):
                    continue
                if abs(fx(row['market_value']) - q * px) > tol:
                    out.add(i, 'market value of %s/%s is %r, quantity x latest price is %s'
                            % (pid, a, row['market_value'], float(q * px)), 'market-value')
                mv += q * px
            if not isinstance(p['tmv'], dict) and not math.isnan(p['tmv']) and abs(fx(p['tmv']) - mv) > tol:
                out.add(i, 'total market value %r of %s is not the sum over holdings %s' % (p['tmv'], pid, float(mv)), 'total-mv')
            if not isinstance(p['equity'], dict) and not isinstance(p['tmv'], dict) and not math.isnan(p['equity']):
                if abs(fx(p['equity']) - (fx(p['tmv']) + fx(p['cash']))) > tol:
                    out.add(i, 'total equity %r != cash + market value' % p['equity'], 'equity')
        pre = post
    return out.items


def c03(trace):
    out = Out()
    total, lastpx, openfills = {}, {}, {}
    pre = trace['init']
    for i, st in enumerate(trace['steps']):
        post = st['post']
        apply_fills_marks(st, total, lastpx, openfills)
        pre_rows = {(p['id'], a): row for p in pre['pfs'] if 'error' not in p['api'] for a, row in p['api'].items()}
        filled = set((t['pid'], t['asset']) for t in st['txns'])
        for p in post['pfs']:
            pid = p['id']
            if 'error' in p['api']:
                continue
            # the portfolio's aggregate P&L figures are the sums of its positions' figures
            for agg, col in (('pnl', 'total_pnl'), ('realised', 'realised_pnl'), ('unrealised', 'unrealised_pnl')):
                vals = [row[col] for row in p['api'].values()]
                if isinstance(p.get(agg), dict) or any(math.isnan(v) for v in vals) or (isinstance(p.get(agg), float) and math.isnan(p[agg])):
                    continue
                want = sum((fx(v) for v in vals), F(0))
                scale_ = sum((abs(fx(v)) for v in vals), F(0))
                if abs(fx(p[agg]) - want) > scale_ / 10 ** 9 + F(1, 10 ** 6):
                    out.add(i, 'portfolio %s %s = %r, the sum over its positions is %s' % (pid, col, p[agg], float(want)), 'aggregate-pnl')
            for a, row in p['api'].items():
                key = (pid, a)
                fl = openfills.get(key)
                px = lastpx.get(key)
                if not fl or px is None or any(math.isnan(row[k]) for k in ('total_pnl', 'realised_pnl', 'unrealised_pnl')):
                    continue
                gross = sum(abs(pp * q) for q, pp, c in fl) + sum(c for q, pp, c in fl) + abs(px * total[key])
                tol = gross / 10 ** 9 + F(1, 10 ** 9)
                tot, rea, unr = fx(row['total_pnl']), fx(row['realised_pnl']), fx(row['unrealised_pnl'])
                if abs(tot - (rea + unr)) > tol:
                    out.add(i, 'total P&L %r != realised %r + unrealised %r (%s/%s)' % (row['total_pnl'], row['realised_pnl'],
                                                                                     row['unrealised_pnl'], pid, a), 'split')
                net = total[key]
                rhs = px * net - sum(pp * q for q, pp, c in fl) - sum(c for q, pp, c in fl)
                if abs(tot - rhs) > tol:
                    out.add(i, 'total P&L %r of %s/%s != market value - sum(price*qty) - commissions = %s (fills %s)'
                            % (row['total_pnl'], pid, a, float(rhs), [(q, float(pp), float(c)) for q, pp, c in fl]), 'reconcile')
                if net > 0:
                    side = [(q, pp, c) for q, pp, c in fl if q > 0]
                    avg = (sum(pp * q for q, pp, c in side) + sum(c for q, pp, c in side)) / sum(q for q, pp, c in side)
                else:
                    side = [(-q, pp, c) for q, pp, c in fl if q < 0]
                    avg = (sum(pp * q for q, pp, c in side) - sum(c for q, pp, c in side)) / sum(q for q, pp, c in side)
                if abs(unr - (px - avg) * net) > tol:
                    out.add(i, 'unrealised P&L %r of %s/%s != (price - average cost) x net quantity = %s'
                            % (row['unrealised_pnl'], pid, a, float((px - avg) * net)), 'unrealised')
                # re-marking changes unrealised P&L only
                if key in pre_rows and key not in filled:
                    pr = pre_rows[key]
                    if pr['realised_pnl'] != row['realised_pnl'] or pr['quantity'] != row['quantity']:
                        out.add(i, 'a price mark changed realised P&L or quantity of %s/%s: %r -> %r'
                                % (pid, a, (pr['realised_pnl'], pr['quantity']), (row['realised_pnl'], row['quantity'])), 'remark')
        pre = post
    return out.items


def c04(trace):
    out = Out()
    pending = {}
    filled_ids, submitted_ids = {}, {}
    pre = trace['init']
    last_t = None
    for i, st in enumerate(trace['steps']):
        post = st['post']
        k = st['op'][0]
        for p in post['pfs']:
            pending.setdefault(p['id'], [])
        if k == 'submit':
            pid = st['op'][1]
            known = any(p['id'] == pid for p in pre['pfs'])
            if known and st['out'] != 'ok':
                out.add(i, 'order for existing portfolio refused: %s' % st['out'], 'submit-refused')
            if st['out'] == 'ok':
                submitted_ids[st['order_id']] = submitted_ids.get(st['order_id'], 0) + 1
                pending.setdefault(pid, []).append((st['order_id'], st['op'][2], st['op'][3]))
                a, b = obs(pre), obs(post)
                if a[0] != b[0] or [(x[0], x[1], x[2], x[4]) for x in a[1]] != [(x[0], x[1], x[2], x[4]) for x in b[1]]:
                    out.add(i, 'submitting an order changed cash, holdings or history', 'submit-changed-state')
        if k == 'update':
            t = st['op'][1]
            quoted = all(x[1] in st['quotes'] for q_ in pending.values() for x in q_)
            clocks = [pre['clock']] + [p_['clock'] for p_ in pre['pfs']] + [q_['clock'] for p_ in pre['pfs'] for q_ in p_['positions']]
            neg_held = any(q_['asset'] in st['quotes'] and sum(st['quotes'][q_['asset']]) < 0
                           for p_ in pre['pfs'] for q_ in p_['positions'])
            if st['out'] != 'ok' and quoted and not neg_held and t >= max(clocks) and (last_t is None or t >= last_t):
                # every pending order has a quote and no clock regresses: the update goes through, whatever else is unquoted
                out.add(i, 'update(%d) was refused (%s) although every pending order is quoted and no clock regresses; held without a quote: %r' % (
                    t, st['out'], sorted(set(q_['asset'] for p_ in pre['pfs'] for q_ in p_['positions'] if q_['asset'] not in st['quotes']))),
                    'update-refused')
            if st['out'] != 'ok' or (last_t is not None and t < last_t):
                # outside the quantifier (missing quote / regressing clock): resynchronise
                pending = {p['id']: [tuple(x) for x in p['queue']] for p in post['pfs']}
                pre = post
                last_t = t if last_t is None else max(last_t, t)
                continue
            last_t = t
            fills = [(x['pid'], x['id'], x['asset'], x['qty'], x['time']) for x in st['txns']]
            if not is_open(t):
                if fills:
                    out.add(i, 'orders filled at %d while the exchange is closed: %r' % (t, fills), 'fill-while-closed')
            else:
                for pid in list(pending):
                    exp = [x for x in pending[pid] if x[2] < 0] + [x for x in pending[pid] if x[2] >= 0]
                    got = [(f[1], f[2], f[3]) for f in fills if f[0] == pid]
                    if exp != got:
                        out.add(i, 'portfolio %s: fills at the open update %r, expected sells first in submission order %r'
                                % (pid, got, exp), 'fill-order-or-quantity')
                    pending[pid] = []
                # filled in full: the holdings of each portfolio moved by exactly the quantities of its fills
                def _qty(snap_):
                    return {(p_['id'], q_['asset']): q_['buyQ'] - q_['sellQ'] for p_ in snap_['pfs'] for q_ in p_['positions']}
                q0, q1 = _qty(pre), _qty(post)
                moved = {}
                for f in fills:
                    moved[(f[0], f[2])] = moved.get((f[0], f[2]), 0) + f[3]
                for key_ in set(q0) | set(q1) | set(moved):
                    if q1.get(key_, 0) - q0.get(key_, 0) != moved.get(key_, 0):
                        out.add(i, 'portfolio %s holds %r of %s after the update, %r before, its fills add up to %r' % (
                            key_[0], q1.get(key_, 0), key_[1], q0.get(key_, 0), moved.get(key_, 0)), 'fill-not-in-holdings')
                for f in fills:
                    if f[4] != t:
                        out.add(i, 'fill stamped %d at update %d' % (f[4], t), 'fill-time')
                    filled_ids[f[1]] = filled_ids.get(f[1], 0) + 1
                    if filled_ids[f[1]] > submitted_ids.get(f[1], 0):
                        out.add(i, 'order %r filled %d times, submitted %d times' % (f[1], filled_ids[f[1]], submitted_ids.get(f[1], 0)), 'filled-twice')
        for p in post['pfs']:
            # the holdings the broker reports (get_portfolio_as_dict) are the holdings: same assets, same quantities, now
            if isinstance(p.get('api'), dict) and 'error' not in p['api']:
                rep = {a: row.get('quantity') for a, row in p['api'].items()}
                act = {q_['asset']: q_['buyQ'] - q_['sellQ'] for q_ in p['positions']}
                if rep != act:
                    out.add(i, 'portfolio %s: the broker reports holdings %r, the portfolio holds %r' % (p['id'], rep, act),
                            'reported-holdings-stale')
        for p in post['pfs']:
            if [tuple(x) for x in p['queue']] != pending.get(p['id'], []):
                out.add(i, 'pending orders of %s are %r, expected %r' % (p['id'], p['queue'], pending.get(p['id'], [])),
                        'pending-queue')
                pending[p['id']] = [tuple(x) for x in p['queue']]
        pre = post
    return out.items


def fee_wants(fee, x):
    """what the configured fee model charges for the fill `x` (exact; either side of a near-tie of the rounded consideration)"""
    prod = fx(x['price']) * x['qty']
    cands = {rhe(prod)}
    fr = prod - math.floor(prod)
    if fr != F(1, 2) and abs(fr - F(1, 2)) < F(1, 10 ** 6):
        # the float product may land on either side of a near tie; an exact tie goes to the even integer
        cands |= {math.floor(prod), math.floor(prod) + 1}
    if fee[0] == 'Z':
        wants = [F(0)]
    else:
        wants = [(fx(fee[1]) + fx(fee[2])) * abs(c) for c in cands]
    return wants, abs(prod) / 10 ** 9 + F(1, 10 ** 9)


def c05(trace):
    out = Out()
    fee = trace['case']['fee']
    pre = trace['init']
    for i, st in enumerate(trace['steps']):
        post = st['post']
        if st['op'][0] == 'update' and st['out'] == 'ok':
            t = st['op'][1]
            delta = {}
            for x in st['txns']:
                q = st['quotes'].get(x['asset'])
                if q is None:
                    continue
                bid, ask = q
                side = ask if x['qty'] > 0 else bid
                if x['time'] != t:
                    out.add(i, 'fill stamped %d, update time %d' % (x['time'], t), 'time')
                if x['price'] != side:
                    out.add(i, 'fill of %+d %s priced %r; quote bid %r ask %r' % (x['qty'], x['asset'], x['price'], bid, ask), 'price-side')
                prod = fx(x['price']) * x['qty']
                wants, tol = fee_wants(fee, x)
                if not any(abs(fx(x['commission']) - w) <= tol for w in wants):
                    out.add(i, 'commission %r on consideration %s; fee model gives %s' % (x['commission'], float(prod),
                                                                                     [float(w) for w in wants]), 'commission')
                if x['commission'] < 0:
                    out.add(i, 'negative commission %r' % x['commission'], 'commission-negative')
                if x['ok']:
                    delta[x['pid']] = delta.get(x['pid'], F(0)) - (fx(x['price']) * x['qty'] + fx(x['commission']))
            pre_cash = {p['id']: p['cash'] for p in pre['pfs']}
            for p in post['pfs']:
                if p['id'] in pre_cash:
                    d = fx(p['cash']) - fx(pre_cash[p['id']])
                    want = delta.get(p['id'], F(0))
                    tol = F(snap_scale(pre, post)) / 10 ** 9 + F(1, 10 ** 9)
                    if abs(d - want) > tol:
                        out.add(i, 'cash of %s moved by %s over the update; fills cost %s' % (p['id'], float(d), float(-want)), 'debit')
        pre = post
    return out.items


def expected_refusal(op, pre, supported=SUPPORTED_CURRENCIES):
    """the documented refusal (error class) of a request given the observed pre-state, or None"""
    k = op[0]
    pf = {p['id']: p for p in pre['pfs']}
    if k == 'subA':
        return 'ValueError' if op[1] < 0 else None
    if k == 'wdA':
        return 'ValueError' if op[1] < 0 or op[1] > pre['master'] else None
    if k == 'create':
        return 'ValueError' if op[1] in pf else None
    if k == 'subP':
        if op[2] < 0:
            return 'ValueError'
        if op[1] not in pf:
            return 'KeyError'
        if op[2] > pre['master'] or pre['clock'] < pf[op[1]]['clock']:
            return 'ValueError'
        return None
    if k == 'wdP':
        if op[2] < 0:
            return 'ValueError'
        if op[1] not in pf:
            return 'KeyError'
        if op[2] > pf[op[1]]['cash'] or pre['clock'] < pf[op[1]]['clock']:
            return 'ValueError'
        return None
    if k == 'submit':
        return 'KeyError' if op[1] not in pf else None
    if k in ('pfsub', 'pfwd', 'pfmark', 'pftxn') and op[1] not in pf:
        return None          # the harness indexes broker.portfolios directly: not a broker request
    if k == 'pfsub':
        return 'ValueError' if op[2] < pf[op[1]]['clock'] or op[3] < 0 else None
    if k == 'pfwd':
        return 'ValueError' if op[2] < pf[op[1]]['clock'] or op[3] < 0 or op[3] > pf[op[1]]['cash'] else None
    if k == 'pfmark':
        pos = [q for q in pf[op[1]]['positions'] if q['asset'] == op[2]]
        if pos and (op[3] < 0 or op[4] < pf[op[1]]['clock']):
            return 'ValueError'
        # the holding's own validation (Position.update_current_price): a positive price, not earlier than the holding's clock
        if pos and (op[3] <= 0 or op[4] < pos[0]['clock']):
            return 'ValueError'
        return None
    if k == 'pftxn':
        if op[4] < pf[op[1]]['clock']:
            return 'ValueError'
        pos = [q for q in pf[op[1]]['positions'] if q['asset'] == op[2]]
        # a fill into an existing holding is validated by the holding (Position.transact): positive price, not earlier than its clock
        if pos and op[3] != 0 and (op[5] <= 0 or op[4] < pos[0]['clock']):
            return 'ValueError'
        return None
    if k == 'q':
        what, arg = op[1], op[2]
        if what == 'cash':
            return 'ValueError' if arg not in supported else None
        if arg in pf:
            return None
        return 'ValueError' if what == 'pfcash' else 'KeyError'
    return None


def c15(trace):
    out = Out()
    pre = trace['init']
    for i, st in enumerate(trace['steps']):
        post = st['post']
        op = st['op']
        if op[0] in C15_OPS:
            want = expected_refusal(op, pre, trace.get('supported', SUPPORTED_CURRENCIES))
            if want is not None and st['out'] != want:
                out.add(i, '%r must be refused with %s, got %s' % (op, want, st['out']), 'refusal-kind')
            if st['out'] != 'ok' and obs(pre) != obs(post):
                out.add(i, 'refused request %r (%s) changed state: %r -> %r' % (op, st['out'], obs(pre), obs(post)),
                        'state-changed-on-refusal')
        if op[0] == 'update':
            # an update that has to place a negative mark on a holding is refused (ValueError) and leaves cash, holdings,
            # pending orders and history as they were — also when the same update is asked for again at an unchanged instant
            qs = st.get('quotes') or {}
            held = sorted(set(q_['asset'] for p_ in pre['pfs'] for q_ in p_['positions']))
            clocks = [pre['clock']] + [p_['clock'] for p_ in pre['pfs']] + [q_['clock'] for p_ in pre['pfs'] for q_ in p_['positions']]
            neg = [a for a in held if a in qs and (qs[a][0] + qs[a][1]) / 2 < 0]
            if neg and all(a in qs for a in held) and op[1] >= max(clocks):
                if st['out'] != 'ValueError':
                    out.add(i, 'update(%d) with a negative mark due on held %r must be refused with ValueError, got %s' % (
                        op[1], neg, st['out']), 'negative-mark-update')
                a_, b_ = obs(pre), obs(post)
                frz = lambda o_: (o_[0], [(x[0], x[1], [(y[0], y[1]) for y in x[2]], x[3], x[4]) for x in o_[1]])
                if frz(a_) != frz(b_):
                    out.add(i, 'update(%d) with a negative mark due changed cash, holdings, pending orders or history' % op[1],
                            'negative-mark-update-changed-state')
        pre = post
    return out.items
