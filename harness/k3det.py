"""K3D harness (C18 at the broker level): the same operation sequence, with the broker's own random order identifiers, is run
twice in this process and once per hash seed in fresh interpreters; everything observable except the identifiers must be
bit-identical (fills and their order, cash, holdings in dictionary order, history, valuations after every step)."""
import collections
import hashlib
import json
import os
import subprocess
import sys
import tempfile

import k3_gen
import k3_real
from common import Tally, rng_for, VERIF, f2b


def canon(x):
    if isinstance(x, float):
        return f2b(x)
    if isinstance(x, dict):
        return {k: canon(v) for k, v in x.items() if k not in ('order_id', 'orderId')}
    if isinstance(x, (list, tuple)):
        return [canon(v) for v in x]
    return x


def digest(trace):
    steps = []
    for st in trace.get('steps', []):
        post = st['post']
        pfs = []
        for d in post.get('pfs', []):
            d = dict(d)
            d['queue'] = [[a, q] for (_id, a, q) in d.get('queue', [])]
            pfs.append(d)
        txns = [{k: v for k, v in t.items() if k != 'id'} for t in st['txns']]
        steps.append(dict(out=st['out'], value=st['value'], txns=txns, marks=st['marks'], post=dict(post, pfs=pfs)))
    body = canon(dict(new=trace.get('new_out'), steps=steps))
    return hashlib.sha256(json.dumps(body, sort_keys=True).encode()).hexdigest()


SUB = r'''
import json, sys
sys.path.insert(0, %r)
import k3det, k3_real
cases = json.load(open(sys.argv[1]))
print(json.dumps([k3det.digest(k3_real.execute(c)) for c in cases]))
'''


def sub_digests(path, hs):
    env = dict(os.environ, PYTHONHASHSEED=str(hs), PYTHONDONTWRITEBYTECODE='1')
    p = subprocess.run([sys.executable, '-c', SUB % os.path.join(VERIF, 'harness'), path], capture_output=True, text=True, env=env, timeout=1200)
    if p.returncode != 0:
        from common import Infra
        raise Infra('sub-process run failed: ' + p.stderr[-400:])
    return json.loads(p.stdout.strip().split('\n')[-1])


def nontrivial(case, real):
    return any(st['txns'] for st in real.get('steps', []))


def run(prop, tier, seed, n_cases, corpus=()):
    rng = rng_for(seed, 'K3D' + prop, tier)
    cases = [c for c in corpus]
    for _ in range(n_cases):
        c = k3_gen.gen_case(rng)
        c['auto_ids'] = True
        cases.append(c)
    reals = [k3_real.execute(c) for c in cases]
    d1 = [digest(r) for r in reals]
    d2 = [digest(k3_real.execute(c)) for c in cases]
    runs = collections.OrderedDict()
    runs['same-process-again'] = d2
    with tempfile.NamedTemporaryFile('w', suffix='.json', delete=False) as f:
        json.dump(cases, f)
        path = f.name
    try:
        from multiprocessing.pool import ThreadPool
        seeds = [rng.randrange(1, 10 ** 6) for _ in range(2 if tier == 'quick' else 6)]
        with ThreadPool(len(seeds)) as tp:
            for hs, ds in zip(seeds, tp.map(lambda h: sub_digests(path, h), seeds)):
                runs['fresh-interpreter-hashseed-%d' % hs] = ds
    finally:
        os.unlink(path)
    oracle = []
    hist = collections.Counter()
    for i, c in enumerate(cases):
        hist['portfolios:%d' % len(set(op[1] for op in c['ops'] if op[0] == 'create'))] += 1
        if nontrivial(c, reals[i]):
            hist['with-fills'] += 1
        for k, ds in runs.items():
            if ds[i] != d1[i]:
                oracle.append(dict(what='broker run "%s" differs from the first run of the same operation sequence (order identifiers aside)' % k,
                                   key='differs:' + k.split('-hashseed')[0], case_index=i))
                break
    stats = collections.Counter(cases=len(cases), corpus_cases=len(corpus), repeated_runs=len(cases) * (1 + len(runs)))
    return dict(cases=cases, reals=reals, mismatches=[], oracle=oracle, stats=stats, tally=Tally(), hist=hist)
