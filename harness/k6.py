"""K6 harness: performance statistics (C17).

Case: {"start_day": day number (a business day), "equity": [e0, e1, ...] (one per business day), "periods": 252, "scale": k}
"""
import collections
import datetime as dtm
import json
import math
import os
import tempfile
import warnings
from fractions import Fraction as F

warnings.filterwarnings('ignore')
import numpy as np
import pandas as pd

from common import f2b, b2f, cont_match, run_driver_json, Tally, rng_for, scale_of

import qstrader.statistics.performance as perf
from qstrader.statistics.json_statistics import JSONStatistics

EPOCH = dtm.date(1970, 1, 1)


def bdays_from(d0, n):
    out, d = [], d0
    while len(out) < n:
        if (d + 3) % 7 <= 4:
            out.append(d)
        d += 1
    return out


def gen_case(rng):
    n = rng.choice([2, 3, 5, 10, 22, 30, 64, 130, 260, 300, 520, 800]) if rng.random() < 0.85 else rng.randint(2, 800)
    d0 = rng.randrange(10957, 19000)      # 2000 .. 2022
    if rng.random() < 0.04:
        # decades of daily observations (every reported series has one entry per observation, however many there are)
        n = rng.choice([5001, 5200, 6500, 10400])
        d0 = rng.randrange(3653, 9000)    # from the 1980s / 1990s on
    if rng.random() < 0.06:
        d0 = rng.randrange(-25000, 0)     # curves dated before 1970
    elif rng.random() < 0.3:
        y = rng.randrange(2000, 2022)
        d0 = (dtm.date(y, 12, rng.randint(20, 31)) - EPOCH).days      # year crossing early
    e = rng.choice([1e6, 1e5, 1234567.89, 100.0])
    eq = [e]
    mode = rng.choice(['walk', 'first-peak', 'monotone-up', 'monotone-down', 'flat-stretches', 'walk', 'walk'])
    if n > 1000:
        mode = rng.choice(['walk', 'flat-stretches'])      # thousands of one-sided steps leave the range of a double
    for i in range(1, n):
        if mode == 'walk':
            e = e * math.exp(rng.gauss(0.0003, 0.012))
        elif mode == 'first-peak':
            e = e * math.exp(rng.gauss(-0.001, 0.008)) if i < n * 0.7 or rng.random() < 0.5 else e * 1.001
            e = min(e, eq[0] * 0.9999)
        elif mode == 'monotone-up':
            e = e * (1 + rng.uniform(0, 0.01))
        elif mode == 'monotone-down':
            e = e * (1 - rng.uniform(0, 0.01))
        else:
            if rng.random() < 0.6:
                pass
            else:
                e = e * math.exp(rng.gauss(0, 0.01))
        if rng.random() < 0.1:
            e = round(e, 2)
        eq.append(e)
    if rng.random() < 0.1:
        # whole currency units / index points: the column is of integer type
        eq = [int(round(v)) for v in eq]
        mode += '+integers'
    bench = None
    if rng.random() < 0.5:
        b = rng.choice([1e6, 5e5, 250.0])
        bench = [b]
        for i in range(1, n):
            b = b * math.exp(rng.gauss(0.0002, 0.009))
            bench.append(b)
        if rng.random() < 0.1:
            bench = [int(round(v)) for v in bench]
    return dict(late_alloc=rng.random() < 0.3, start_day=d0, equity=eq, periods=rng.choice([252, 252, 252, 12, 52, 365.25, 252 * 6.5, 50.4, 252 / 5.0, 260.714]), scale=rng.choice([2.0, 0.5, 1000.0, 3.7]), mode=mode,
                benchmark=bench)


def series(x):
    return [float(v) for v in x]


def real_stats(case, eq):
    days = bdays_from(case['start_day'], len(eq))
    idx = [EPOCH + dtm.timedelta(days=d) for d in days]
    df = pd.DataFrame({'Equity': eq}, index=idx)
    rets = df['Equity'].pct_change().fillna(0.0)
    cum = np.exp(np.log(1 + rets).cumsum())
    dd, mdd, dur = perf.create_drawdowns(cum)
    res = dict(days=days, returns=series(rets), cum_returns=series(cum), drawdowns=series(dd), max_drawdown=float(mdd),
               max_drawdown_duration=int(dur), cagr=float(perf.create_cagr(cum, case['periods'])),
               sharpe=float(perf.create_sharpe_ratio(rets, case['periods'])),
               sortino=float(perf.create_sortino_ratio(rets, case['periods'])))
    for name in ('weekly', 'monthly', 'yearly'):
        agg = perf.aggregate_returns(rets, name)
        res[name] = [[[int(k) for k in (key if isinstance(key, tuple) else (key,))], float(v)] for key, v in agg.items()]
    return res, df


def execute(case):
    res, df = real_stats(case, case['equity'])
    # the two reporters
    # the allocation table handed to the JSON reporter need not cover the whole curve (first rebalance later than the first point)
    k0 = (len(df) // 3) if case.get('late_alloc') else 0
    alloc = pd.DataFrame({'EQ:AAA': [1.0] * (len(df) - k0)}, index=df.index[k0:])
    bdf = None
    if case.get('benchmark'):
        res['bench'], bdf = real_stats(case, case['benchmark'])
    js = JSONStatistics(df.copy(), alloc, benchmark_curve=None if bdf is None else bdf.copy(), periods=case['periods'], output_filename=os.path.join(tempfile.gettempdir(), 'qsv_stats_%d.json' % os.getpid()))
    st = js.statistics['strategy']
    res['json'] = dict(returns=[float(v) for k, v in st['returns']], cum_returns=[float(v) for k, v in st['cum_returns']],
                       drawdowns=[float(v) for k, v in st['drawdowns']], max_drawdown=float(st['max_drawdown']),
                       max_drawdown_duration=int(st['max_drawdown_duration']), mean_returns=float(st['mean_returns']),
                       stdev_returns=float(st['stdev_returns']), cagr=float(st['cagr']), annualised_vol=float(st['annualised_vol']),
                       sharpe=float(st['sharpe']), sortino=float(st['sortino']),
                       monthly=[[[int(k[0]), int(k[1])], float(v)] for k, v in st['monthly_agg_returns']],
                       yearly=[[[int(k)], float(v)] for k, v in st['yearly_agg_returns']])
    if bdf is not None:
        sb = js.statistics.get('benchmark')
        res['json_bench'] = None if sb is None else dict(
            max_drawdown=float(sb['max_drawdown']), max_drawdown_duration=int(sb['max_drawdown_duration']), cagr=float(sb['cagr']),
            sharpe=float(sb['sharpe']), sortino=float(sb['sortino']), mean_returns=float(sb['mean_returns']),
            stdev_returns=float(sb['stdev_returns']), cum_returns=[float(v) for k, v in sb['cum_returns']])
    try:
        import contextlib
        import io
        with contextlib.redirect_stdout(io.StringIO()):
            js.to_file()
        with open(js.output_filename) as f:
            back = json.load(f)
        res['json_file'] = dict(sharpe=back['strategy']['sharpe'], max_drawdown=back['strategy']['max_drawdown'],
                                cagr=back['strategy']['cagr'], n_returns=len(back['strategy']['returns']))
    except Exception as e:
        res['json_file'] = {'error': '%s: %s' % (type(e).__name__, str(e)[:100])}
    finally:
        try:
            os.unlink(js.output_filename)
        except OSError:
            pass
    try:
        from qstrader.statistics.tearsheet import TearsheetStatistics
        ts_ = TearsheetStatistics(strategy_equity=df.copy(), benchmark_equity=None if bdf is None else bdf.copy(), periods=case['periods'])
        tr = ts_.get_results(df.copy())
        if bdf is not None:
            tb = ts_.get_results(bdf.copy())
            res['tear_bench'] = dict(sharpe=float(tb['sharpe']), max_drawdown=float(tb['max_drawdown']),
                                     max_drawdown_duration=int(tb['max_drawdown_duration']))
        res['tear'] = dict(sharpe=float(tr['sharpe']), max_drawdown=float(tr['max_drawdown']),
                           max_drawdown_duration=int(tr['max_drawdown_duration']), returns=series(tr['returns']),
                           cum_returns=series(tr['cum_returns']), drawdowns=series(tr['drawdowns']))
    except ImportError as e:
        res['tear'] = {'error': 'ImportError'}
    except Exception as e:
        # the tearsheet's figures could not be obtained for a curve the other reporter handles: reported by the oracle
        res['tear'] = {'error': '%s: %s' % (type(e).__name__, str(e)[:120])}
    # scale invariance: the same curve multiplied by a positive constant
    res['scaled'], _ = real_stats(case, [case['scale'] * x for x in case['equity']])
    return res


def model_line(case, real):
    toks = ['stats', str(f2b(float(case['periods']))), str(len(case['equity']))]
    for d, e in zip(real['days'], case['equity']):
        toks += [str(d), str(f2b(e))]
    return ' '.join(toks)


def close(a, b, rel=1e-9, abs_=1e-12):
    if math.isnan(a) or math.isnan(b):
        return math.isnan(a) and math.isnan(b)
    if math.isinf(a) or math.isinf(b):
        return a == b
    return abs(a - b) <= rel * max(1.0, abs(a), abs(b)) + abs_


def cmp_num(tally, mism, what, impl, mbits):
    m = b2f(mbits)
    if f2b(impl) == mbits:
        tally.bit_exact += 1
    elif close(impl, m):
        tally.tolerance += 1
    else:
        mism.append(dict(what=what, impl=impl, model=m))


def compare(case, real, m, tally):
    mism = []
    if m.get('out') != 'ok':
        return [dict(what='model refused', impl='ok', model=m.get('out'))]
    for key in ('returns', 'cum_returns', 'drawdowns'):
        a, b = real[key], m[key]
        if len(a) != len(b):
            mism.append(dict(what=key + ' length', impl=len(a), model=len(b)))
            continue
        bad = [i for i, (x, y) in enumerate(zip(a, b)) if not close(x, b2f(y))]
        tally.tolerance += len(a) - len(bad)
        if bad:
            i = bad[0]
            mism.append(dict(what='%s[%d] (%d entries differ)' % (key, i, len(bad)), impl=a[i], model=b2f(b[i])))
    # near-discontinuity: drawdown != 0 classification depends on exact float equality with the running maximum
    tally.discrete += 1
    if real['max_drawdown_duration'] != m['max_drawdown_duration']:
        nz_i = [x != 0 for x in real['drawdowns']]
        nz_m = [b2f(x) != 0 for x in m['drawdowns']]
        tiny = [i for i, (p, q) in enumerate(zip(nz_i, nz_m)) if p != q and abs(real['drawdowns'][i]) < 1e-12 and abs(b2f(m['drawdowns'][i])) < 1e-12]
        if tiny and all(p == q or i in tiny for i, (p, q) in enumerate(zip(nz_i, nz_m))):
            tally.near_disc += 1
        else:
            mism.append(dict(what='max_drawdown_duration', impl=real['max_drawdown_duration'], model=m['max_drawdown_duration']))
    for key in ('max_drawdown', 'cagr', 'sharpe', 'sortino'):
        cmp_num(tally, mism, key, real[key], m[key])
    for key in ('mean_returns', 'stdev_returns', 'annualised_vol'):
        cmp_num(tally, mism, 'json ' + key, real['json'][key], m[key])
    for key in ('weekly', 'monthly', 'yearly'):
        a = sorted((tuple(k), v) for k, v in real[key])
        b = sorted((tuple(k), b2f(v)) for k, v in m[key])
        tally.discrete += 1
        if [k for k, v in a] != [k for k, v in b]:
            mism.append(dict(what=key + ' groups', impl=[k for k, v in a][:8], model=[k for k, v in b][:8]))
            continue
        for (k, x), (_, y) in zip(a, b):
            if not close(x, y):
                mism.append(dict(what='%s aggregate %r' % (key, k), impl=x, model=y))
    return mism


def oracle_c17(case, real):
    out = []
    eq = [F(x) for x in case['equity']]
    n = len(eq)
    cum = real['cum_returns']
    rets = real['returns']
    # returns and cumulative returns compound consistently
    prod = F(1)
    for t in range(n):
        want_r = F(0) if t == 0 else eq[t] / eq[t - 1] - 1
        if not close(rets[t], float(want_r)):
            out.append(dict(what='return[%d] = %r, equity ratio - 1 = %r' % (t, rets[t], float(want_r)), key='returns'))
            break
        prod *= 1 + want_r
        if not close(cum[t], float(eq[t] / eq[0])) or not close(cum[t], float(prod)):
            out.append(dict(what='cum_returns[%d] = %r, equity[t]/equity[0] = %r' % (t, cum[t], float(eq[t] / eq[0])), key='cumulative'))
            break
    total = float(eq[-1] / eq[0])
    for key in ('weekly', 'monthly', 'yearly'):
        p = 1.0
        for k, v in real[key]:
            p *= 1.0 + v
        if not close(p, total, rel=1e-8):
            out.append(dict(what='%s aggregates compound to %r, the daily series to %r' % (key, p, total), key='compounding'))
        if sum(1 for _ in real[key]) == 0:
            out.append(dict(what='%s aggregates empty' % key, key='compounding'))
    # drawdown = 1 - value / running maximum (running maximum includes the first observation)
    m = cum[0]
    exp_dd = []
    for t in range(n):
        m = max(m, cum[t])
        exp_dd.append((m - cum[t]) / m)
    bad = [t for t in range(n) if not close(real['drawdowns'][t], exp_dd[t])]
    if bad:
        t = bad[0]
        out.append(dict(what='drawdown[%d] = %r, 1 - value/running maximum = %r (%d dates differ)' % (t, real['drawdowns'][t], exp_dd[t], len(bad)),
                        key='drawdown'))
    if not close(real['max_drawdown'], max(exp_dd)):
        out.append(dict(what='max drawdown %r, definition %r' % (real['max_drawdown'], max(exp_dd)), key='max-drawdown'))
    run = best = 0
    for x in exp_dd:
        run = run + 1 if x != 0 else 0
        best = max(best, run)
    if real['max_drawdown_duration'] != best:
        out.append(dict(what='max drawdown duration %r, longest under-water run %r' % (real['max_drawdown_duration'], best), key='duration'))
    # CAGR, Sharpe, Sortino
    P = case['periods']
    want = cum[-1] ** (P / float(n)) - 1.0
    if not close(real['cagr'], want, rel=1e-8):
        out.append(dict(what='CAGR %r, cum^(periods/n) - 1 = %r' % (real['cagr'], want), key='cagr'))
    mean = math.fsum(rets) / n
    sd = math.sqrt(math.fsum((r - mean) ** 2 for r in rets) / n)
    want = math.sqrt(P) * mean / sd if sd > 0 else (float('nan') if mean == 0 else math.copysign(float('inf'), mean))
    if sd > 1e-14 and not close(real['sharpe'], want, rel=1e-7):
        out.append(dict(what='Sharpe %r, definition %r' % (real['sharpe'], want), key='sharpe'))
    neg = [r for r in rets if r < 0]
    if len(neg) >= 2:
        mn = math.fsum(neg) / len(neg)
        sdn = math.sqrt(math.fsum((r - mn) ** 2 for r in neg) / len(neg))
        if sdn > 1e-14:
            want = math.sqrt(P) * mean / sdn
            if not close(real['sortino'], want, rel=1e-7):
                out.append(dict(what='Sortino %r, definition %r' % (real['sortino'], want), key='sortino'))
    # invariance under scaling
    sc = real['scaled']
    for key in ('max_drawdown', 'cagr', 'sharpe', 'sortino'):
        if not close(real[key], sc[key], rel=1e-6, abs_=1e-9):
            out.append(dict(what='%s changes from %r to %r when equity is multiplied by %r' % (key, real[key], sc[key], case['scale']),
                            key='scale-invariance'))
    if real['max_drawdown_duration'] != sc['max_drawdown_duration']:
        # a flat-versus-epsilon flip under rescaling is float noise only if the affected drawdowns are ~1e-16
        if max(abs(a - b) for a, b in zip(real['drawdowns'], sc['drawdowns'])) > 1e-12:
            out.append(dict(what='drawdown duration changes under scaling', key='scale-invariance'))
    # the reporters agree
    js = real['json']
    for key in ('sharpe', 'sortino', 'cagr', 'max_drawdown'):
        if not close(js[key], real[key]):
            out.append(dict(what='JSON %s %r differs from performance.%s %r' % (key, js[key], key, real[key]), key='reports'))
    if js['max_drawdown_duration'] != real['max_drawdown_duration']:
        out.append(dict(what='JSON duration differs', key='reports'))
    if 'error' in real.get('json_file', {}):
        out.append(dict(what='to_file() failed: %s' % real['json_file']['error'], key='json-file'))
    elif real.get('json_file'):
        jf = real['json_file']
        if not close(jf['sharpe'], js['sharpe']) and not (math.isnan(js['sharpe']) or math.isinf(js['sharpe'])):
            out.append(dict(what='statistics file round trip changes Sharpe', key='json-file'))
    if real.get('bench') is not None:
        jb = real.get('json_bench')
        if jb is None:
            out.append(dict(what='JSON statistics have no benchmark entry although a benchmark curve was supplied', key='reports-benchmark'))
        else:
            for key in ('sharpe', 'sortino', 'cagr', 'max_drawdown'):
                if not close(jb[key], real['bench'][key]):
                    out.append(dict(what='JSON benchmark %s %r differs from performance.%s of the benchmark curve %r' % (
                        key, jb[key], key, real['bench'][key]), key='reports-benchmark'))
            if jb['max_drawdown_duration'] != real['bench']['max_drawdown_duration']:
                out.append(dict(what='JSON benchmark drawdown duration differs', key='reports-benchmark'))
            if len(jb['cum_returns']) != len(real['bench']['cum_returns']) or any(
                    not close(a, b) for a, b in zip(jb['cum_returns'], real['bench']['cum_returns'])):
                out.append(dict(what='JSON benchmark cumulative returns differ', key='reports-benchmark'))
            tbn = real.get('tear_bench')
            if tbn is not None:
                for key in ('sharpe', 'max_drawdown'):
                    if not close(tbn[key], jb[key]):
                        out.append(dict(what='tearsheet benchmark %s %r differs from JSON %r' % (key, tbn[key], jb[key]), key='reports-benchmark'))
    tr = real.get('tear', {})
    if 'error' in tr and tr['error'] != 'ImportError':
        out.append(dict(what='the tearsheet could not report on a curve the JSON export handles: %s' % tr['error'], key='tearsheet-raised'))
    if 'error' not in tr:
        for key in ('sharpe', 'max_drawdown'):
            if not close(tr[key], js[key]):
                out.append(dict(what='tearsheet %s %r differs from JSON %r' % (key, tr[key], js[key]), key='reports'))
        if tr['max_drawdown_duration'] != js['max_drawdown_duration']:
            out.append(dict(what='tearsheet duration differs from JSON', key='reports'))
        for key in ('returns', 'cum_returns', 'drawdowns'):
            if len(tr[key]) != len(js[key]) or any(not close(a, b) for a, b in zip(tr[key], js[key])):
                out.append(dict(what='tearsheet %s differ from JSON' % key, key='reports'))
    return out


def nontrivial(case, real):
    return len(case['equity']) >= 5 and real['max_drawdown'] > 0


def run(prop, tier, seed, n_cases, corpus=()):
    rng = rng_for(seed, 'K6', tier)
    cases = list(corpus) + [gen_case(rng) for _ in range(n_cases)]
    # curves of thousands of observations cost seconds each: a dozen per run, the further ones cut to 800 observations
    n_long = 0
    for c in cases[len(corpus):]:
        if len(c['equity']) > 1000:
            n_long += 1
            if n_long > 12:
                c['equity'] = c['equity'][:800]
                if c.get('benchmark'):
                    c['benchmark'] = c['benchmark'][:800]
    reals = [execute(c) for c in cases]
    outs = run_driver_json('k6', 'float', [model_line(c, r) for c, r in zip(cases, reals)])
    tally, stats, hist = Tally(), collections.Counter(), collections.Counter()
    mism, oracle = [], []
    for i, (c, r, m) in enumerate(zip(cases, reals, outs)):
        hist['mode:' + c.get('mode', 'corpus')] += 1
        if r['cum_returns'] and max(r['cum_returns']) == r['cum_returns'][0] and r['max_drawdown'] > 0:
            hist['first-point-is-peak'] += 1
        if len(r['yearly']) > 1:
            hist['crosses-year'] += 1
        if len(r['monthly']) > 1:
            hist['crosses-month'] += 1
        if any(k[1] == 12 and k[2] == 1 for k, v in r['weekly']) or any(k[1] == 1 and k[2] >= 52 for k, v in r['weekly']):
            hist['iso-week-year-boundary'] += 1
        stats['points'] += len(c['equity'])
        for x in compare(c, r, m, tally):
            x['case_index'] = i
            mism.append(x)
        for f in oracle_c17(c, r):
            f['case_index'] = i
            oracle.append(f)
    stats['cases'] = len(cases)
    stats['corpus_cases'] = len(corpus)
    return dict(cases=cases, reals=reals, mismatches=mism, oracle=oracle, stats=stats, tally=tally, hist=hist)
