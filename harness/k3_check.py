"""K3: per-property projections of the stepwise correspondence (implementation vs Lean model)."""
import math
from fractions import Fraction

from common import f2b, b2f, frac_of, cont_match, scale_of, Tally

PROPS = ('C01', 'C02', 'C03', 'C04', 'C05', 'C15')


def _floats(x, acc):
    if isinstance(x, dict):
        for v in x.values():
            _floats(v, acc)
    elif isinstance(x, (list, tuple)):
        for v in x:
            _floats(v, acc)
    elif isinstance(x, float):
        if not (math.isnan(x) or math.isinf(x)):
            acc.append(abs(x))


def snap_scale(*snaps):
    acc = [1.0]
    for s in snaps:
        _floats(s, acc)
    return max(acc)


class StepCmp(object):
    """Comparison context for one step: implementation post-state vs model outputs (Float and Rat carriers)."""

    def __init__(self, step_idx, step, pre, mf, mr, tally, hist_f=None, hist_r=None):
        self.i = step_idx
        self.step = step
        self.pre = pre
        self.post = step['post']
        self.mf = mf        # last Float-model output of the step
        self.mr = mr        # last Rat-model output of the step
        self.hist_f = hist_f  # pid -> accumulated new events (Float)
        self.hist_r = hist_r
        self.tally = tally
        self.scale = snap_scale(pre, self.post, step['op'], step.get('quotes'))
        self.mism = []

    def bad(self, what, impl=None, model=None):
        self.mism.append(dict(step=self.i, op=self.step['op'], what=what, impl=impl, model=model))

    def cont(self, what, impl, f, r, scale=None):
        if isinstance(impl, dict):
            self.bad(what + ': implementation raised', impl, b2f(f) if isinstance(f, int) else f)
            return
        if not cont_match(impl, f, r, scale or self.scale, self.tally):
            self.bad(what, impl, dict(float=b2f(f), rat=r))

    def disc(self, what, impl, model):
        self.tally.discrete += 1
        if impl != model:
            self.bad(what, impl, model)

    def cents(self, what, impl, f_py, f_np, r):
        """cents-rounded field: bit-equal to either rounding variant, else within tolerance of the exact rounding."""
        if f2b(impl) in (f_py, f_np) or (impl == 0.0 and (b2f(f_py) == 0.0 or b2f(f_np) == 0.0)):
            self.tally.bit_exact += 1
            return
        ref = frac_of(r)
        if ref is not None and abs(Fraction(impl) - ref) <= Fraction(1, 10 ** 9) * Fraction(self.scale):
            self.tally.tolerance += 1
            return
        self.bad(what, impl, dict(py=b2f(f_py), np=b2f(f_np), exact=r))

    # -- helpers over model snapshots ---------------------------------------------------------
    def pfs(self):
        """zip implementation portfolios with model portfolios by id; reports structural differences."""
        sf, sr = self.mf.get('snap'), self.mr.get('snap')
        if sf is None or sr is None:
            self.bad('model produced no snapshot', None, self.mf)
            return []
        ids_i = [p['id'] for p in self.post['pfs']]
        ids_m = [p['id'] for p in sf['pfs']]
        if ids_i != ids_m:
            self.bad('portfolio ids', ids_i, ids_m)
            return []
        return list(zip(self.post['pfs'], sf['pfs'], sr['pfs']))


def pos_by_asset(plist):
    return {p['asset']: p for p in plist}


# ---------------------------------------------------------------------------------------------
# projections

def cmp_out(c, what='outcome'):
    c.disc(what, c.step['out'], c.mf.get('out'))


def proj_c01(c):
    """cash ledger: master, portfolio cash, history, account aggregates (mode B)."""
    k = c.step['op'][0]
    if k not in ('update',):
        cmp_out(c)
    sf, sr = c.mf.get('snap'), c.mr.get('snap')
    if sf is None:
        return
    c.cont('master cash', c.post['master'], sf['master'], sr['master'])
    if isinstance(c.post.get('cash_api'), dict):
        c.bad('get_account_cash_balance raised', c.post['cash_api'])
    for (pi, pf, pr) in c.pfs():
        pid = pi['id']
        c.cont('cash[%s]' % pid, pi['cash'], pf['cash'], pr['cash'])
        if isinstance(pi.get('cash_api'), dict) or pi.get('cash_api') != pi['cash']:
            c.bad('get_portfolio_cash_balance[%s]' % pid, pi.get('cash_api'), pi['cash'])
        hn_i = pi['hist_new']
        hn_f = c.hist_f.get(pid, [])
        hn_r = c.hist_r.get(pid, [])
        c.disc('history[%s]: number of new events' % pid, len(hn_i), len(hn_f))
        for j, (ei, ef, er) in enumerate(zip(hn_i, hn_f, hn_r)):
            tag = 'history[%s][+%d]' % (pid, j)
            c.disc(tag + ' (time, kind)', (ei['time'], ei['kind']), (ef['time'], ef['kind']))
            if ei['kind'] == 'asset_transaction':
                c.disc(tag + ' (side, qty, asset)', (ei['long'], ei['qty'], ei['asset']),
                       (ef['long'], ef['qty'], ef['asset'].upper()))
            c.cents(tag + ' debit', ei['debit'], ef['debit'], ef['debit_np'], er['debit'])
            c.cents(tag + ' credit', ei['credit'], ef['credit'], ef['credit_np'], er['credit'])
            c.cents(tag + ' balance', ei['balance'], ef['balance'], ef['balance_np'], er['balance'])
    for key, per_key in (('acct_eq', 'equity'), ('acct_mv', 'tmv')):
        ai = c.post[key]
        if 'error' in ai:
            c.bad('%s: not obtainable (%s)' % (key, ai['error']), ai, None)
            continue
        af = sf[key]
        c.disc(key + ' keys', list(ai.keys()), list(af.keys()))
        # the aggregate is the `+=` loop over the per-portfolio getters (model: sumNaive); which value a portfolio has is
        # C02's business, so the model formula is applied to the figures the implementation itself reports
        tot = 0.0
        for pi in c.post['pfs']:
            v = pi[per_key]
            if isinstance(v, dict):
                tot = None
                break
            if pi['id'] in ai:
                c.cont('%s[%s] vs the per-portfolio getter' % (key, pi['id']), ai[pi['id']], f2b(v), None)
            tot = tot + v
        if tot is not None and 'master' in ai:
            c.cont('%s[master] vs the sum of the per-portfolio figures' % key, ai['master'], f2b(tot), None)


def proj_c02(c, c_a=None):
    """holdings: asset set, quantity, market value, total market value, equity (mode B) + marking loop (mode A)."""
    for (pi, pf, pr) in c.pfs():
        pid = pi['id']
        if 'error' in pi['api']:
            c.bad('get_portfolio_as_dict[%s] raised' % pid, pi['api'])
            continue
        mf, mr = pos_by_asset(pf['positions']), pos_by_asset(pr['positions'])
        c.disc('held assets[%s]' % pid, sorted(pi['api'].keys()), sorted(mf.keys()))
        for a, row in pi['api'].items():
            if a not in mf:
                continue
            c.disc('quantity[%s][%s]' % (pid, a), float(row['quantity']), b2f(mf[a]['net']))
            c.cont('market_value[%s][%s]' % (pid, a), row['market_value'], mf[a]['mv'], mr[a]['mv'])
        c.cont('total_market_value[%s]' % pid, pi['tmv'], pf['tmv'], pr['tmv'])
        # equity = cash + market value, relative to the cash the implementation actually holds (the ledger is C01's)
        if f2b(pi['cash']) == pf['cash']:
            c.cont('total_equity[%s]' % pid, pi['equity'], pf['equity'], pr['equity'])
        elif not isinstance(pi['equity'], dict) and not isinstance(pi['tmv'], dict):
            c.cont('total_equity[%s] - cash' % pid, pi['equity'] - pi['cash'], pf['tmv'], pr['tmv'],
                   scale=c.scale * 1e4)
    if c_a is not None and c.step['op'][0] == 'update' and c.step['out'] == 'ok' and c_a.mf.get('out') == 'ok':
        # the marking loop of broker.update: every held asset is marked to the mid price at the update time
        marks_i = [(m['pid'], m['asset'], m['time']) for m in c.step['marks'] if m['held']]
        marks_m = [(m['pid'], m['asset'], m['time']) for m in c_a.mf.get('marks', [])]
        c.disc('marks of update', marks_i, marks_m)
        mi = [m for m in c.step['marks'] if m['held']]
        for m_i, m_f, m_r in zip(mi, c_a.mf.get('marks', []), c_a.mr.get('marks', [])):
            c.cont('mark price %s/%s' % (m_i['pid'], m_i['asset']), m_i['price'], m_f['price'], m_r['price'])


def proj_c03(c):
    """position P&L (mode B)."""
    for (pi, pf, pr) in c.pfs():
        pid = pi['id']
        if 'error' in pi['api']:
            c.bad('get_portfolio_as_dict[%s] raised' % pid, pi['api'])
            continue
        mf, mr = pos_by_asset(pf['positions']), pos_by_asset(pr['positions'])
        for a, row in pi['api'].items():
            if a not in mf:
                c.bad('P&L for asset %s not in model holdings' % a, row, None)
                continue
            for key_i, key_m in (('realised_pnl', 'realised'), ('unrealised_pnl', 'unrealised'), ('total_pnl', 'total'),
                                 ('market_value', 'mv')):
                c.cont('%s[%s][%s]' % (key_i, pid, a), row[key_i], mf[a][key_m], mr[a][key_m])
        for key in ('unrealised', 'realised', 'pnl'):
            c.cont('total_%s[%s]' % (key, pid), pi[key], pf[key], pr[key])


def proj_c04(c):
    """order queue and matching (mode A): queues, who got filled in which order; prices and fees are not compared."""
    k = c.step['op'][0]
    if k == 'update' and c.step['out'] != 'ok':
        return 'skipped'      # failing update: outside the quantifier (missing quote / regressing clock)
    if k == 'update' and c.mf.get('out') != 'ok':
        return 'skipped'      # the model refuses what the code accepted: a validation question (C15), outside this quantifier
    if k == 'submit':
        cmp_out(c)
    for (pi, pf, pr) in c.pfs():
        pid = pi['id']
        c.disc('queue[%s]' % pid, [tuple(x) for x in pi['queue']], [tuple(x) for x in pf['queue']])
        if k == 'submit':
            # submitting by itself changes neither cash nor holdings
            c.cont('cash[%s] across submit' % pid, pi['cash'], pf['cash'], pr['cash'])
            if 'error' not in pi['api']:
                c.disc('holdings[%s] across submit' % pid,
                       sorted((a, float(r['quantity'])) for a, r in pi['api'].items()),
                       sorted((p['asset'], b2f(p['net'])) for p in pf['positions']))
    if k == 'update':
        fills_i = [(t['pid'], t['asset'], t['qty'], t['time']) for t in c.step['txns']]
        fills_m = [(t['pid'], t['asset'], t['qty'], t['time']) for t in c.mf.get('fills', [])]
        c.disc('fills of update (portfolio, asset, quantity, time) in order', fills_i, fills_m)


def proj_c05(c):
    """execution price, commission, time stamp and the cash debit of each fill (mode A)."""
    if c.step['op'][0] != 'update' or c.step['out'] != 'ok' or c.mf.get('out') != 'ok':
        return 'skipped'
    ti, tf, tr = c.step['txns'], c.mf.get('fills', []), c.mr.get('fills', [])
    # pair fills per (pid, order id): the matching order is C04's business
    # (an identifier may have been used for several orders: pair the k-th fill carrying it with the model's k-th)
    import collections as _c
    by_f, by_r = _c.defaultdict(list), _c.defaultdict(list)
    for t_ in tf:
        by_f[(t_['pid'], t_['id'])].append(t_)
    for t_ in tr:
        by_r[(t_['pid'], t_['id'])].append(t_)
    seen_ = _c.Counter()
    for t in ti:
        key = (t['pid'], t['id'])
        k_ = seen_[key]
        seen_[key] += 1
        if k_ >= len(by_f[key]) or k_ >= len(by_r[key]):
            continue
        f, r = by_f[key][k_], by_r[key][k_]
        tag = 'fill %s/%s' % key
        c.disc(tag + ' time', t['time'], f['time'])
        c.disc(tag + ' quantity', t['qty'], f['qty'])
        c.cont(tag + ' price', t['price'], f['price'], r['price'], scale=scale_of(t['price']))
        # commission passes through round(); a half-way consideration is a discontinuity
        if not cont_match(t['commission'], f['commission'], r['commission'], scale_of(t['price'] * t['qty']), c.tally):
            if f['commission'] != r['commission'] and frac_of(f['commission']) != frac_of(r['commission']):
                c.tally.near_disc += 1
            else:
                c.bad(tag + ' commission', t['commission'], dict(float=b2f(f['commission']), rat=r['commission']))
    if len(ti) == len(tf):
        for (pi, pf, pr) in c.pfs():
            c.cont('cash[%s] after the fills' % pi['id'], pi['cash'], pf['cash'], pr['cash'])


C15_OPS = ('subA', 'wdA', 'create', 'subP', 'wdP', 'submit', 'pfsub', 'pfwd', 'pfmark', 'pftxn', 'q')


def obs_impl(s):
    return dict(master=s['master'],
                pfs=[(p['id'], p['cash'], sorted((q['asset'], q['buyQ'] - q['sellQ']) for q in p['positions']),
                      [tuple(x) for x in p['queue']], p['hist_len']) for p in s['pfs']])


def proj_c15(c):
    """validation paths (mode A): refused or accepted, error class, state untouched on refusal."""
    k = c.step['op'][0]
    if k == 'update':
        # an update is inside C15 when it has to place a negative mark on a holding (a documented refusal): refused by
        # the code exactly when the model refuses, with the same class, and cash, holdings, queues and history untouched
        # (the clock and the marks placed before the refusal are not among the things the property freezes).
        qs = c.step.get('quotes') or {}
        held = set(q['asset'] for p in c.pre['pfs'] for q in p['positions'])
        if not any(a in qs and (qs[a][0] + qs[a][1]) / 2 < 0 for a in held):
            return 'skipped'
        if any(a not in qs for a in held) or c.step['op'][1] < c.pre.get('clock', c.step['op'][1]):
            return 'skipped'      # unquoted holdings / regressing clock: outside every quantifier
    elif k not in C15_OPS:
        return 'skipped'
    if k == 'q' and not c.mf:
        # getters without a model line (pfdict, cash): judged by the oracle only
        return 'skipped'
    import k3_oracle
    documented = k3_oracle.expected_refusal(c.step['op'], c.pre)
    if k in ('q', 'update') or c.step['out'] != 'ok' or documented is not None:
        # a refusal happened, or one of the documented refusals is due: class and (non-)acceptance must match the model
        cmp_out(c, 'accepted/refused and error class')
    if k == 'q' and c.step['op'][1] == 'cash' and c.step['out'] == 'ok' and c.mf.get('out') == 'ok':
        # the account-level balance of a supported currency: the master cash for the base currency, zero for the others
        c.disc('get_account_cash_balance(%r)' % c.step['op'][2], f2b(c.step['value'] + 0.0), f2b(b2f(c.mf['value']) + 0.0))
    if c.step['out'] != 'ok':
        if k == 'q':
            return
        sf = c.mf.get('snap')
        if sf is None:
            return
        c.disc('master cash after refusal', f2b(c.post['master']), sf['master'])
        for (pi, pf, pr) in c.pfs():
            pid = pi['id']
            c.disc('cash[%s] after refusal' % pid, f2b(pi['cash']), pf['cash'])
            c.disc('holdings[%s] after refusal' % pid,
                   sorted((q['asset'], q['buyQ'] - q['sellQ']) for q in pi['positions']),
                   sorted((q['asset'], b2f(q['net'])) for q in pf['positions']))
            c.disc('queue[%s] after refusal' % pid, [tuple(x) for x in pi['queue']], [tuple(x) for x in pf['queue']])
            c.disc('history[%s] after refusal: new events' % pid, len(pi['hist_new']), len(c.hist_f.get(pid, [])))
