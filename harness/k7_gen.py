"""K7 case generator: backtest configurations and synthetic CSV markets."""
import datetime as dtm
import common
import math

EPOCH = dtm.date(1970, 1, 1)
OPEN, CLOSE = 52200, 75600
SYMS = ['AAA', 'BBB', 'CCC', 'DDD', 'EEE', 'FFF', 'GGG', 'HHH']


def day_of(d):
    return (d - EPOCH).days


def make_market(rng, syms, d0, ndays, late=None, gaps=0.0, missing=0.0, spikes=None, tick=None):
    """sym -> [[iso, open, close, adj], ...]; `late`: sym -> first day offset with data;
    `spikes`: list that receives the ISO dates of one-bar x3 moves that revert on the next bar"""
    mk = {}
    for s in syms:
        spike_at = rng.randrange(12, max(13, ndays - 3)) if spikes is not None and rng.random() < 0.5 else None
        p = rng.uniform(5, 200)
        rows = []
        off = (late or {}).get(s, 0)
        blank_before = rng.random() < 0.65         # pre-listing rows present but empty, instead of absent
        for i in range(ndays):
            d = d0 + dtm.timedelta(days=i)
            if d.weekday() > 4:
                continue
            o = p * math.exp(rng.gauss(0, 0.01))
            c = o * math.exp(rng.gauss(0, 0.02))
            p = c
            if i < off:
                if blank_before:
                    rows.append([d.isoformat(), None, None, None])
                continue
            if rng.random() < gaps:
                continue
            row = [d.isoformat(), round(o, 4), round(c, 4), round(c * rng.choice([1.0, 1.0, 0.97]), 4)]
            if tick:
                # prices quoted on a coarse grid (quarters, halves): price x quantity then often ends in exactly .5
                oo, cc = max(tick, round(o / tick) * tick), max(tick, round(c / tick) * tick)
                row = [d.isoformat(), oo, cc, cc]
            if spike_at is not None and i == spike_at:
                row = [row[0]] + [round(x * 3.0, 4) for x in row[1:]]
                spikes.append(row[0])
            if spike_at is not None and spike_at + 3 <= i <= spike_at + 5 and rows and rows[-1][1] is not None:
                # a holiday padded with the previous session's bar: a short run of identical consecutive bars
                row = [row[0]] + list(rows[-1][1:])
                if i == spike_at + 3:
                    spikes.append(rows[-1][0])      # cutting the future inside the run (after its first bar) is of interest too
                    spikes.append(row[0])
            if rng.random() < missing:
                row[rng.choice([1, 2, 3])] = None
            rows.append(row)
        if not rows:
            d = d0 + dtm.timedelta(days=ndays + 3)
            rows.append([d.isoformat(), 10.0, 10.5, 10.5])
        mk[s] = rows
    return mk


def gen_fee(rng):
    return rng.choice([['Z'], ['Z'], ['P', 0.001, 0.005], ['P', 0.0, 0.01], ['P', 0.002, 0.0]])


def gen_case(rng, family='any'):
    """family: 'fixed' (fixed weights, static universe: C08), 'signal', 'dynamic', 'any'"""
    rotation = False
    if family == 'rotation':
        # a wide universe traded by a long-only momentum rotation: positions are closed out and re-opened repeatedly
        family, rotation = 'signal', True
    if family == 'any':
        family = rng.choice(['fixed', 'fixed', 'signal', 'dynamic'])
    d0 = dtm.date(2018, 1, 1) + dtm.timedelta(days=rng.randrange(0, 900))
    nsym = rng.choice([1, 2, 3, 4, 4, 6, 8])
    if rotation:
        nsym = rng.choice([5, 6, 8])
    syms = SYMS[:nsym]
    assets = ['EQ:' + s for s in syms]
    lo = rng.random() < 0.5
    reb = rng.choice(['weekly', 'daily', 'end_of_month', 'buy_and_hold'])
    start_tod = rng.choice([0, 0, OPEN, OPEN, rng.choice([3600, 50000])]) if reb != 'buy_and_hold' else OPEN
    if reb == 'buy_and_hold' and rng.random() < 0.15:
        start_tod = 0                   # the single instant is then not a clock event: nothing ever trades
    nd = rng.choice([5, 12, 20, 45, 60, 100])
    if rotation:
        reb, nd = rng.choice(['weekly', 'daily']), rng.choice([45, 60, 100])
        start_tod = rng.choice([0, OPEN])
    start = day_of(d0) * 86400 + start_tod
    end = (day_of(d0) + nd) * 86400 + 86340
    if rng.random() < 0.15:
        # an end that is not 23:59 (still not earlier in the day than the start)
        end = (day_of(d0) + nd) * 86400 + rng.choice([t_ for t_ in (CLOSE, OPEN, 0, 80000) if t_ >= start_tod] or [86340])
    late = None
    gaps = rng.choice([0, 0, 0, 0.1])
    missing = rng.choice([0, 0, 0.05, 0.1])
    uni = {'static': assets}
    alpha = None
    signals = None
    if family == 'fixed':
        w = []
        for a in assets:
            if rng.random() < 0.85:
                w.append([a, (rng.choice([0.0, 1.0, rng.uniform(0, 1)]) if lo else rng.choice([0.0, 1.0, -0.7, rng.uniform(-1, 1)]))])
        if rng.random() < 0.1 and nsym < 4:
            w.append(['EQ:' + SYMS[nsym], 0.5 if lo else -0.5])       # alpha key outside the universe (it has no data)
        near_unit = False
        if lo and len(w) >= 2 and rng.random() < 0.1:
            # raw weights summing to a hair away from 1 (normalisation is then almost, but not exactly, the identity)
            raw = [rng.choice([1.0, 2.0, 3.0, rng.uniform(0.2, 1)]) for _ in w]
            eps = rng.choice([1e-6, -1e-6, 5e-6, -5e-6, 9e-6, -9e-6])
            w = [[a_, r_ / sum(raw) * (1.0 + eps)] for (a_, _), r_ in zip(w, raw)]
            near_unit = True
        alpha = {'fixed': w}
        if len(assets) >= 3 and len(w) == len(assets) and rng.random() < 0.15:
            # the alpha model weights an asset that is not in the universe (its data are there): it is traded all the same
            uni = {'static': assets[:-1]}
    elif family == 'dynamic':
        dates = []
        late = {}
        for i, a in enumerate(assets):
            k = rng.random()
            if k < 0.3:
                e = start - 86400 * rng.choice([1, 30])
            elif k < 0.6:
                # entry exactly on / one minute after a close instant inside the range
                dd = day_of(d0) + rng.randrange(1, max(2, nd))
                e = dd * 86400 + CLOSE + rng.choice([0, 0, 60, -60])
            elif k < 0.85:
                e = (day_of(d0) + rng.randrange(1, max(2, nd))) * 86400 + rng.choice([0, OPEN, 40000, 80100, 86399])
            elif k < 0.93:
                e = end + 86400 * 10
            else:
                e = None
            dates.append([a, e])
            if rng.random() < 0.25 and e is not None:
                # data starting later than (or exactly at) the entry date
                late[syms[i]] = max(0, (e // 86400 - day_of(d0)) + rng.choice([-2, 0, 0, 3]) + 10)
        uni = {'dynamic': dates}
        alpha = {'single': rng.choice([1.0, 0.5, 1, 2])} if rng.random() < 0.7 else {'fixed': [[a, rng.uniform(0.1, 1)] for a in assets]}
    else:
        k = rng.choice(['momentum', 'invvol']) if not rotation else 'momentum'
        n = rng.choice([1, 2, 3, 5])
        if rotation:
            lo = rng.random() < 0.65
        if k == 'momentum':
            signals = [['mom', [n]], ['sma', [rng.choice([2, 5])]]]
            alpha = {'momentum': n}
            if rng.random() < (0.6 if rotation else 0.3):
                alpha['walk'] = 'signal'      # weights emitted in the order of the signal's own asset list
        else:
            signals = [['vol', [n]]]
            alpha = {'invvol': n}
            lo = True
        if rotation and rng.random() < 0.7:
            # two assets admitted at the same instant after the start, one of them not yet priced for a few days
            kk = rng.randrange(3, 10)
            e = (day_of(d0) + kk) * 86400 + CLOSE + rng.choice([0, 0, 1, 4500])
            m_ = rng.choice([2, 2, 3, 4])
            dates = [[a, start - 86400] for a in assets[:-m_]] + [[a, e] for a in assets[-m_:]]
            uni = {'dynamic': dates}
            late = dict(late or {})
            if rng.random() < 0.6:
                late[syms[-1 if rng.random() < 0.5 else -2]] = 10 + kk + rng.randrange(1, 4)
            reb = 'weekly'
        elif rng.random() < 0.4:
            dates = [[a, (start - 86400 if rng.random() < 0.4 else (day_of(d0) + rng.randrange(0, max(1, nd))) * 86400 + rng.choice([CLOSE, CLOSE, OPEN + 60, 40000, CLOSE + 1, CLOSE + 60, 80100, 86399]))] for a in assets]
            uni = {'dynamic': dates}
    if rng.random() < 0.3:
        # one asset whose data start a few days into the range (its file may carry empty rows before the listing)
        late = dict(late or {})
        late[rng.choice(syms)] = 10 + rng.randrange(2, max(3, min(nd, 12)))
    spikes = [] if rng.random() < 0.15 else None
    market = make_market(rng, syms, d0 - dtm.timedelta(days=10), nd + 25, late=late, gaps=gaps, missing=missing, spikes=spikes,
                         tick=rng.choice([None, None, None, None, 0.25, 0.5]))
    burn = None
    k = rng.random()
    if k < 0.45:
        dd = day_of(d0) + rng.randrange(0, max(1, nd))
        burn = dd * 86400 + rng.choice([0, CLOSE, CLOSE, CLOSE + 1, OPEN, 40000])
    if 'dynamic' in uni and rng.random() < 0.4:
        uni['nat'] = True          # 'no entry date' written as pandas NaT instead of None
    if 'dynamic' in uni and rng.random() < 0.3:
        # entry instants expressed in another time zone (same instants)
        uni['entry_tz'] = rng.choice(['America/New_York', 'Asia/Tokyo', 'Europe/London', 'Australia/Sydney'])
    if 'dynamic' in uni and late:
        # keep the entry map as generated; assets may be in the universe before their data starts (run then fails: NaN price)
        pass
    case = dict(start=start, end=end, burn=burn, rebalance=reb, weekday=rng.choice(['MON', 'TUE', 'WED', 'THU', 'FRI']),
                long_only=lo, param=(rng.choice([0.0, 0.05, 0.3]) if lo else rng.choice([0.5, 1.0, 2.0])),
                fee=gen_fee(rng), cash=(rng.choice([1e8, 1e9]) if family == 'fixed' and locals().get('near_unit') else rng.choice([1e5, 1e6, 250000.0, 250000.0, 2000.0, 5000.0])), universe=uni, alpha=alpha, signals=signals,
                adjust=rng.random() < 0.7, market=market, family=family)
    if family == 'fixed' and case['long_only'] and len(assets) >= 2 and 'fixed' in alpha and rng.random() < 0.15:
        # a small account in which one asset's allocation is worth just over one share: its target wanders between 1 and 0
        # while it is held (daily rebalancing, no late listing for that asset)
        a_b, a_a = assets[-1], assets[0]
        rows = [r for r in market[syms[-1]] if r[1] is not None and r[2] is not None]
        if rows:
            case['cash'] = rng.choice([2000.0, 5000.0, 20000.0])
            case['rebalance'] = 'daily'
            case['fee'] = ['Z']
            case['burn'] = None
            p0 = rows[min(len(rows) - 1, 10)][1]
            wb = min(0.9, rng.choice([1.01, 1.03, 1.1]) * p0 / ((1.0 - case['param']) * case['cash']))
            case['alpha'] = {'fixed': [[a_a, 1.0 - wb], [a_b, wb]]}
    if reb != 'buy_and_hold' and end % 86400 > start % 86400 and rng.random() < 0.08:
        case['start_us'] = rng.choice([1, 250000, 999999])      # a start carrying microseconds: the session is that of the whole second
    if spikes:
        case['spike_days'] = sorted(set(day_of(dtm.date.fromisoformat(x)) for x in spikes))
    if case.get('burn') is not None and rng.random() < 0.3:
        # the burn-in instant expressed in another time zone (the same instant; zones in which it falls on the same calendar date)
        zs = [z for z in common.ZONES if common.ts_in(case['burn'], z).date() == common.ts(case['burn']).date()]
        if zs:
            case['burn_tz'] = rng.choice(zs)
    if rng.random() < 0.25:
        sib_reb = rng.choice([case['rebalance'], case['rebalance'], 'weekly', 'daily', 'end_of_month'])
        case['sibling'] = dict(rebalance=sib_reb, weekday=(rng.choice([w for w in ['MON', 'TUE', 'WED', 'THU', 'FRI'] if w != case['weekday']])
                                                          if sib_reb == 'weekly' else None))
    # the console-output switch (settings.PRINT_EVENTS) is on for some sessions: what a session does never depends on it
    case['loud'] = rng.random() < 0.25
    return case
