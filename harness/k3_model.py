"""K3: drive the Lean broker model with recorded interface values and compare per property (DESIGN §5.1).

Stepwise correspondence: for every executed op the model is loaded with the *observed* pre-state and
performs the op; its post-state is compared with the observed post-state, projected per property.
Mode A: `update` is executed by the model (with the quote table of that instant).
Mode B: `update` is replaced by the recorded marks and `Transaction`s (component-level inputs).
"""
from common import f2b, b2f, frac_of, cont_match, scale_of, run_driver_json, Tally

QUOTED_NONE = '-'


def fee_tokens(fee):
    if fee[0] == 'Z':
        return 'Z'
    return 'P %d %d' % (f2b(fee[1]), f2b(fee[2]))


def load_line(s):
    toks = ['load', str(s['clock']), str(f2b(s['master'])), str(len(s['pfs']))]
    for p in s['pfs']:
        toks += [p['id'], str(p['clock']), str(f2b(p['cash'])), str(len(p['positions']))]
        for q in p['positions']:
            toks += [q['asset'], str(f2b(q['price'])), str(q['clock'])] + [
                str(f2b(q[k])) for k in ('buyQ', 'sellQ', 'avgB', 'avgS', 'comB', 'comS')]
        toks.append(str(len(p['queue'])))
        for (oid, a, qty) in p['queue']:
            toks += [str(oid), a, str(qty)]
    return ' '.join(toks)


def quotes_tokens(quotes):
    toks = []
    for a in sorted(quotes):
        b, k = quotes[a]
        toks += [a, str(f2b(b)), str(f2b(k))]
    return toks


def op_lines(step, mode):
    """driver lines for one executed op (after the `load`)."""
    op = step['op']
    k = op[0]
    if k == 'subA':
        return ['subA %d' % f2b(op[1])]
    if k == 'wdA':
        return ['wdA %d' % f2b(op[1])]
    if k == 'create':
        return ['create %s' % op[1]]
    if k == 'subP':
        return ['subP %s %d' % (op[1], f2b(op[2]))]
    if k == 'wdP':
        return ['wdP %s %d' % (op[1], f2b(op[2]))]
    if k == 'submit':
        return ['submit %s %d %s %d' % (op[1], step['order_id'], op[2], op[3])]
    if k == 'update':
        if mode == 'A':
            return [' '.join(['update', str(op[1])] + quotes_tokens(step['quotes']))]
        lines = ['clock %d' % op[1]]
        # recorded component inputs, in the order the code produced them (all marks precede all fills)
        for m in step['marks']:
            lines.append('mark %s %s %d %d' % (m['pid'], m['asset'], f2b(m['price']), m['time']))
        for t in step['txns']:
            lines.append('txn %s %s %d %d %d %d' % (t['pid'], t['asset'], t['qty'], t['time'], f2b(t['price']),
                                                     f2b(t['commission'])))
        return lines
    if k == 'pfsub':
        return ['pfsub %s %d %d' % (op[1], op[2], f2b(op[3]))]
    if k == 'pfwd':
        return ['pfwd %s %d %d' % (op[1], op[2], f2b(op[3]))]
    if k == 'pfmark':
        return ['mark %s %s %d %d' % (op[1], op[2], f2b(op[3]), op[4])]
    if k == 'pftxn':
        return ['txn %s %s %d %d %d %d' % (op[1], op[2], op[3], op[4], f2b(op[5]), f2b(op[6]))]
    if k == 'q':
        if op[1] in ('pfcash', 'pfmv', 'pfeq'):
            return ['q %s %s' % (op[1], op[2])]
        if op[1] == 'cash':
            return ['q cash %s' % hexs(op[2])]
        return []
    return []      # px / unpx: not broker ops


def hexs(text):
    """arbitrary strings cross the line protocol as `x` + hex of their UTF-8 bytes"""
    return 'x' + text.encode('utf-8').hex()


def build_lines(trace, mode, stepwise=True):
    """Returns (lines, index) where index[i] = (first, last) line numbers of step i (or None)."""
    case = trace['case']
    sup = trace.get('supported', ['USD', 'GBP', 'EUR'])
    lines = ['newc %d %s %s %d %d %s' % (len(sup), ' '.join(hexs(c) for c in sup), hexs(case.get('cur', 'USD')),
                                        case['start'], f2b(case['funds']), fee_tokens(case['fee']))]
    index = []
    if trace['new_out'] != 'ok':
        return lines, index
    pre = trace['init']
    for st in trace['steps']:
        ol = op_lines(st, mode)
        if not ol:
            index.append(None)
        else:
            first = len(lines)
            if stepwise:
                lines.append(load_line(pre))
            lines += ol
            index.append((first, len(lines) - 1))
        pre = st['post']
    return lines, index


def run_models(traces, mode, stepwise=True, carriers=('float', 'rat')):
    """Run the driver over many traces in one process per carrier. Returns per trace: dict carrier -> outputs, index."""
    all_lines = []
    spans = []
    for tr in traces:
        lines, index = build_lines(tr, mode, stepwise)
        spans.append((len(all_lines), len(lines), index))
        all_lines += lines
    outs = {c: run_driver_json('k3', c, all_lines) for c in carriers}
    res = []
    for (off, n, index) in spans:
        res.append(dict(index=index, **{c: outs[c][off:off + n] for c in carriers}))
    return res
