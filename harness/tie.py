"""Structural tie: translate the arithmetic kernels from /repo's working tree (harness/translate.py), build the generated
definitions and check the tie theorems `Gen.f = Qs.f`.  Called under the build lock by lean_audit.

Outcome per obligation key (`<Unit>.<fn>` or `<Unit>.<fn>#<component>`):
  proved          the function was translated from the current source and Lean proved it equal to the model
  failed          translated, but the proof does not check: the source no longer means what the model says
                  (a broken proof obligation - the caller searches for a failing input)
  untranslatable  the current source is outside the translator's Python subset (or its translation does not typecheck):
                  the structural tie does not apply to this function; the correspondence check is its only tie
"""
import json
import os
import re
import subprocess

import translate
from common import LEAN_DIR, Infra

# which tie obligations belong to which property (component-wise where a function returns a state, so that a change
# to an average price does not alarm the holdings property, and so on)
_POS_FIELDS_QTY = ['asset', 'price', 'buyQ', 'sellQ']
_ALL_FIELDS = ['asset', 'price', 'clock', 'buyQ', 'sellQ', 'avgB', 'avgS', 'comB', 'comS']


def _keys(unit, fn, comps):
    return ['%s.%s#%s' % (unit, fn, c) for c in comps]


PROP_TIES = {
    'C02': ['Handler.transactPosition', 'Position.net', 'Position.marketValue'] + _keys('Position', 'transact', _POS_FIELDS_QTY) +
           _keys('Position', 'openFrom', _POS_FIELDS_QTY) + _keys('Position', 'updatePrice', ['price']),
    'C03': ['Position.net', 'Position.marketValue', 'Position.avgPrice', 'Position.totalBought', 'Position.totalSold',
            'Position.netTotal', 'Position.commission', 'Position.netInclCommission', 'Position.realised', 'Position.unrealised',
            'Position.totalPnl', 'Position.updatePrice', 'Position.transactBuy', 'Position.transactSell', 'Position.transact',
            'Position.openFrom'],
    'C15': ['Handler.transactPosition'] + _keys('Position', 'transact', ['err', 'refusal']) + _keys('Position', 'updatePrice', ['err', 'refusal']) +
           _keys('Portfolio', 'subscribe', ['err', 'refusal']) + _keys('Portfolio', 'withdraw', ['err', 'refusal']) +
           _keys('Portfolio', 'transactAsset', ['err', 'refusal']) +
           ['Broker.checkFunds', 'Broker.checkCurrency', 'Broker.subscribeAccount', 'Broker.withdrawAccount', 'Broker.subscribePortfolio',
            'Broker.withdrawPortfolio'],
    'C14': ['Session.plan'],
    'C16': ['Session.plan'],
    'C19': ['Universe.dynamicAssets', 'Optimiser.equalWeight', 'Alpha.singleSignal'],
    'C01': ['Portfolio.subscribe', 'Portfolio.withdraw', 'Portfolio.transactAsset', 'Broker.subscribeAccount', 'Broker.withdrawAccount',
            'Broker.subscribePortfolio', 'Broker.withdrawPortfolio'],
    'C04': ['Broker.makeTxn#fill'],
    'C05': ['Broker.makeTxn', 'PercentFee.totalCost', 'ZeroFee.totalCost'],
    'C10': ['DW.checkBuffer', 'DW.normalise', 'DW.quantity', 'PercentFee.totalCost', 'ZeroFee.totalCost'],
    'C11': ['LS.checkLeverage', 'LS.normalise', 'LS.quantity', 'PercentFee.totalCost', 'ZeroFee.totalCost'],
    'C08': ['Broker.makeTxn', 'PercentFee.totalCost', 'ZeroFee.totalCost', 'DW.normalise', 'DW.quantity', 'LS.normalise', 'LS.quantity',
            'Position.net', 'Position.marketValue'] + _keys('Position', 'transact', _POS_FIELDS_QTY) + _keys('Position', 'openFrom', _POS_FIELDS_QTY),
}
_UNIT_OF = {'Handler': 'Handler', 'Session': 'Plan', 'Universe': 'Kernels', 'Optimiser': 'Kernels', 'Alpha': 'Kernels', 'Portfolio': 'Kernels', 'PercentFee': 'Kernels', 'ZeroFee': 'Kernels', 'DW': 'Kernels', 'LS': 'Kernels', 'Broker': 'Kernels'}


# hand-written corollaries that restate property clauses for the translated source (QsProofs/Tie/Lifted.lean); the module
# refers to these tie theorems, so it is only built when all of them are proved
LIFTED_REQUIRES = ['Position.totalPnl', 'Position.realised', 'Position.unrealised', 'Position.avgPrice', 'Position.net',
                   'Position.transact', 'PercentFee.totalCost', 'ZeroFee.totalCost', 'DW.quantity', 'LS.quantity', 'Broker.makeTxn',
                   'DW.checkBuffer', 'LS.checkLeverage']
# a second module of the same kind (QsProofs/Tie/LiftedBroker.lean): account-level broker requests
LIFTED2_REQUIRES = ['Broker.checkFunds', 'Broker.checkCurrency', 'Broker.subscribeAccount', 'Broker.withdrawAccount',
                    'Broker.subscribePortfolio', 'Broker.withdrawPortfolio']
LIFTED2_BY_PROP = {
    'C01': ['Qs.Tie.C01_src_subscribeAccount', 'Qs.Tie.C01_src_withdrawAccount', 'Qs.Tie.C01_src_account_ops',
            'Qs.Tie.C01_src_subscribePortfolio', 'Qs.Tie.C01_src_withdrawPortfolio', 'Qs.Tie.C01_src_portfolio_transfers'],
    'C15': ['Qs.Tie.C15_src_currency', 'Qs.Tie.C15_src_funds', 'Qs.Tie.C15_src_create', 'Qs.Tie.C01_src_subscribeAccount',
            'Qs.Tie.C01_src_withdrawAccount', 'Qs.Tie.C01_src_account_ops', 'Qs.Tie.C01_src_subscribePortfolio',
            'Qs.Tie.C01_src_withdrawPortfolio'],
}
LIFTED_BY_PROP = {
    'C02': ['Qs.Tie.C02_src_transact'],
    'C03': ['Qs.Tie.C03_src_total', 'Qs.Tie.C03_src_avgPrice'],
    'C05': ['Qs.Tie.C05_src_fill', 'Qs.Tie.C05_src_percent', 'Qs.Tie.C05_src_zero'],
    'C10': ['Qs.Tie.C10_src_quantity', 'Qs.Tie.C10_src_buffer'],
    'C11': ['Qs.Tie.C11_src_quantity', 'Qs.Tie.C11_src_leverage'],
}


# theorems proved directly of the translated code (no model in between): module, theorems, the translations they talk about
SOURCE_BY_PROP = {
    'C01': ('QsProofs.Tie.Source.C01', ['Qs.Src.C01_src_subscribe', 'Qs.Src.C01_src_withdraw', 'Qs.Src.C01_src_transact'],
            ['Portfolio.subscribe', 'Portfolio.withdraw', 'Portfolio.transactAsset']),
}


def _lean_errors(path):
    """line numbers of the errors Lean reports for one file (the file is elaborated to the end)"""
    try:
        p = subprocess.run(['lake', 'env', 'lean', path], cwd=LEAN_DIR, capture_output=True, text=True, timeout=1500)
    except subprocess.TimeoutExpired:
        raise Infra('lean timed out on %s' % path)
    out = p.stdout + p.stderr
    lines = [int(m.group(1)) for m in re.finditer(r'^[^\n:]+\.lean:(\d+):\d+: error', out, re.M)]
    return lines, out


def _build(targets):
    try:
        b = subprocess.run(['lake', 'build'] + targets, cwd=LEAN_DIR, capture_output=True, text=True, timeout=1500)
    except subprocess.TimeoutExpired:
        raise Infra('lake build timed out')
    return b.returncode == 0, b.stdout + b.stderr


def _cache_path():
    return os.path.join(LEAN_DIR, '.lake', 'tie-cache.json')


def run_ties(prop=None):
    """-> {key: dict(status, theorem, python, file, reason)}; leaves a building QsGen / QsProofs.Tie.* behind.
    Only the units the property has obligations in are built."""
    import hashlib
    wanted = None
    if prop is not None:
        wanted = set(_UNIT_OF.get(k.split('.')[0], k.split('.')[0]) for k in PROP_TIES.get(prop, []))
        if prop in LIFTED_BY_PROP:
            wanted |= set(_UNIT_OF.get(k.split('.')[0], k.split('.')[0]) for k in LIFTED_REQUIRES)
        if prop in LIFTED2_BY_PROP:
            wanted |= set(_UNIT_OF.get(k.split('.')[0], k.split('.')[0]) for k in LIFTED2_REQUIRES)
        if not wanted:
            return {}, ''
    # which proofs failed for exactly this source was found out by an earlier run: start from there
    st0 = translate.generate()
    sig = hashlib.sha256(json.dumps({u: open(os.path.join(LEAN_DIR, 'QsGen', u + '.lean')).read()
                                     for u in sorted(set(v['unit'] for v in st0.values()))}, sort_keys=True).encode()).hexdigest()
    try:
        cache = json.load(open(_cache_path()))
    except (OSError, ValueError):
        cache = {}
    ent = cache.get(sig, {})
    omit_defs, omit_thms = set(ent.get('omit_defs', [])), set(ent.get('omit_thms', []))
    log = ''
    for _round in range(6):
        st = translate.generate(omit_defs=omit_defs, omit_thms=omit_thms)
        units = sorted(set(v['unit'] for v in st.values()) & (wanted if wanted is not None else set(v['unit'] for v in st.values())))
        changed = False
        # dependency order: the handler's tie imports the Position ties; after any omission, regenerate before going on
        units = sorted(units, key=lambda x: ['Position', 'Kernels', 'Plan', 'Handler'].index(x) if x in ('Position', 'Kernels', 'Plan', 'Handler') else 99)
        if 'Handler' in units and 'Position' not in units:
            units = ['Position'] + units
        for u in units:
            if changed:
                break
            ok, out = _build(['QsGen.%s' % u])
            if not ok:
                errs, out2 = _lean_errors(os.path.join('QsGen', u + '.lean'))
                log += out2[-1500:]
                hit = False
                for k, v in st.items():
                    if v['unit'] == u and v.get('translated') and '#' not in k and any(v['def_span'][0] <= e <= v['def_span'][1] for e in errs):
                        omit_defs.add(k)
                        hit = True
                if not hit:
                    raise Infra('generated definitions of %s do not build: %s' % (u, out2[-800:]))
                changed = True
                continue
            ok, out = _build(['QsProofs.Tie.%sGen' % u])
            if not ok:
                errs, out2 = _lean_errors(os.path.join('QsProofs', 'Tie', u + 'Gen.lean'))
                log += out2[-1500:]
                hit = False
                for k, v in st.items():
                    if v['unit'] == u and v.get('translated') and v.get('thm_span') and any(v['thm_span'][0] <= e <= v['thm_span'][1] for e in errs):
                        omit_thms.add(v['theorem'])
                        hit = True
                if not hit:
                    raise Infra('tie module of %s does not build: %s' % (u, (out + out2)[-800:]))
                changed = True
        if not changed:
            break
    else:
        raise Infra('tie build did not stabilise')
    if omit_defs or omit_thms:
        cache = {sig: dict(omit_defs=sorted(omit_defs), omit_thms=sorted(omit_thms))}
        try:
            json.dump(cache, open(_cache_path(), 'w'))
        except OSError:
            pass
    res = {}
    for k, v in st.items():
        if not v.get('translated'):
            res[k] = dict(status='untranslatable', reason=v.get('reason'), python=v.get('python'), file=v.get('file'), unit=v['unit'])
        elif v.get('proved') is False or v['theorem'] in omit_thms:
            res[k] = dict(status='failed', theorem=v['theorem'], python=v['python'], file=v['file'], unit=v['unit'])
        else:
            res[k] = dict(status='proved', theorem=v['theorem'], python=v['python'], file=v['file'], unit=v['unit'])
    return res, log


def for_property(prop, ties):
    """split the property's tie obligations into proved / failed / not applicable"""
    keys = PROP_TIES.get(prop, [])
    out = dict(proved=[], failed=[], untranslatable=[], modules=[])
    for k in keys:
        v = ties.get(k)
        if v is None:
            out['untranslatable'].append(dict(key=k, reason='not produced by the translator'))
            continue
        if v['status'] == 'proved':
            out['proved'].append(dict(key=k, theorem=v['theorem'], python=v['python']))
            m = 'QsProofs.Tie.%sGen' % v['unit']
            if m not in out['modules']:
                out['modules'].append(m)
        elif v['status'] == 'failed':
            out['failed'].append(dict(key=k, theorem=v['theorem'], python=v['python'], file=v['file']))
        else:
            out['untranslatable'].append(dict(key=k, python=v['python'], reason=v['reason']))
    out['source'] = []
    if prop in SOURCE_BY_PROP:
        mod, thms, needs = SOURCE_BY_PROP[prop]
        if all(ties.get(k, {}).get('status') in ('proved', 'failed') for k in needs):
            ok, log = _build([mod])
            if ok:
                out['source'] = list(thms)
                out['modules'].append(mod)
            else:
                out['failed'].append(dict(key=mod, theorem=' / '.join(thms), python=', '.join(needs), file='the translated source (QsGen)'))
        else:
            out['untranslatable'].append(dict(key=mod, python=', '.join(needs), reason='the methods these theorems talk about are not translatable in their current form'))
    out['lifted'] = []
    if prop in LIFTED_BY_PROP:
        if all(ties.get(k, {}).get('status') == 'proved' for k in LIFTED_REQUIRES):
            out['lifted'] = list(LIFTED_BY_PROP[prop])
            out['modules'].append('QsProofs.Tie.Lifted')
        else:
            out['lifted_skipped'] = [k for k in LIFTED_REQUIRES if ties.get(k, {}).get('status') != 'proved']
    if prop in LIFTED2_BY_PROP:
        if all(ties.get(k, {}).get('status') == 'proved' for k in LIFTED2_REQUIRES):
            out['lifted'] += list(LIFTED2_BY_PROP[prop])
            out['modules'].append('QsProofs.Tie.LiftedBroker')
        else:
            out['lifted_skipped'] = out.get('lifted_skipped', []) + [k for k in LIFTED2_REQUIRES if ties.get(k, {}).get('status') != 'proved']
    return out


if __name__ == '__main__':
    import sys
    t, log = run_ties()
    cnt = {}
    for k, v in t.items():
        cnt[v['status']] = cnt.get(v['status'], 0) + 1
        if v['status'] != 'proved':
            print(k, v['status'], v.get('reason', ''))
    print(cnt)
