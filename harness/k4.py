"""K4 harness: order sizers (C10, C11), portfolio construction (C09), universes/alpha/optimisers (C19).

Cases (JSON):
  {"kind": "dw"|"ls", "equity": x, "param": buffer|leverage, "fee": ["Z"]|["P", c, tau], "items": [[asset, weight, price|null], ...]}
  {"kind": "pcm", "long_only": bool, "param": x, "fee": [...], "prices": {asset: p}, "fills": [[asset, qty], ...],
   "universe": {"static": [..]} | {"dynamic": [[asset, entry|null], ...]}, "alpha": {"fixed": [[asset, w], ...]} | {"single": s},
   "t": sec}
  {"kind": "dyn", "dates": [[asset, entry|null], ...], "t": sec}   {"kind": "eqw", "scale": s, "weights": [[asset, w], ...]}
"""
import collections
import math
import warnings
from fractions import Fraction as F

warnings.filterwarnings('ignore')
import numpy as np

from common import f2b, b2f, frac_of, cont_match, ts, ts_in, entry_ts, ZONES, secs, run_driver_json, Tally, rng_for, scale_of, hv

from qstrader import settings
settings.set_print_events(False)
from qstrader.alpha_model.fixed_signals import FixedSignalsAlphaModel
from qstrader.alpha_model.single_signal import SingleSignalAlphaModel
from qstrader.asset.universe.dynamic import DynamicUniverse
from qstrader.asset.universe.static import StaticUniverse
from qstrader.broker.fee_model.percent_fee_model import PercentFeeModel
from qstrader.broker.fee_model.zero_fee_model import ZeroFeeModel
from qstrader.broker.simulated_broker import SimulatedBroker
from qstrader.exchange.simulated_exchange import SimulatedExchange
from qstrader.execution.order import Order
from qstrader.portcon.optimiser.equal_weight import EqualWeightPortfolioOptimiser
from qstrader.portcon.optimiser.fixed_weight import FixedWeightPortfolioOptimiser
from qstrader.portcon.order_sizer.dollar_weighted import DollarWeightedCashBufferedOrderSizer as DW
from qstrader.portcon.order_sizer.long_short import LongShortLeveragedOrderSizer as LS
from qstrader.portcon.pcm import PortfolioConstructionModel

import logging
logging.disable(logging.CRITICAL)

TINY = 1e-8
MON_OPEN = 1546819200 + 52200 + 3600     # Monday 2019-01-07 15:30 UTC
ALL = ['EQ:AAA', 'EQ:BBB', 'EQ:CCC', 'EQ:DDD', 'EQ:EEE', 'EQ:A_1', 'EQ:A_10']


def make_fee(fee):
    return ZeroFeeModel() if fee[0] == 'Z' else PercentFeeModel(commission_pct=fee[1], tax_pct=fee[2])


def fee_tokens(fee):
    return 'Z' if fee[0] == 'Z' else 'P %d %d' % (f2b(fee[1]), f2b(fee[2]))


class StubBroker(object):
    current_dt = None       # set by run_sizer: the broker's clock does not move between the calls of one case

    def __init__(self, equity, fee):
        self.equity = equity
        self.fee_model = make_fee(fee)

    def get_portfolio_total_equity(self, pid):
        return self.equity


class PriceDH(object):
    def __init__(self, prices):
        self.p = prices

    def get_asset_latest_ask_price(self, dt, asset):
        v = self.p.get(asset)
        return np.nan if v is None else np.float64(v)

    def get_asset_latest_bid_ask_price(self, dt, asset):
        v = self.get_asset_latest_ask_price(dt, asset)
        return (v, v)

    def get_asset_latest_mid_price(self, dt, asset):
        b = self.get_asset_latest_bid_ask_price(dt, asset)
        return (b[0] + b[1]) / 2.0


# ---------------------------------------------------------------------------------------------
# generators

def gen_fee(rng, allow_big=False):
    k = rng.random()
    if k < 0.4:
        return ['Z']
    if k < 0.65:
        return ['P', 0.001, 0.005]
    if k < 0.75:
        return ['P', rng.choice([0.0, 0.5, 1.0]), rng.choice([0.0, 0.5])]
    if allow_big and k < 0.8:
        return ['P', 0.8, 0.8]
    return ['P', rng.uniform(0, 0.5), rng.uniform(0, 0.5)]


def gen_sizer_case(rng, kind):
    n = rng.choice([0, 1, 1, 2, 3, 4, 5, 7])
    assets = rng.sample(ALL, min(n, len(ALL)))
    equity = hv(rng, rng.choice([1e6, 1e5, 325000.0, 687523.0, rng.uniform(1e3, 1e7), 1e12]), 'pos')
    if rng.random() < 0.04:
        equity = rng.choice([0.0, -1e4])
    fee = gen_fee(rng, allow_big=True)
    items = []
    mode = rng.random()
    for a in assets:
        if kind == 'dw':
            w = rng.choice([0.0, 1.0, 0.5, 0.25, rng.uniform(0, 1), rng.uniform(0, 5)])
            if mode < 0.08:
                w = 0.0
            elif mode < 0.12:
                w = rng.choice([1e-9, 3e-9, 2e-10])
            elif mode < 0.2 and rng.random() < 0.4:
                w = -rng.uniform(0.01, 1)
        else:
            w = rng.choice([0.0, 1.0, -1.0, 0.5, -0.7, rng.uniform(-1, 1), rng.uniform(-3, 3)])
            if mode < 0.08:
                w = 0.0
            elif mode < 0.12:
                w = rng.choice([1e-9, -3e-9, 2e-10])
            elif mode < 0.2:
                w = abs(w) if rng.random() < 0.5 else -abs(w)
        p = hv(rng, rng.choice([round(rng.uniform(1, 500), 2), rng.uniform(0.5, 900), float(rng.randint(1, 300))]), 'pos')
        w = hv(rng, w, 'pos' if kind == 'dw' else 'any')
        if rng.random() < 0.04:
            p = None
        items.append([a, w, p])
    if len(items) >= 2 and rng.random() < 0.06:
        # zero-sum vector containing negative weights (exactly, or within the isclose tolerance)
        tot = sum(i[1] for i in items[:-1])
        items[-1][1] = -tot + rng.choice([0.0, 0.0, 1e-9, -1e-9])
        if tot == 0:
            items[0][1], items[-1][1] = 0.5, -0.5
    if kind == 'dw':
        param = rng.choice([0.0, 0.05, 0.025, 0.15, 0.5, 1.0, rng.random()])
        if rng.random() < 0.08:
            param = rng.choice([-0.1, 1.5, 1.0 + 1e-9, -1e-12, 1.0000000000000002, -5e-324, 1.0 + 1e-7])
        # floor boundary: make the allocation an exact multiple of the price
        if items and fee[0] == 'Z' and rng.random() < 0.3:
            S = sum(i[1] for i in items)
            if S > 0 and all(i[2] for i in items):
                param = 0.0
                k = rng.randint(1, 5000)
                i0 = items[0]
                if i0[1] > 0:
                    equity = k * i0[2] * S / i0[1]
                    if rng.random() < 0.4 and len(items) == 1:
                        # a fraction of a cent (or a few cents) to either side of the boundary: the equity is used as it is
                        equity = k * i0[2] + rng.choice([0.001, 0.003, 0.004, 0.0049, -0.001, -0.004, 0.02, -0.02])
    else:
        param = rng.choice([1.0, 1.5, 2.0, 0.5, 5.0, 0.01, rng.uniform(0.1, 4)])
        if rng.random() < 0.08:
            param = rng.choice([0.0, -1.0, -1e-12, 1e-12, -0.0])
        if items and fee[0] == 'Z' and all(i[2] for i in items) and rng.random() < 0.12:
            # one asset whose leveraged allocation lies a fraction of a currency unit from a whole number of shares, the equity
            # itself not being a whole number (the equity is used as it is, to the last digit)
            i0 = items[0]
            del items[1:]
            i0[1] = rng.choice([1.0, -1.0])
            i0[2] = round(rng.uniform(1, 50), 2)
            param = rng.choice([1.0, 2.0, 4.0])
            equity = (rng.randint(100, 50000) * i0[2] + rng.choice([0.05, 0.3, 0.45, -0.05, -0.3, 0.7])) / param
        elif items and rng.random() < 0.25:
            # integral dollar amounts
            equity = float(rng.randint(1, 10 ** 6))
            for i in items:
                i[1] = float(rng.choice([1, -1, 2, -2]))
            param = float(sum(abs(i[1]) for i in items)) or 1.0
    if items and all(i[2] for i in items) and rng.random() < 0.10:
        # weight sums a hair away from the value at which rescaling is the identity (1 for the long-only sizer, the
        # gross leverage for the long/short one), with equity/price ratios large enough for the hair to be whole shares
        eps = rng.choice([1e-9, 1e-7, 1e-6, 4e-6, 9e-6, 2e-5, 1e-4]) * rng.choice([1, -1])
        raw = [rng.choice([1.0, 1.0, 2.0, 3.0, rng.uniform(0.2, 1)]) for _ in items]
        if kind == 'dw':
            tgt = 1.0
            for i, r in zip(items, raw):
                i[1] = r / sum(raw) * (tgt + eps)
            param = rng.choice([0.0, 0.0, 0.05])
        else:
            param = rng.choice([1.0, 1.0, 2.0, 0.5])
            for i, r in zip(items, raw):
                i[1] = r / sum(raw) * (param + eps) * rng.choice([1, 1, -1])
        equity = rng.choice([1e6, 1e7, 1e9, 3.3e8])
        for i in items:
            i[2] = rng.choice([1.0, 0.5, 2.0, 0.25, round(rng.uniform(0.5, 3), 2)])
        fee = ['Z'] if rng.random() < 0.7 else fee
    case = dict(kind=kind, equity=equity, param=param, fee=fee, items=items, csv=rng.random() < 0.03)
    if items and rng.random() < 0.15:
        # the same sizer object served earlier calls; with `same_dict` the caller's dictionary object is re-used and
        # modified in place between calls (the sizer is specified as a function of the weights it is given now)
        hist = []
        for _ in range(rng.randint(1, 3)):
            h = []
            for a, w, p in items:
                if rng.random() < 0.85:
                    h.append([a, rng.choice([w, -w, 0.0, w * 2, rng.uniform(-1, 1) if kind == 'ls' else rng.uniform(0, 1), 1.0]), p])
            if rng.random() < 0.5:
                # the earlier call also sized assets that the present call is not given
                for a in [x for x in ALL if x not in [i[0] for i in items]][:1]:
                    h.append([a, rng.choice([1.0, 0.5, -0.5 if kind == 'ls' else 0.25]), rng.choice([10.0, 123.45])])
            hist.append(h)
        case['history'] = hist
        case['same_dict'] = rng.random() < 0.6
        case['equity_moves'] = rng.random() < 0.5
    return case


def gen_pcm_case(rng):
    lo = rng.random() < 0.5
    prices = {a: rng.choice([round(rng.uniform(5, 200), 2), rng.uniform(5, 200)]) for a in ALL}
    nan_asset = rng.choice(ALL) if rng.random() < 0.06 else None
    fills = []
    for a in rng.sample(ALL, rng.randint(0, 4)):
        q = rng.randint(1, 500) * (1 if lo or rng.random() < 0.6 else -1)
        fills.append([a, q])
    if fills and rng.random() < 0.4:
        # a holding that was built and then partly trimmed (its gross legs differ from its net quantity)
        a0, q0 = rng.choice(fills)
        trim = -(abs(q0) // rng.choice([2, 3, 4]) or 1) * (1 if q0 > 0 else -1)
        fills.append([a0, trim])
    if rng.random() < 0.5:
        uni = {'dynamic': [[a, (None if rng.random() < 0.1 else MON_OPEN + rng.choice([-86400, 0, 60, 86400 * 5, -3600]))]
                           for a in rng.sample(ALL, rng.randint(0, 6))]}
    else:
        uni = {'static': rng.sample(ALL, rng.randint(0, 5))}
    if rng.random() < 0.5:
        alpha = {'single': rng.choice([1.0, 0.5, 2.0])}
    else:
        alpha = {'fixed': [[a, (rng.choice([0.0, 1.0, 1, 2, rng.uniform(0, 1)]) if lo else rng.choice([0.0, 1, -1, 2, rng.uniform(-1, 1)]))]
                           for a in rng.sample(ALL, rng.randint(0, 6))]}
    big = None
    if rng.random() < 0.1:
        # a very large holding that the rebalance trims to a residual of a few shares
        a_big, a_rest = rng.sample(ALL, 2)
        prices[a_big] = rng.choice([1.0, 2.0, 2.5, 0.5])
        qb = rng.choice([10 ** 5, 250000, 10 ** 6, 2410000, 4760000]) * (1 if lo or rng.random() < 0.5 else -1)
        fills = [[a_big, qb]] + [[a, q] for a, q in fills if a != a_big][:1]
        r = rng.choice([1, 2, 4, 7])
        param_ = rng.choice([0.0, 0.05]) if lo else 1.0
        e_eff = 1e6 * ((1 - param_) if lo else param_)
        w_small = (r + 0.5) * prices[a_big] / e_eff * (1 if qb > 0 else -1)
        alpha = {'fixed': [[a_big, w_small], [a_rest, 1.0 - abs(w_small)]]}
        uni = {'static': [a_big, a_rest]}
        big = param_
        nan_asset = None
    if nan_asset and all(a != nan_asset for a, q in fills):
        prices[nan_asset] = None
    rounds = []
    if rng.random() < 0.4:
        for _ in range(rng.choice([1, 1, 2])):
            rounds.append([rng.choice([0, 0, 0, 60, 3600]),
                           ([rng.choice(ALL), rng.randint(1, 300) * (1 if lo or rng.random() < 0.6 else -1)] if rng.random() < 0.4 else None)])
        rounds = [[sum(r[0] for r in rounds[:i + 1]), r[1]] for i, r in enumerate(rounds)]
    return dict(kind='pcm', rounds=rounds, long_only=lo, param=(big if big is not None else (rng.choice([0.0, 0.05, 0.3]) if lo else rng.choice([0.5, 1.0, 2.0]))),
                fee=gen_fee(rng), prices=prices, fills=fills, universe=uni, alpha=alpha, t=MON_OPEN + rng.choice([0, 60, 3600]),
                entry_tz=(rng.choice(ZONES) if rng.random() < 0.3 else None), nat=rng.random() < 0.4, other_pf=rng.random() < 0.25)


def gen_dyn_case(rng):
    t = MON_OPEN + rng.randrange(-5, 5) * 86400
    dates = []
    for a in rng.sample(ALL, rng.randint(0, 7)):
        k = rng.random()
        e = None if k < 0.12 else t + rng.choice([-1, 0, 0, 1, 60, -60, 86400, -86400, 10 ** 7, -10 ** 7])
        dates.append([a, e])
    # further queries against the SAME universe object: same day earlier/later, earlier days, exactly at entries
    more = []
    for _ in range(rng.randint(0, 5)):
        e = rng.choice([x for a, x in dates if x is not None] or [t])
        more.append(rng.choice([e, e - 1, e + 1, t + rng.choice([-3600, 3600, 23 * 3600]), (t // 86400) * 86400 + rng.randrange(0, 86400),
                                t - 86400, t + 86400]))
    # the configured list of a static universe: any order, possibly empty, possibly naming an asset more than once
    static_list = [rng.choice(ALL) for _ in range(rng.randint(0, 6))] if rng.random() < 0.5 else rng.sample(ALL, rng.randint(0, 6))
    return dict(kind='dyn', static_list=static_list, dates=dates, t=t, more=more, entry_tz=(rng.choice(ZONES) if rng.random() < 0.35 else None), nat=rng.random() < 0.4)


def gen_eqw_case(rng):
    return dict(kind='eqw', scale=rng.choice([1.0, 2.0, 0.5, 0.0, 0, 1, rng.uniform(0.1, 3)]),
                weights=[[a, rng.choice([rng.uniform(-1, 1), rng.uniform(-1, 1), 1, 0, -1, 2, 0.0, 1.0, float('nan')])] for a in rng.sample(ALL, rng.randint(1, 7))])


# ---------------------------------------------------------------------------------------------
# execution on the real code

def csv_handler(prices):
    """the same prices served by the real data layer: one CSV per asset with a bar on the query day and around it; an asset
    without a price has empty cells up to and including the query day and priced bars afterwards (listed later than its file
    starts)"""
    import datetime as dtm
    import os
    import common
    from qstrader.data.backtest_data_handler import BacktestDataHandler
    from qstrader.data.daily_bar_csv import CSVDailyBarDataSource
    d = common.scratch_dir('k4')
    day0 = dtm.date(1970, 1, 1) + dtm.timedelta(days=MON_OPEN // 86400)
    for a, p in prices.items():
        with open(os.path.join(d, a.split(':', 1)[1] + '.csv'), 'w') as f:
            f.write('Date,Open,High,Low,Close,Adj Close,Volume\n')
            for k in range(-4, 4):
                dd = day0 + dtm.timedelta(days=k)
                if dd.weekday() > 4:
                    continue
                if p is None:
                    if len(a) % 2 == 0 and k <= 0:
                        continue                      # the file simply starts after the query day
                    cell = '' if k <= 0 else '77.0'
                else:
                    cell = repr(float(p))
                f.write('%s,%s,%s,%s,%s,%s,1000\n' % (dd.isoformat(), cell, cell, cell, cell, cell))
    return BacktestDataHandler(None, data_sources=[CSVDailyBarDataSource(d, None, adjust_prices=False)])


def run_sizer(case):
    cls = DW if case['kind'] == 'dw' else LS
    prices = {a: p for h in case.get('history', []) for a, w, p in h}
    prices.update({a: p for a, w, p in case['items']})
    dh = csv_handler(prices) if case.get('csv') and prices else PriceDH(prices)
    if case.get('csv') and prices:
        # decimal text is parsed by pandas' fast float parser, which may land one ulp from the written double: the case
        # continues with the prices the data layer actually serves (what it serves for a file is C06's business)
        for it in case['items']:
            if it[2] is not None:
                v = float(dh.get_asset_latest_ask_price(ts(MON_OPEN), it[0]))
                if v == v:
                    it[2] = v
    res = dict(new='ok', out=None, qty=None)
    try:
        stub = StubBroker(case['equity'], case['fee'])
        stub.current_dt = ts(MON_OPEN)
        s = cls(stub, '1', dh, case['param'])
    except ValueError:
        res['new'] = 'ValueError'
        return res
    weights = collections.OrderedDict()
    for hi, h in enumerate(case.get('history', [])):
        if not case.get('same_dict'):
            weights = collections.OrderedDict()
        weights.clear()
        weights.update((a, w) for a, w, p in h)
        # the portfolio's equity was different when the earlier calls were made (the broker's clock has not moved)
        stub.equity = case['equity'] * [0.5, 2.0, 1.25][hi % 3] if case.get('equity_moves') else case['equity']
        try:
            s(ts(MON_OPEN), weights)
        except Exception:
            pass
    stub.equity = case['equity']
    if not case.get('same_dict'):
        weights = collections.OrderedDict()
    weights.clear()
    weights.update((a, w) for a, w, p in case['items'])
    try:
        r = s(ts(MON_OPEN), weights)
        res['out'] = 'ok'
        res['qty'] = [[a, v['quantity']] for a, v in r.items()]
        res['types'] = sorted(set(type(v['quantity']).__name__ for v in r.values()))
    except (ValueError, KeyError, ZeroDivisionError, OverflowError) as e:
        res['out'] = type(e).__name__
    return res


def run_pcm(case):
    dh = PriceDH(case['prices'])
    b = SimulatedBroker(ts(MON_OPEN), SimulatedExchange(None), dh, initial_funds=1e7, fee_model=make_fee(case['fee']))
    b.create_portfolio('1')
    b.subscribe_funds_to_portfolio('1', 1e6)
    if case.get('other_pf'):
        # the broker serves further portfolios, created later than the one being rebalanced
        b.create_portfolio('2')
        b.subscribe_funds_to_portfolio('2', 5e5)
    for a, q in case['fills']:
        b.submit_order('1', Order(ts(MON_OPEN), a, q))
    b.update(ts(MON_OPEN))
    held = [[a, int(v['quantity'])] for a, v in b.get_portfolio_as_dict('1').items()]
    if 'dynamic' in case['universe']:
        uni = DynamicUniverse(collections.OrderedDict((a, entry_ts(e, case.get('entry_tz'), case.get('nat'))) for a, e in case['universe']['dynamic']))
    else:
        uni = StaticUniverse(list(case['universe']['static']))
    if 'single' in case['alpha']:
        alpha = SingleSignalAlphaModel(uni, signal=case['alpha']['single'])
    else:
        alpha = FixedSignalsAlphaModel(collections.OrderedDict((a, w) for a, w in case['alpha']['fixed']))
    sizer = DW(b, '1', dh, case['param']) if case['long_only'] else LS(b, '1', dh, case['param'])
    rec = {}

    class Tap(object):
        def __call__(self, dt, w):
            rec['w'] = [[a, float(x)] for a, x in w.items()]
            try:
                r = sizer(dt, w)
            except Exception as e:
                rec['t'] = None
                rec['sizer_err'] = type(e).__name__
                raise
            rec['t'] = [[a, int(v['quantity'])] for a, v in r.items()]
            return r

    pcm = PortfolioConstructionModel(b, '1', uni, Tap(), FixedWeightPortfolioOptimiser(), alpha_model=alpha, data_handler=dh)
    stats = {'target_allocations': []}
    first = _pcm_round(case, case['t'], b, pcm, uni, alpha, rec, stats, held)
    # the same model object serves further rebalances: at the same instant again or later, after the first round's fills
    # and possibly a fill from elsewhere in between
    more = []
    for (dt_off, between) in case.get('rounds', []):
        tn = case['t'] + dt_off
        try:
            if between is not None:
                b.submit_order('1', Order(b.current_dt, between[0], between[1]))
            b.update(ts(tn))
            held_n = [[a, int(v['quantity'])] for a, v in b.get_portfolio_as_dict('1').items()]
        except Exception:
            break
        rec.clear()
        r = _pcm_round(case, tn, b, pcm, uni, alpha, rec, stats, held_n)
        r['t'] = tn
        more.append(r)
        if r['out'] != 'ok' or not isinstance(r.get('after'), list):
            break
    first['more'] = more
    return first


def _pcm_round(case, t_secs, b, pcm, uni, alpha, rec, stats, held):
    t = ts(t_secs)
    res = dict(held=held, universe=list(uni.get_assets(t)), alpha=[[a, float(w)] for a, w in alpha(t).items()])
    n_rec = len(stats['target_allocations'])
    try:
        orders = pcm(t, stats=stats)
        res['out'] = 'ok'
        res['orders'] = [[o.asset, int(o.quantity)] for o in orders]
        res['order_types'] = sorted(set(type(o.quantity).__name__ for o in orders))
    except (ValueError, KeyError, ZeroDivisionError) as e:
        res['out'] = type(e).__name__
        orders = []
    res['sizer_in'] = rec.get('w')
    res['target'] = rec.get('t')
    res['universe_after'] = list(uni.get_assets(t))
    res['alpha_after'] = [a for a in alpha(t)]
    fresh = stats['target_allocations'][n_rec:]
    res['alloc'] = [[k, float(v)] for k, v in fresh[-1].items() if k != 'Date'] if fresh else None
    res['alloc_date'] = secs(fresh[-1]['Date']) if fresh else None
    res['alloc_records_added'] = len(fresh)
    if res['out'] == 'ok':
        for o in orders:
            b.submit_order('1', o)
        try:
            b.update(t)
            res['after'] = sorted([a, int(v['quantity'])] for a, v in b.get_portfolio_as_dict('1').items())
        except Exception as e:
            res['after'] = {'error': type(e).__name__}
    return res


def run_dyn(case):
    uni = DynamicUniverse(collections.OrderedDict((a, entry_ts(e, case.get('entry_tz'), case.get('nat'))) for a, e in case['dates']))
    got = list(uni.get_assets(ts(case['t'])))
    stat = list(StaticUniverse([a for a, e in case['dates']]).get_assets(ts(case['t'])))
    am = SingleSignalAlphaModel(uni, signal=0.75)
    ss = am(ts(case['t']))
    more = [[t, list(uni.get_assets(ts(t))), [a for a in am(ts(t))]] for t in case.get('more', [])]
    if case.get('static_list') is not None:
        su = StaticUniverse(list(case['static_list']))
        stat2 = [list(su.get_assets(ts(t))) for t in [case['t']] + list(case.get('more', []))]
    else:
        stat2 = None
    return dict(static_list=stat2, assets=got, static=stat, single=[[a, float(w)] for a, w in ss.items()], more=more)


def run_eqw(case):
    w = collections.OrderedDict((a, x) for a, x in case['weights'])
    r = EqualWeightPortfolioOptimiser(scale=case['scale'])(ts(MON_OPEN), w)
    fw = FixedWeightPortfolioOptimiser()(ts(MON_OPEN), w)
    return dict(weights=[[a, float(x)] for a, x in r.items()], fixed=[[a, float(x)] for a, x in fw.items()])


def execute(case):
    return dict(dw=run_sizer, ls=run_sizer, pcm=run_pcm, dyn=run_dyn, eqw=run_eqw)[case['kind']](case)


# ---------------------------------------------------------------------------------------------
# model lines

def model_lines(case, real):
    k = case['kind']
    if k in ('dw', 'ls'):
        items = []
        for a, w, p in case['items']:
            items += [a, str(f2b(w)), '-' if p is None else str(f2b(p))]
        return ['%snew %d' % (k, f2b(case['param'])),
                ' '.join([k, fee_tokens(case['fee']), str(f2b(case['equity'])), str(f2b(case['param'])), str(len(case['items']))] + items)]
    if k == 'pcm':
        toks = ['pcm', str(len(real['held']))]
        for a, q in real['held']:
            toks += [a, str(q)]
        toks.append(str(len(real['universe'])))
        toks += real['universe']
        toks.append(str(len(real['alpha'])))
        for a, w in real['alpha']:
            toks += [a, str(f2b(w))]
        if real.get('target') is None:
            toks.append('E')
        else:
            toks += ['T', str(len(real['target']))]
            for a, q in real['target']:
                toks += [a, str(q)]
        return [' '.join(toks)]
    if k == 'dyn':
        lines = []
        for t in [case['t']] + list(case.get('more', [])):
            toks = ['dyn', str(t), str(len(case['dates']))]
            for a, e in case['dates']:
                toks += [a, '-' if e is None else str(e)]
            lines.append(' '.join(toks))
        return lines
    if k == 'eqw':
        toks = ['eqw', str(f2b(case['scale'])), str(len(case['weights']))]
        for a, w in case['weights']:
            toks += [a, str(f2b(w))]
        return [' '.join(toks)]
    raise AssertionError(k)


# ---------------------------------------------------------------------------------------------
# comparison

def cmp_sizer(case, real, mf, mr, tally, stats):
    mism = []
    newf, callf, callr = mf[0], mf[1], mr[1]
    tally.discrete += 1
    if real['new'] != newf['out']:
        mism.append(dict(what='construction accepted/refused', impl=real['new'], model=newf['out']))
        return mism
    if real['new'] != 'ok':
        return mism
    tally.discrete += 1
    if real['out'] != callf['out']:
        # error raised while iterating: both must agree on the kind
        mism.append(dict(what='result kind', impl=real['out'], model=callf['out']))
        return mism
    if real['out'] != 'ok':
        return mism
    qi = [(a, int(q)) for a, q in real['qty']]
    qf = [(a, int(q)) for a, q in callf['qty']]
    qr = [(a, int(q)) for a, q in callr['qty']] if callr.get('out') == 'ok' else None
    if [a for a, _ in qi] != [a for a, _ in qf]:
        mism.append(dict(what='assets of the target portfolio (order)', impl=qi, model=qf))
        return mism
    for j, ((a, x), (_, y)) in enumerate(zip(qi, qf)):
        tally.discrete += 1
        if x == y:
            continue
        z = qr[j][1] if qr else None
        if z is not None and (z != y or x == z):
            tally.near_disc += 1       # float noise at a floor/trunc boundary
            stats['near_discontinuity'] += 1
            continue
        mism.append(dict(what='target quantity of %s' % a, impl=x, model=dict(float=y, rat=z)))
    return mism


def cmp_pcm(case, real, mf, mr, tally, stats, prop):
    mism = []
    f = mf[0]
    if prop == 'C09':
        tally.discrete += 1
        if real['sizer_in'] is not None:
            wi = [(a, f2b(w)) for a, w in real['sizer_in']]
            wm = [(a, w) for a, w in f['weights']]
            if wi != wm:
                mism.append(dict(what='weights handed to the sizer (assets, order, values)', impl=real['sizer_in'],
                                 model=[(a, b2f(w)) for a, w in f['weights']]))
        if real['alloc'] is not None:
            tally.discrete += 1
            ai = [(a, f2b(w)) for a, w in real['alloc']]
            if ai != [(a, w) for a, w in f['weights']]:
                mism.append(dict(what='recorded target allocation', impl=real['alloc'], model=[(a, b2f(w)) for a, w in f['weights']]))
            if real['alloc_date'] != case['t']:
                mism.append(dict(what='allocation record date', impl=real['alloc_date'], model=case['t']))
        tally.discrete += 1
        if real['out'] != f['out']:
            mism.append(dict(what='result kind', impl=real['out'], model=f['out']))
        elif real['out'] == 'ok':
            if [tuple(x) for x in real['orders']] != [tuple(x) for x in f['orders']]:
                mism.append(dict(what='rebalance orders (asset, quantity) in order', impl=real['orders'], model=f['orders']))
    return mism


def cmp_dyn(case, real, mf, mr, tally, stats):
    tally.discrete += 1
    if real['assets'] != mf[0].get('assets'):
        return [dict(what='DynamicUniverse.get_assets', impl=real['assets'], model=mf[0].get('assets'))]
    for (t, got, _), m in zip(real.get('more', []), mf[1:]):
        tally.discrete += 1
        if got != m.get('assets'):
            return [dict(what='DynamicUniverse.get_assets queried again at %d on the same object' % t, impl=got, model=m.get('assets'))]
    return []


def cmp_eqw(case, real, mf, mr, tally, stats):
    mism = []
    wm, wr = mf[0]['weights'], mr[0]['weights']
    if [a for a, _ in real['weights']] != [a for a, _ in wm]:
        return [dict(what='equal-weight keys', impl=real['weights'], model=wm)]
    for (a, x), (_, y), (_, z) in zip(real['weights'], wm, wr):
        if not cont_match(x, y, z, scale_of(x), tally):
            mism.append(dict(what='equal weight of %s' % a, impl=x, model=b2f(y)))
    return mism


# ---------------------------------------------------------------------------------------------
# oracles

def fee_rate(fee):
    return F(0) if fee[0] == 'Z' else F(fee[1]) + F(fee[2])


def oracle_c10(case, real):
    out = []
    if case['kind'] != 'dw':
        return out
    b = case['param']
    if b < 0.0 or b > 1.0:
        if real['new'] != 'ValueError':
            out.append(dict(what='buffer %r outside [0,1] accepted' % b, key='buffer-accepted'))
        return out
    if real['new'] != 'ok':
        out.append(dict(what='buffer %r in [0,1] refused' % b, key='buffer-refused'))
        return out
    items = case['items']
    if not items:
        if real['out'] != 'ok' or real['qty'] != []:
            out.append(dict(what='empty weights must give an empty target', key='empty'))
        return out
    if any(w < 0 for a, w, p in items):
        if real['out'] != 'ValueError':
            out.append(dict(what='negative weight accepted: %r' % real['out'], key='negative-weight-accepted'))
        return out
    if any(p is None for a, w, p in items):
        if real['out'] != 'ValueError':
            out.append(dict(what='NaN price accepted: %r' % real['out'], key='nan-price-accepted'))
        return out
    if real['out'] != 'ok':
        out.append(dict(what='valid input refused: %s' % real['out'], key='valid-refused'))
        return out
    E, f = F(case['equity']), fee_rate(case['fee'])
    S = sum(F(w) for a, w, p in items)
    q = dict((a, x) for a, x in real['qty'])
    if sorted(q) != sorted(a for a, w, p in items) or len(real['qty']) != len(items):
        out.append(dict(what='target keys %r are not the keys of the weights %r' % (sorted(q), sorted(a for a, w, p in items)), key='target-keys'))
        return out
    for a, x in real['qty']:
        if int(x) != x:
            out.append(dict(what='non-integral quantity %r' % x, key='non-integral'))
    if all(w == 0 for a, w, p in items):
        if any(x != 0 for x in q.values()):
            out.append(dict(what='all-zero weights gave %r' % real['qty'], key='zero-weights'))
        return out
    if E <= 0:
        return out          # outside the quantifier (positive equity)
    key = None
    if f > 1:
        key = 'fee-rate-above-one'
    elif S <= F(TINY):
        key = 'tiny-weight-sum'
    total = F(0)
    for a, w, p in items:
        A = E * (1 - F(b)) * F(w) / S
        qa, pp = F(int(q[a])), F(p)
        tol = abs(A) / 10 ** 9 + F(1, 10 ** 6)
        total += qa * pp
        if qa < 0:
            out.append(dict(what='negative long-only quantity %s for %s' % (qa, a), key=key or 'negative-quantity'))
        if qa * pp + f * A > A + tol:
            out.append(dict(what='%s: cost %s + fees exceeds the normalised share %s' % (a, float(qa * pp), float(A)),
                            key=key or 'over-budget'))
        if not (A < (qa + 1) * pp + f * A + tol):
            out.append(dict(what='%s: one more share would still fit (quantity %s, share %s, price %s)' % (a, qa, float(A), p),
                            key=key or 'under-filled'))
    if total > (1 - F(b)) * E * (1 + F(1, 10 ** 9)) + F(1, 10 ** 6):
        out.append(dict(what='whole target costs %s > (1-buffer) x equity %s' % (float(total), float((1 - F(b)) * E)),
                        key=key or 'total-over-budget'))
    return out


def trunc(x):
    return math.floor(x) if x >= 0 else math.ceil(x)


def oracle_c11(case, real):
    out = []
    if case['kind'] != 'ls':
        return out
    L = case['param']
    if L <= 0:
        if real['new'] != 'ValueError':
            out.append(dict(what='non-positive leverage %r accepted' % L, key='leverage-accepted'))
        return out
    if real['new'] != 'ok':
        out.append(dict(what='positive leverage refused', key='leverage-refused'))
        return out
    items = case['items']
    if not items:
        if real['out'] != 'ok' or real['qty'] != []:
            out.append(dict(what='empty weights must give an empty target', key='empty'))
        return out
    if any(p is None for a, w, p in items):
        if real['out'] != 'ValueError':
            out.append(dict(what='NaN price accepted: %r' % real['out'], key='nan-price-accepted'))
        return out
    if real['out'] != 'ok':
        out.append(dict(what='valid input refused: %s' % real['out'], key='valid-refused'))
        return out
    E, f = F(case['equity']), fee_rate(case['fee'])
    if E <= 0:
        return out
    G = sum(abs(F(w)) for a, w, p in items)
    q = dict((a, x) for a, x in real['qty'])
    if sorted(q) != sorted(a for a, w, p in items) or len(real['qty']) != len(items):
        out.append(dict(what='target keys %r are not the keys of the weights %r' % (sorted(q), sorted(a for a, w, p in items)), key='target-keys'))
        return out
    if G == 0:
        if any(x != 0 for x in q.values()):
            out.append(dict(what='all-zero weights gave %r' % real['qty'], key='zero-weights'))
        return out
    key = None
    if f > 1:
        key = 'fee-rate-above-one'
    elif G <= F(TINY):
        key = 'tiny-weight-sum'
    gross = F(0)
    for a, w, p in items:
        A = E * F(w) * F(L) / G
        D = A - f * abs(A)
        qa, pp = int(q[a]), F(p)
        tol = abs(A) / 10 ** 9 + F(1, 10 ** 6)
        gross += abs(qa) * pp
        if int(q[a]) != q[a]:
            out.append(dict(what='non-integral quantity %r' % q[a], key='non-integral'))
        if qa != 0 and (qa > 0) != (w > 0):
            out.append(dict(what='%s: quantity %d does not carry the sign of weight %r' % (a, qa, w), key=key or 'sign'))
        if abs(qa) * pp > abs(D) + tol:
            out.append(dict(what='%s: |quantity| x price %s exceeds the after-cost allocation %s' % (a, float(abs(qa) * pp), float(abs(D))),
                            key=key or 'not-affordable'))
        if not (abs(D) - 1 < (abs(qa) + 1) * pp + tol):
            out.append(dict(what='%s: a larger quantity is affordable (|q| %d, allocation %s, price %s)' % (a, abs(qa), float(abs(D)), p),
                            key=key or 'under-filled'))
    if gross > F(L) * E * (1 + f) * (1 + F(1, 10 ** 9)) + F(1, 10 ** 6):
        out.append(dict(what='gross exposure %s > L x equity x (1+f) %s' % (float(gross), float(F(L) * E * (1 + f))),
                        key=key or 'gross-over'))
    return out


def oracle_c09(case, real):
    out = []
    if case['kind'] != 'pcm':
        return out
    held = dict((a, q) for a, q in real['held'])
    aw = dict((a, w) for a, w in real['alpha'])
    A = sorted(set(held) | set(real['universe']) | set(aw))
    if real['alloc'] is not None:
        al = dict((a, w) for a, w in real['alloc'])
        if sorted(al) != A or len(al) != len(real['alloc']):
            out.append(dict(what='allocation record covers %r, expected %r' % (sorted(al), A), key='alloc-keys'))
        for a in A:
            if a in al and a not in aw and al[a] != 0.0:
                out.append(dict(what='allocation weight of %s is %r although the alpha model is silent' % (a, al[a]), key='alloc-zero'))
            if a in al and a in aw and al[a] != aw[a]:
                out.append(dict(what='allocation weight of %s is %r, alpha weight %r' % (a, al[a], aw[a]), key='alloc-value'))
    if real['out'] == 'ok' and real.get('alloc_records_added', 1) != 1:
        out.append(dict(what='one rebalance added %d allocation records' % real['alloc_records_added'], key='alloc-count'))
    if real['out'] == 'ok' and real['target'] is None and A:
        out.append(dict(what='orders %r were generated without asking the order sizer for the target of %r' % (real.get('orders'), A),
                        key='sizer-not-consulted'))
    if real['out'] != 'ok' or real['target'] is None:
        return out
    tgt = dict((a, q) for a, q in real['target'])
    if A and sorted(tgt) != A:
        out.append(dict(what='sizer was asked about %r, expected %r' % (sorted(tgt), A), key='asset-set'))
    exp = [[a, tgt.get(a, 0) - held.get(a, 0)] for a in A if tgt.get(a, 0) - held.get(a, 0) != 0]
    if real['orders'] != exp:
        out.append(dict(what='orders %r, expected target - held = %r' % (real['orders'], exp), key='orders'))
    names = [a for a, q in real['orders']]
    if names != sorted(set(names)) or any(q == 0 for a, q in real['orders']):
        out.append(dict(what='orders not strictly ascending / zero quantity: %r' % real['orders'], key='order-form'))
    for a in held:
        if a not in aw and tgt.get(a, 0) != 0:
            out.append(dict(what='held asset %s without weight keeps target %r' % (a, tgt.get(a)), key='liquidation'))
    if isinstance(real.get('after'), list):
        want = sorted([a, q] for a, q in tgt.items() if q != 0)
        if real['after'] != want:
            out.append(dict(what='holdings after the fills %r differ from the target %r' % (real['after'], want), key='reach'))
    return out


def oracle_c19(case, real):
    out = []
    if case['kind'] == 'dyn':
        want = [a for a, e in case['dates'] if e is not None and e <= case['t']]
        if real['assets'] != want:
            out.append(dict(what='universe at %d is %r, entries at or before it: %r' % (case['t'], real['assets'], want), key='membership'))
        if real['static'] != [a for a, e in case['dates']]:
            out.append(dict(what='static universe returned %r' % real['static'], key='static'))
        if [a for a, w in real['single']] != want or any(w != 0.75 for a, w in real['single']):
            out.append(dict(what='single-signal alpha weights %r for universe %r' % (real['single'], want), key='alpha-keys'))
        for got in (real.get('static_list') or []):
            if got != list(case['static_list']):
                out.append(dict(what='static universe configured with %r yields %r' % (case['static_list'], got), key='static-list'))
                break
        for t, got, akeys in real.get('more', []):
            w2 = [a for a, e in case['dates'] if e is not None and e <= t]
            if got != w2 or akeys != w2:
                out.append(dict(what='universe queried again at %d gives %r (alpha keys %r), entries at or before it: %r' % (t, got, akeys, w2),
                                key='membership-after-earlier-query'))
    elif case['kind'] == 'eqw':
        n = len(case['weights'])
        if [a for a, w in real['weights']] != [a for a, w in case['weights']]:
            out.append(dict(what='equal-weight keys changed', key='eqw-keys'))
        s = sum(F(w) for a, w in real['weights'])
        if any(abs(F(w) - F(case['scale']) / n) > F(1, 10 ** 12) for a, w in real['weights']) or abs(s - F(case['scale'])) > F(1, 10 ** 9):
            out.append(dict(what='equal weights %r do not sum to the scale %r' % (real['weights'], case['scale']), key='eqw-values'))
        if real['fixed'] != [[a, float(w)] for a, w in case['weights']]:
            out.append(dict(what='fixed-weight optimiser changed its input', key='fixed-weight'))
    elif case['kind'] == 'pcm' and real.get('universe_after') is not None and (
            real['universe_after'] != real['universe'] or real['alpha_after'] != [a for a, w in real['alpha']]):
        out.append(dict(what='the universe answers %r after a portfolio-construction call, %r before it (alpha keys %r -> %r)' % (
            real['universe_after'], real['universe'], [a for a, w in real['alpha']], real['alpha_after']), key='universe-changed-by-construction'))
    elif case['kind'] == 'pcm' and 'dynamic' in case['universe'] and 'single' in case['alpha'] and not case['fills'] and not any(
            r[1] for r in case.get('rounds', [])):
        entered = set(a for a, e in case['universe']['dynamic'] if e is not None and e <= case['t'])
        if real['alloc'] is not None:
            for a, w in real['alloc']:
                if w != 0 and a not in entered:
                    out.append(dict(what='%s has target weight %r before its entry' % (a, w), key='weight-before-entry'))
            if entered - set(a for a, w in real['alloc']):
                out.append(dict(what='entered assets %r missing from the allocation' % sorted(entered - set(a for a, w in real['alloc'])),
                                key='missing-after-entry'))
        for a, q in (real.get('orders') or []):
            if a not in entered:
                out.append(dict(what='order for %s before its entry' % a, key='order-before-entry'))
        if isinstance(real.get('after'), list):
            for a, q in real['after']:
                if a not in entered:
                    out.append(dict(what='position in %s before its entry' % a, key='position-before-entry'))
            # included from the first rebalance at or after its entry: a non-zero target of an entered asset is held after the fills
            have = set(a for a, q in real['after'])
            for a, q in (real.get('target') or []):
                if q != 0 and a in entered and a not in have:
                    out.append(dict(what='%s has entered and is sized %r, but the portfolio holds none after the fills' % (a, q),
                                    key='no-position-after-entry'))
    return out


def nontrivial(case, real):
    k = case['kind']
    if k in ('dw', 'ls'):
        return real.get('out') == 'ok' and any(q != 0 for a, q in (real.get('qty') or []))
    if k == 'pcm':
        return bool(real.get('held'))
    if k == 'dyn':
        return bool(case['dates'])
    return bool(case.get('weights'))


ORACLES = dict(C09=oracle_c09, C10=oracle_c10, C11=oracle_c11, C19=oracle_c19)
KINDS = dict(C09=('pcm',), C10=('dw',), C11=('ls',), C19=('dyn', 'eqw', 'pcm'))


def gen_cases(prop, rng, n):
    cases = []
    for _ in range(n):
        if prop == 'C10':
            cases.append(gen_sizer_case(rng, 'dw'))
        elif prop == 'C11':
            cases.append(gen_sizer_case(rng, 'ls'))
        elif prop == 'C09':
            cases.append(gen_pcm_case(rng))
        else:
            k = rng.random()
            cases.append(gen_dyn_case(rng) if k < 0.5 else gen_eqw_case(rng) if k < 0.7 else gen_pcm_case(rng))
    return cases


def run(prop, tier, seed, n_cases, corpus=()):
    rng = rng_for(seed, 'K4' + prop, tier)
    cases = list(corpus) + gen_cases(prop, rng, n_cases)
    reals = [execute(c) for c in cases]
    # every further round of a multi-round PCM case is judged like a case of its own (same configuration, the holdings and
    # the instant of that round)
    ec, er = [], []
    for c, r in zip(cases, reals):
        ec.append(c)
        er.append(r)
        for j, r2 in enumerate(r.get('more', []) if c['kind'] == 'pcm' and isinstance(r, dict) else []):
            ec.append(dict(c, round=j + 1, t=r2['t']))
            er.append(r2)
    cases, reals = ec, er
    lines, spans = [], []
    for c, r in zip(cases, reals):
        ls_ = model_lines(c, r)
        spans.append((len(lines), len(ls_)))
        lines += ls_
    outs_f = run_driver_json('k4', 'float', lines)
    outs_r = run_driver_json('k4', 'rat', lines)
    tally, stats, hist = Tally(), collections.Counter(), collections.Counter()
    mism, oracle = [], []
    for i, (c, r) in enumerate(zip(cases, reals)):
        off, n = spans[i]
        mf, mr = outs_f[off:off + n], outs_r[off:off + n]
        k = c['kind']
        hist['kind:' + k] += 1
        if k in ('dw', 'ls'):
            m = cmp_sizer(c, r, mf, mr, tally, stats)
            hist['%s:new:%s' % (k, r['new'])] += 1
            hist['%s:out:%s' % (k, r['out'])] += 1
            if c['fee'][0] != 'Z':
                hist[k + ':nonzero-fee'] += 1
            if r.get('qty') and any(q != 0 for a, q in r['qty']):
                hist[k + ':nonzero-target'] += 1
            if r.get('qty') and any(q < 0 for a, q in r['qty']):
                hist[k + ':short-target'] += 1
        elif k == 'pcm':
            m = cmp_pcm(c, r, mf, mr, tally, stats, prop)
            hist['pcm:out:%s' % r['out']] += 1
            if r['held']:
                hist['pcm:with-holdings'] += 1
            if set(a for a, q in r['held']) - set(r['universe']):
                hist['pcm:held-outside-universe'] += 1
            if set(a for a, w in r['alpha']) - set(r['universe']) - set(a for a, q in r['held']):
                hist['pcm:alpha-outside-both'] += 1
            if r.get('orders') and any(q < 0 for a, q in r['orders']):
                hist['pcm:sell-orders'] += 1
        elif k == 'dyn':
            m = cmp_dyn(c, r, mf, mr, tally, stats)
            if any(e == c['t'] for a, e in c['dates']):
                hist['dyn:entry-exactly-now'] += 1
            if any(e is None for a, e in c['dates']):
                hist['dyn:no-entry-date'] += 1
        else:
            m = cmp_eqw(c, r, mf, mr, tally, stats)
        for x in m:
            x['case_index'] = i
        mism += m
        for f in ORACLES[prop](c, r):
            f['case_index'] = i
            oracle.append(f)
    stats['cases'] = len(cases)
    stats['corpus_cases'] = len(corpus)
    return dict(cases=cases, reals=reals, mismatches=mism, oracle=oracle, stats=stats, tally=tally, hist=hist)
