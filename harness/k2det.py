"""K2D harness (C18 for the data layer): the answers of the CSV data source and of the data handler to a list of price queries do
not depend on the order in which the queries are put (fresh objects, the same queries in their original and in a shuffled order)."""
import collections

import k2
from common import Tally, rng_for, f2b


def canon(x):
    if isinstance(x, float):
        return f2b(x)
    if isinstance(x, dict):
        return {k: canon(v) for k, v in x.items()}
    if isinstance(x, (list, tuple)):
        return [canon(v) for v in x]
    return x


def nontrivial(case, real):
    return len(case['queries']) >= 10


def run(prop, tier, seed, n_cases, corpus=()):
    rng = rng_for(seed, 'K2D' + prop, tier)
    cases = list(corpus) + [k2.gen_case(rng) for _ in range(n_cases)]
    oracle, reals = [], []
    hist = collections.Counter()
    for i, c in enumerate(cases):
        r1 = k2.execute(c)
        reals.append(r1)
        n = len(c['queries'])
        perm = list(range(n))
        rng.shuffle(perm)
        c2 = dict(c, queries=[c['queries'][j] for j in perm],
                  subsec=[(c.get('subsec') or [0] * n)[j] for j in perm], zones=[(c.get('zones') or [None] * n)[j] for j in perm])
        r2 = k2.execute(c2)
        hist['two-sources' if c.get('files2') else 'one-source'] += 1
        keys = ('bid', 'ask', 'hbid', 'hask', 'hmid', 'hba')
        for pos, j in enumerate(perm):
            a, b = r1['results'][j], r2['results'][pos]
            if any(canon(a.get(k)) != canon(b.get(k)) for k in keys):
                k_bad = next(k for k in keys if canon(a.get(k)) != canon(b.get(k)))
                oracle.append(dict(what='query %r answered %r (%s) in the original order and %r when the same queries are put in another order'
                                        % (c['queries'][j], a.get(k_bad), k_bad, b.get(k_bad)), key='depends-on-query-order', case_index=i))
                break
    stats = collections.Counter(cases=len(cases), corpus_cases=len(corpus), queries=sum(len(c['queries']) for c in cases))
    return dict(cases=cases, reals=reals, mismatches=[], oracle=oracle, stats=stats, tally=Tally(), hist=hist)
