"""K1 harness: simulation clock (C12), rebalance schedules (C13), exchange hours (C04), calendar table.

Cases: {"kind": "sim", "start": s, "end": e, "pre": b, "post": b} | {"kind": "weekly", "start", "end", "wd": str, "pre": b}
       | {"kind": "daily"|"eom", "start", "end", "pre"} | {"kind": "bh", "start"} | {"kind": "isopen", "t"}
       | {"kind": "civil", "lo": day, "n": count}
"""
import collections
import datetime as dtm
import warnings

warnings.filterwarnings('ignore')
import pandas as pd

from common import ts, secs, run_driver_json, Tally, rng_for, ts_in, ZONES

from qstrader.exchange.simulated_exchange import SimulatedExchange
from qstrader.simulation.daily_bday import DailyBusinessDaySimulationEngine
from qstrader.system.rebalance.buy_and_hold import BuyAndHoldRebalance
from qstrader.system.rebalance.daily import DailyRebalance
from qstrader.system.rebalance.end_of_month import EndOfMonthRebalance
from qstrader.system.rebalance.weekly import WeeklyRebalance

EPOCH = dtm.date(1970, 1, 1)
OPEN, CLOSE = 52200, 75600
WDS = ['MON', 'TUE', 'WED', 'THU', 'FRI']
LENGTHS = list(range(0, 46)) + list(range(58, 64)) + list(range(364, 368)) + list(range(730, 733))


def date_of(day):
    return EPOCH + dtm.timedelta(days=day)


def gen_range(rng, in_quantifier=None):
    d0 = rng.randrange(366, 47482)           # 1971 .. 2099
    if rng.random() < 0.1:
        d0 = rng.choice([rng.randrange(-25567, 0), rng.randrange(-40, 10)])      # 1900 .. 1969, and ranges across 1970-01-01
    if rng.random() < 0.3:
        # month/year/leap-day boundaries
        y = rng.randrange(1971, 2100)
        m = rng.choice([1, 2, 2, 3, 12, rng.randint(1, 12)])
        first = (dtm.date(y, m, 1) - EPOCH).days
        d0 = first + rng.choice([-3, -2, -1, 0, 1, 27, 28])
    n = rng.choice(LENGTHS)
    stod = rng.choice([0, 0, OPEN, OPEN, rng.randrange(0, 86400), rng.choice([OPEN - 1, OPEN + 1, CLOSE, CLOSE + 60, 86340])])
    k = rng.random()
    ok = in_quantifier if in_quantifier is not None else k < 0.85
    if ok:
        etod = rng.choice([86340, 86340, stod, rng.randrange(stod, 86400)])
    else:
        etod = rng.randrange(0, stod) if stod > 0 else 0
    start = d0 * 86400 + stod
    end = (d0 + n) * 86400 + etod
    if rng.random() < 0.04:
        end = start - rng.choice([1, 60, 86400])
    return start, end


def gen_case(rng, prop):
    c = gen_case0(rng, prop)
    if 'start' in c and 'end' in c and c['kind'] != 'bh' and c['start'] < c['end'] and c['end'] % 86400 > c['start'] % 86400 \
            and rng.random() < 0.1:
        c['start_us'] = rng.choice([1, 250000, 999999, rng.randrange(1, 10 ** 6)])
    if 'pre' in c and rng.random() < 0.25:
        c['flag_style'] = rng.choice(['numpy', 'int'])
    if 'start' in c and 'end' in c and c['kind'] in ('weekly', 'daily', 'eom') and rng.random() < 0.15:
        c['naive'] = True          # both ends handed over as time-zone-naive timestamps
    if 'start' in c and 'end' in c and rng.random() < 0.3:
        # other schedules / clocks over the SAME range were built earlier in this process (a schedule is specified as a
        # function of its own arguments): siblings differing in kind, weekday or the pre/post flags
        prior = []
        for _ in range(rng.randint(1, 3)):
            if c['kind'] == 'sim':
                prior.append(dict(kind='sim', start=c['start'], end=c['end'], pre=rng.random() < 0.5, post=rng.random() < 0.5))
            else:
                kind = rng.choice(['weekly', 'weekly', 'daily', 'eom'])
                q = dict(kind=kind, start=c['start'], end=c['end'], pre=rng.choice([c.get('pre', False), rng.random() < 0.5]))
                if kind == 'weekly':
                    q['wd'] = rng.choice(WDS)
                prior.append(q)
        c['prior'] = prior
    return c


def gen_case0(rng, prop):
    k = rng.random()
    if prop == 'C12':
        s, e = gen_range(rng)
        return dict(kind='sim', start=s, end=e, pre=rng.random() < 0.5, post=rng.random() < 0.5)
    if prop == 'C04':
        d = rng.randrange(366, 47482)
        tod = rng.choice([OPEN - 1, OPEN, OPEN + 1, CLOSE - 1, CLOSE, CLOSE + 1, 0, 86399, rng.randrange(0, 86400)])
        return dict(kind='isopen', t=d * 86400 + tod, zone=(rng.choice(ZONES) if rng.random() < 0.3 else None))
    # C13
    s, e = gen_range(rng)
    pre = rng.random() < 0.3
    if k < 0.35:
        wd = rng.choice(WDS)
        r = rng.random()
        if r < 0.25:
            wd = wd.lower()
        elif r < 0.35:
            wd = wd.capitalize()
        elif r < 0.45:
            wd = rng.choice(['SAT', 'SUN', 'XYZ', '', 'MONDAY', 'mo'])
        return dict(kind='weekly', start=s, end=e, wd=wd, pre=pre)
    if k < 0.6:
        return dict(kind='daily', start=s, end=e, pre=pre)
    if k < 0.9:
        return dict(kind='eom', start=s, end=e, pre=pre)
    return dict(kind='bh', start=s)


def xsecs(t):
    """seconds of a timestamp; a value that is not on a whole second is returned as a float (and so never equals a model instant)"""
    v = t.value
    return int(v // 10 ** 9) if v % 10 ** 9 == 0 else v / 1e9


def start_of(case):
    """the range start, optionally carrying microseconds (the schedule is that of the whole second)"""
    t = ts(case['start'])
    if case.get('start_us'):
        import pandas as pd
        t = t + pd.Timedelta(microseconds=case['start_us'])
    return t.tz_localize(None) if case.get('naive') else t


def end_of(case):
    """the range end; with `naive`, both ends are handed over without a time zone (they are then read as UTC)"""
    t = ts(case['end'])
    return t.tz_localize(None) if case.get('naive') else t


def flag(case, name):
    """a boolean option as callers hand it over: the Python object, a NumPy boolean (the result of a comparison on arrays) or 0/1"""
    v = bool(case[name])
    style = case.get('flag_style')
    if style == 'numpy':
        import numpy as np
        return np.bool_(v)
    if style == 'int':
        return int(v)
    return v


def execute(case):
    k = case['kind']
    for q in case.get('prior', []):
        execute(q)
    try:
        if k == 'sim':
            eng = DailyBusinessDaySimulationEngine(start_of(case), ts(case['end']), pre_market=flag(case, 'pre'), post_market=flag(case, 'post'))
            first = [[xsecs(ev.ts), ev.event_type] for ev in eng]
            again = [[xsecs(ev.ts), ev.event_type] for ev in eng]      # the same engine object walked a second time
            return dict(out='ok', events=first, events_again=again)
        if k == 'weekly':
            r = WeeklyRebalance(start_of(case), end_of(case), case['wd'], pre_market=flag(case, 'pre'))
        elif k == 'daily':
            r = DailyRebalance(start_of(case), end_of(case), pre_market=flag(case, 'pre'))
        elif k == 'eom':
            r = EndOfMonthRebalance(start_of(case), end_of(case), pre_market=flag(case, 'pre'))
        elif k == 'bh':
            r = BuyAndHoldRebalance(ts(case['start']))
        elif k == 'isopen':
            return dict(out='ok', open=bool(SimulatedExchange(None).is_open_at_datetime(ts_in(case['t'], case.get('zone')))))
        elif k == 'civil':
            rows = []
            for d in range(case['lo'], case['lo'] + case['n']):
                dd = date_of(d)
                nb = d + 1
                while date_of(nb).weekday() > 4:
                    nb += 1
                bme = dd.weekday() <= 4 and date_of(nb).month != dd.month
                rows.append([dd.year, dd.month, dd.day, dd.weekday(), bme])
            return dict(out='ok', dates=rows)
        res = dict(out='ok', times=[xsecs(t) for t in r.rebalances])
        if k in ('weekly', 'daily', 'eom'):
            # every instant is stamped in UTC (the session compares them with the clock's UTC events by `==`)
            res['not_utc'] = [str(t) for t in r.rebalances if t.tzinfo is None or t.utcoffset().total_seconds() != 0][:4]
        if k in ('weekly', 'daily', 'eom') and case['start'] <= case['end']:
            eng = DailyBusinessDaySimulationEngine(start_of(case), end_of(case), pre_market=False, post_market=False)
            evs = [ev.ts for ev in eng]
            res['clock'] = [xsecs(t) for t in evs]
            res['clock_not_utc'] = [str(t) for t in evs if t.tzinfo is None or t.utcoffset().total_seconds() != 0][:4]
        return res
    except ValueError:
        return dict(out='ValueError')


def model_line(case):
    k = case['kind']
    b = lambda x: '1' if x else '0'
    if k == 'sim':
        return 'sim %d %d %s %s' % (case['start'], case['end'], b(case['pre']), b(case['post']))
    if k == 'weekly':
        return 'weekly %d %d %s %s' % (case['start'], case['end'], case['wd'] if case['wd'] else '""', b(case['pre']))
    if k in ('daily', 'eom'):
        return '%s %d %d %s' % (k, case['start'], case['end'], b(case['pre']))
    if k == 'bh':
        return 'bh %d' % case['start']
    if k == 'isopen':
        return 'isopen %d' % case['t']
    return 'civil %d %d' % (case['lo'], case['n'])


def compare(case, real, m, tally):
    mism = []
    tally.discrete += 1
    if real['out'] != m.get('out'):
        return [dict(what='accepted/refused', impl=real['out'], model=m.get('out'))]
    if real['out'] != 'ok':
        return mism
    for key in ('events', 'times', 'open', 'dates'):
        if key in real:
            tally.discrete += 1
            a, b = real[key], m.get(key)
            if key in ('events', 'dates'):
                a, b = [list(x) for x in a], [list(x) for x in (b or [])]
            if a != b:
                first = next((i for i, (x, y) in enumerate(zip(a, b)) if x != y), min(len(a), len(b))) if isinstance(a, list) else 0
                mism.append(dict(what='%s differ (first difference at index %s; lengths %s/%s)' % (
                    key, first, len(a) if isinstance(a, list) else '-', len(b) if isinstance(b, list) else '-'),
                    impl=a[max(0, first - 1):first + 3] if isinstance(a, list) else a,
                    model=b[max(0, first - 1):first + 3] if isinstance(b, list) else b))
    return mism


# ---------------------------------------------------------------------------------------------
# oracles (independent calendar from datetime.date)

def in_quantifier(case):
    return case['start'] <= case['end'] and case['start'] % 86400 <= case['end'] % 86400


def dates_in(case):
    return range(case['start'] // 86400, case['end'] // 86400 + 1)


def oracle_c12(case, real):
    out = []
    if case['kind'] != 'sim':
        return out
    if case['end'] < case['start']:
        if real['out'] != 'ValueError':
            out.append(dict(what='end earlier than start accepted', key='end-before-start'))
        return out
    if real['out'] != 'ok':
        return [dict(what='valid range refused: %s' % real['out'], key='valid-refused')]
    if not in_quantifier(case):
        return out
    exp = []
    for d in dates_in(case):
        if date_of(d).weekday() <= 4:
            if case['pre']:
                exp.append([d * 86400, 'pre_market'])
            exp += [[d * 86400 + OPEN, 'market_open'], [d * 86400 + CLOSE, 'market_close']]
            if case['post']:
                exp.append([d * 86400 + 86340, 'post_market'])
    if real['events'] != exp:
        got_days = sorted(set(t // 86400 for t, k in real['events']))
        exp_days = sorted(set(t // 86400 for t, k in exp))
        out.append(dict(what='clock events differ from the Mon-Fri template: days only in clock %r, missing %r' % (
            [str(date_of(d)) for d in got_days if d not in exp_days][:5], [str(date_of(d)) for d in exp_days if d not in got_days][:5]),
            key='events'))
    if real.get('events_again') is not None and real['events_again'] != real['events']:
        out.append(dict(what='a second walk over the same engine gives %d events, the first gave %d' % (len(real['events_again']), len(real['events'])),
                        key='second-iteration'))
    tms = [t for t, k in real['events']]
    if any(a >= b for a, b in zip(tms, tms[1:])):
        out.append(dict(what='clock not strictly increasing', key='not-increasing'))
    return out


def oracle_c13(case, real):
    out = []
    k = case['kind']
    if k == 'bh':
        d, tod = case['start'] // 86400, case['start'] % 86400
        while date_of(d).weekday() > 4:
            d += 1
        if real.get('times') != [d * 86400 + tod]:
            out.append(dict(what='buy-and-hold instant %r, expected %r' % (real.get('times'), [d * 86400 + tod]), key='buy-and-hold'))
        return out
    if k not in ('weekly', 'daily', 'eom'):
        return out
    if k == 'weekly' and case['wd'].upper() not in WDS:
        if real['out'] != 'ValueError':
            out.append(dict(what='unknown weekday %r accepted' % case['wd'], key='weekday-accepted'))
        return out
    if real['out'] != 'ok':
        return [dict(what='valid schedule refused: %s' % real['out'], key='valid-refused')]
    if not in_quantifier(case):
        return out
    stamp = OPEN if case['pre'] else CLOSE
    days = [d for d in dates_in(case) if date_of(d).weekday() <= 4]
    if k == 'weekly':
        want = [d for d in days if date_of(d).weekday() == WDS.index(case['wd'].upper())]
    elif k == 'daily':
        want = days
    else:
        want = []
        for d in days:
            nb = d + 1
            while date_of(nb).weekday() > 4:
                nb += 1
            if date_of(nb).month != date_of(d).month:
                want.append(d)
    exp = [d * 86400 + stamp for d in want]
    if real['times'] != exp:
        out.append(dict(what='%s schedule: unexpected %r, missing %r' % (
            k, [str(ts(t)) for t in real['times'] if t not in exp][:4], [str(ts(t)) for t in exp if t not in real['times']][:4]),
            key='schedule'))
    if any(a >= b for a, b in zip(real['times'], real['times'][1:])):
        out.append(dict(what='schedule not strictly increasing', key='not-increasing'))
    if real.get('not_utc') or real.get('clock_not_utc'):
        out.append(dict(what='instants not stamped in UTC: schedule %r, clock %r' % (real.get('not_utc'), real.get('clock_not_utc')),
                        key='not-stamped-utc'))
    if not case['pre'] and 'clock' in real:
        clock = set(real['clock'])
        miss = [t for t in real['times'] if t not in clock]
        if miss:
            out.append(dict(what='scheduled instants %r coincide with no clock event' % [str(ts(t)) for t in miss[:4]], key='meets-clock'))
    return out


def oracle_c04(case, real):
    if case['kind'] != 'isopen':
        return []
    t = case['t']
    want = date_of(t // 86400).weekday() <= 4 and OPEN <= t % 86400 < CLOSE
    if real.get('open') != want:
        return [dict(what='is_open_at_datetime(%s) = %r' % (ts(t), real.get('open')), key='exchange-hours')]
    return []


ORACLES = dict(C12=oracle_c12, C13=oracle_c13, C04=oracle_c04)


def nontrivial(case, real):
    if case['kind'] == 'isopen':
        return True
    return real.get('out') == 'ok' and bool(real.get('events') or real.get('times'))


def run(prop, tier, seed, n_cases, corpus=()):
    rng = rng_for(seed, 'K1' + prop, tier)
    cases = list(corpus) + [gen_case(rng, prop) for _ in range(n_cases)]
    if prop in ('C12', 'C13'):
        # the calendar table, exhaustively 1678-01-01 .. 2199-12-31 (190 656 days; pandas starts at 1677-09-21)
        for lo in range(-106650, 84006, 4200):
            cases.append(dict(kind='civil', lo=lo, n=min(4200, 84006 - lo)))
    reals = [execute(c) for c in cases]
    outs = run_driver_json('k1', 'float', [model_line(c) for c in cases])
    tally, stats, hist = Tally(), collections.Counter(), collections.Counter()
    mism, oracle = [], []
    for i, (c, r, m) in enumerate(zip(cases, reals, outs)):
        hist['kind:' + c['kind']] += 1
        if c.get('prior'):
            hist['after-sibling-schedules-over-the-same-range'] += 1
        hist['out:' + r['out']] += 1
        if 'start' in c and 'end' in c:
            hist['in-quantifier' if in_quantifier(c) else 'outside-quantifier'] += 1
            if date_of(c['start'] // 86400).weekday() > 4:
                hist['start-on-weekend'] += 1
            if c['end'] // 86400 == c['start'] // 86400:
                hist['single-day'] += 1
        if c['kind'] == 'eom' and r.get('times'):
            for t in r['times']:
                d = date_of(t // 86400)
                nxt = d + dtm.timedelta(days=1)
                if nxt.month == d.month:
                    hist['eom:month-end-on-weekend'] += 1
                    break
        if c['kind'] == 'civil':
            stats['calendar_days_checked'] += c['n']
        if c['kind'] == 'eom' and c['start'] < -135140 * 86400:
            # the model counts months from January 1600 (its theorems carry `M0 <= dayOf start`); pandas cannot represent
            # an instant before 1677-09-21, so this never happens
            hist['eom:before-1600 (oracle only)'] += 1
        else:
            for x in compare(c, r, m, tally):
                x['case_index'] = i
                mism.append(x)
        for f in ORACLES[prop](c, r):
            f['case_index'] = i
            oracle.append(f)
    stats['cases'] = len(cases)
    stats['corpus_cases'] = len(corpus)
    return dict(cases=cases, reals=reals, mismatches=mism, oracle=oracle, stats=stats, tally=tally, hist=hist)
