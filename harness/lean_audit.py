"""Discharge the Lean proof obligations registered for a property (lean/obligations.json).

For each registered theorem: the module must build, `#print axioms` must list at most propext, Classical.choice,
Quot.sound, and the sources must be free of sorry/admit/axiom/native_decide/bv_decide/implemented_by/unsafe.
"""
import fcntl
import json
import os
import re
import subprocess
import tempfile

from common import LEAN_DIR, Infra

ALLOWED_AXIOMS = {'propext', 'Classical.choice', 'Quot.sound'}
FORBIDDEN = re.compile(r'\b(sorry|admit|native_decide|bv_decide|implemented_by)\b|^\s*axiom\s|\bunsafe\s|maxHeartbeats\s+0\b')

TRUSTED = [
    "Lean 4.33.0 kernel (thorough tier: re-checked by leanchecker)",
    "axioms: propext, Classical.choice, Quot.sound only (audited per theorem with #print axioms); no native_decide/bv_decide/sorry",
    "Mathlib v4.33.0 single modules imported by the proof files",
    "the hand-written Lean model of the anchored code (QsModel/*.lean), tied to /repo by the differential correspondence of this run",
    "harness/translate.py (Python AST -> Lean by symbolic execution) for the functions under the structural tie; its reading of Python "
    "arithmetic on the field carrier (ints and floats as field elements, decimal literals as written)",
    "the Python harness: generators, canonicalisation, comparison rule (DESIGN.md 3.3), the compiled qsdriver",
    "pandas/NumPy/CPython behaviour is modelled, not verified (DESIGN.md 9)",
]


def _lock():
    os.makedirs(os.path.join(LEAN_DIR, '.lake'), exist_ok=True)
    f = open(os.path.join(LEAN_DIR, '.lake', 'verif-build.lock'), 'w')
    fcntl.flock(f, fcntl.LOCK_EX)
    return f


def strip_comments(src):
    """remove /- … -/ (nested) and -- comments"""
    out = []
    i, depth, n = 0, 0, len(src)
    while i < n:
        if src.startswith('/-', i):
            depth += 1
            i += 2
        elif depth and src.startswith('-/', i):
            depth -= 1
            i += 2
        elif depth:
            if src[i] == '\n':
                out.append('\n')
            i += 1
        elif src.startswith('--', i):
            while i < n and src[i] != '\n':
                i += 1
        else:
            out.append(src[i])
            i += 1
    return ''.join(out)


def grep_forbidden():
    hits = []
    for sub in ('QsModel', 'QsProofs', 'QsGen'):
        for root, _, files in os.walk(os.path.join(LEAN_DIR, sub)):
            for fn in files:
                if not fn.endswith('.lean'):
                    continue
                p = os.path.join(root, fn)
                body = strip_comments(open(p).read())
                # string literals may legitimately contain words; drop them
                body = re.sub(r'"(\\.|[^"\\])*"', '""', body)
                for ln, line in enumerate(body.split('\n'), 1):
                    if sub == 'QsModel' and re.search(r'\bpartial\s+def\b', line):
                        continue   # driver loops only; never referenced by a theorem
                    if FORBIDDEN.search(line):
                        hits.append('%s:%d: %s' % (os.path.relpath(p, LEAN_DIR), ln, line.strip()[:120]))
    return hits


def audit(prop, tier):
    reg = json.load(open(os.path.join(LEAN_DIR, 'obligations.json')))
    ent = reg.get(prop)
    res = dict(obligations=0, discharged=0, ok=False, failed=[], theorems=[], axioms={}, assumptions=[],
               checker_cmd='', trusted_base=TRUSTED, log='')
    if not ent or not ent.get('theorems'):
        res['failed'] = ['no theorem registered for %s' % prop]
        res['obligations'] = 1
        return res
    modules = list(ent.get('modules') or [ent['module']])
    thms = list(ent['theorems'])
    lock = _lock()
    try:
        # structural tie: translate the kernels from /repo's working tree and check `Gen.f = Qs.f`
        import tie
        ties, tie_log = tie.run_ties(prop)
        pt = tie.for_property(prop, ties)
    except Infra:
        lock.close()
        raise
    res['structural_tie'] = dict(proved=[x['key'] for x in pt['proved']], failed=[x['key'] for x in pt['failed']],
                                 not_applicable=[dict(key=x['key'], reason=x.get('reason')) for x in pt['untranslatable']])
    for x in pt['proved']:
        thms.append(x['theorem'])
    thms += pt.get('lifted', []) + pt.get('source', [])
    res['structural_tie']['source_level_corollaries'] = pt.get('lifted', [])
    res['structural_tie']['source_level_theorems'] = pt.get('source', [])
    if pt.get('lifted_skipped'):
        res['structural_tie']['source_level_corollaries_not_checked_because'] = pt['lifted_skipped']
    for m_ in pt['modules']:
        if m_ not in modules:
            modules.append(m_)
    module = ' '.join(modules)
    res['obligations'] = len(thms) + len(pt['failed'])
    res['theorems'] = thms
    for x in pt['failed']:
        res['failed'].append('structural tie %s: `%s` as translated from %s no longer equals the model (theorem %s does not check)' % (
            x['key'], x['python'], x['file'], x['theorem']))
    if pt['untranslatable']:
        res['assumptions'].append('structural tie not applicable to the current form of: %s (outside the translator\'s subset); '
                                  'these functions are tied by the correspondence check only' % ', '.join(sorted(set(
                                      '%s (%s)' % (x.get('python') or x['key'], x.get('reason')) for x in pt['untranslatable']))))
    res['checker_cmd'] = 'cd lean && lake build %s && lake env lean <audit file with #print axioms for each theorem>' % module
    if ent.get('partial'):
        res['assumptions'].append('partial theorems: %s' % json.dumps(ent['partial']))
    try:
        try:
            b = subprocess.run(['lake', 'build'] + modules + ['qsdriver'], cwd=LEAN_DIR, capture_output=True, text=True, timeout=1500)
        except subprocess.TimeoutExpired:
            raise Infra('lake build timed out')
        if b.returncode != 0:
            res['log'] = (b.stdout + b.stderr)[-4000:]
            res['failed'] = ['module %s does not build' % module]
            return res
        with tempfile.NamedTemporaryFile('w', suffix='.lean', delete=False, dir=os.path.join(LEAN_DIR, '.lake')) as f:
            for m_ in modules:
                f.write('import %s\n' % m_)
            for t in thms:
                f.write('#print axioms %s\n' % t)
            tmp = f.name
        try:
            a = subprocess.run(['lake', 'env', 'lean', tmp], cwd=LEAN_DIR, capture_output=True, text=True, timeout=900)
        except subprocess.TimeoutExpired:
            raise Infra('axiom audit timed out')
        finally:
            try:
                os.unlink(tmp)
            except OSError:
                pass
        out = a.stdout + a.stderr
        res['log'] = out[-4000:]
        flat = re.sub(r'\s+', ' ', out)
        for t in thms:
            m = re.search(r"'%s' depends on axioms: \[([^\]]*)\]" % re.escape(t), flat)
            if m:
                axs = [x.strip() for x in m.group(1).split(',') if x.strip()]
            elif re.search(r"'%s' does not depend on any axioms" % re.escape(t), flat):
                axs = []
            else:
                res['failed'].append('%s: not found / does not check' % t)
                continue
            res['axioms'][t] = axs
            bad = [x for x in axs if x not in ALLOWED_AXIOMS]
            if bad:
                res['failed'].append('%s: depends on %s' % (t, bad))
            else:
                res['discharged'] += 1
        hits = grep_forbidden()
        if hits:
            res['failed'].append('forbidden constructs: %s' % hits[:5])
            res['discharged'] = 0
        if tier == 'thorough' and not res['failed']:
            try:
                c = subprocess.run(['lake', 'env', 'leanchecker'] + modules, cwd=LEAN_DIR, capture_output=True, text=True, timeout=1500)
            except subprocess.TimeoutExpired:
                raise Infra('leanchecker timed out')
            res['checker_cmd'] += ' && lake env leanchecker %s' % module
            res['leanchecker_rc'] = c.returncode
            if c.returncode != 0:
                res['failed'].append('leanchecker rejected %s: %s' % (module, (c.stdout + c.stderr)[-500:]))
                res['discharged'] = 0
    finally:
        lock.close()
    res['ok'] = not res['failed'] and res['discharged'] == res['obligations']
    return res
