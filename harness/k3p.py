"""K3P harness: a standalone `Position` object driven directly (no handler), including sequences whose running net
quantity reaches exactly zero and continues (C03; also exercises C02's price rule at the Position level).

Case: {"kind": "position", "asset": "AAA", "ops": [["fill", qty, t, price, commission] | ["mark", price, t], ...]}  (first op is a fill)
"""
import collections
import warnings
from fractions import Fraction as F

warnings.filterwarnings('ignore')
import numpy as np

from common import f2b, b2f, cont_match, ts, run_driver_json, Tally, rng_for, scale_of, hv

from qstrader.broker.portfolio.position import Position
from qstrader.broker.transaction.transaction import Transaction

T0 = 1546871400
FIELDS = (('net', 'net_quantity'), ('mv', 'market_value'), ('avgPrice', 'avg_price'), ('realised', 'realised_pnl'),
          ('unrealised', 'unrealised_pnl'), ('total', 'total_pnl'), ('buyQ', 'buy_quantity'), ('sellQ', 'sell_quantity'),
          ('avgB', 'avg_bought'), ('avgS', 'avg_sold'), ('comB', 'buy_commission'), ('comS', 'sell_commission'), ('price', 'current_price'))


def gen_case(rng):
    n = rng.choice([1, 2, 3, 4, 6, 10, 25, 60])
    ops = []
    t = T0
    net = 0
    for i in range(n):
        if i > 0 and rng.random() < 0.25:
            t += rng.choice([0, 0, 1, 60, 86400])
            ops.append(['mark', rng.choice([round(rng.uniform(1, 300), 2), rng.uniform(1, 300)]), t])
            continue
        r = rng.random()
        if abs(net) >= 10 ** 5 and r < 0.5:
            q = -net + rng.choice([1, 2, 3, -1, -2])          # a large holding cut to a residual of a few shares
        elif net != 0 and r < 0.3:
            q = -net                                          # to exactly flat
        elif net != 0 and r < 0.45:
            q = -net - (1 if net > 0 else -1) * rng.choice([1, 5, 40])      # flip through zero
        else:
            q = hv(rng, rng.choice([1, -1]) * rng.choice([1, 2, 10, 50, 100, 1000]), 'int', 0.2)
            if rng.random() < 0.06:
                q = rng.choice([1, -1]) * rng.choice([10 ** 5, 250000, 10 ** 6, 10 ** 7])
        t += rng.choice([0, 0, 1, 60, 3600, 86400])
        price = hv(rng, rng.choice([round(rng.uniform(1, 300), 2), rng.uniform(1, 300), float(rng.randint(1, 200))]), 'pos')
        if i > 0 and rng.random() < 0.15:
            # a price a hair away from (or exactly at) the previous fill's price
            last = [o for o in ops if o[0] == 'fill']
            if last:
                price = last[-1][3] * (1.0 + rng.choice([0.0, 1e-6, -1e-6, 5e-6, -5e-6, 2e-5, -9e-6]))
        comm = hv(rng, rng.choice([0.0, 1.0, rng.uniform(0, 20)]), 'pos')
        if i > 0 and rng.random() < 0.04:
            price = rng.choice([0.0, -2.0])                   # refused
        if i > 0 and rng.random() < 0.03:
            ops.append(['fill', q, t - 500000, price, comm])  # refused: earlier than the position's clock
            continue
        ops.append(['fill', q, t, price, comm])
        if price > 0:
            net += q
    return dict(kind='position', asset='AAA', ops=ops)


def snap(p):
    return {k: float(getattr(p, attr)) for k, attr in FIELDS}


def execute(case):
    res = []
    pos = None
    for op in case['ops']:
        try:
            if op[0] == 'fill':
                txn = Transaction(case['asset'], op[1], ts(op[2]), np.float64(op[3]), 'x', commission=op[4])
                if pos is None:
                    pos = Position.open_from_transaction(txn)
                else:
                    pos.transact(txn)
            else:
                pos.update_current_price(np.float64(op[1]), ts(op[2]))
            out = 'ok'
        except ValueError:
            out = 'ValueError'
        res.append(dict(out=out, pos=snap(pos) if pos is not None else None))
    return dict(results=res)


def model_lines(case):
    lines = []
    first = True
    for op in case['ops']:
        if op[0] == 'fill':
            lines.append('%s %s %d %d %d %d' % ('popen' if first else 'ptxn', case['asset'], op[1], op[2], f2b(op[3]), f2b(op[4])))
            first = False
        else:
            lines.append('pmark %d %d' % (f2b(op[1]), op[2]))
    return lines


def compare(case, real, mf, mr, tally):
    mism = []
    for j, (op, r, f, rr) in enumerate(zip(case['ops'], real['results'], mf, mr)):
        tally.discrete += 1
        if r['out'] != f.get('out'):
            mism.append(dict(what='op %d %r accepted/refused' % (j, op), impl=r['out'], model=f.get('out')))
            break
        sc = scale_of(*[abs(v) for v in r['pos'].values()])
        for k, _ in FIELDS:
            if not cont_match(r['pos'][k], f['pos'][k], rr['pos'][k], sc, tally):
                mism.append(dict(what='op %d %r: position.%s' % (j, op, k), impl=r['pos'][k], model=b2f(f['pos'][k])))
        if mism:
            break
    return mism


def oracle_c03(case, real):
    out = []
    fills = []
    last_px = None
    prev = None
    for j, (op, r) in enumerate(zip(case['ops'], real['results'])):
        p = r['pos']
        if r['out'] == 'ok':
            if op[0] == 'fill':
                if op[1] != 0:
                    fills.append((op[1], F(op[3]), F(op[4])))
                    last_px = F(op[3])
            else:
                last_px = F(op[1])
        elif prev is not None:
            # a refused request leaves quantities and realised P&L as they were
            if any(p[k] != prev[k] for k in ('net', 'buyQ', 'sellQ', 'realised')):
                out.append(dict(what='refused op %d %r changed the position: %r -> %r' % (j, op, prev, p), key='refused-changed'))
        if not fills or last_px is None:
            prev = p
            continue
        net = sum(q for q, _, _ in fills)
        gross = sum(abs(pp * q) for q, pp, c in fills) + sum(c for q, pp, c in fills) + abs(last_px * net)
        tol = gross / 10 ** 9 + F(1, 10 ** 9)
        tot, rea, unr = F(p['total']), F(p['realised']), F(p['unrealised'])
        if F(p['net']) != net:
            out.append(dict(what='op %d: net quantity %r, signed sum of fills %d' % (j, p['net'], net), key='net'))
        if abs(tot - (rea + unr)) > tol:
            out.append(dict(what='op %d: total %r != realised %r + unrealised %r' % (j, p['total'], p['realised'], p['unrealised']), key='split'))
        rhs = last_px * net - sum(pp * q for q, pp, c in fills) - sum(c for q, pp, c in fills)
        if abs(tot - rhs) > tol:
            out.append(dict(what='op %d: total P&L %r != market value - sum(price*qty) - commissions = %s after fills %s' % (
                j, p['total'], float(rhs), [(q, float(pp), float(c)) for q, pp, c in fills][-6:]), key='reconcile'))
        if net != 0:
            if net > 0:
                side = [(q, pp, c) for q, pp, c in fills if q > 0]
                avg = (sum(pp * q for q, pp, c in side) + sum(c for q, pp, c in side)) / sum(q for q, pp, c in side)
            else:
                side = [(-q, pp, c) for q, pp, c in fills if q < 0]
                avg = (sum(pp * q for q, pp, c in side) - sum(c for q, pp, c in side)) / sum(q for q, pp, c in side)
            if abs(unr - (last_px - avg) * net) > tol:
                out.append(dict(what='op %d: unrealised %r != (price - average cost) x net = %s' % (j, p['unrealised'], float((last_px - avg) * net)),
                                key='unrealised'))
        if op[0] == 'mark' and prev is not None and r['out'] == 'ok':
            if p['realised'] != prev['realised'] or p['net'] != prev['net']:
                out.append(dict(what='op %d: a re-mark changed realised P&L or quantity' % j, key='remark'))
        prev = p
        if out:
            break
    return out


def nontrivial(case, real):
    return sum(1 for op in case['ops'] if op[0] == 'fill') >= 3


def run(prop, tier, seed, n_cases, corpus=()):
    rng = rng_for(seed, 'K3P', tier)
    cases = list(corpus) + [gen_case(rng) for _ in range(n_cases)]
    reals = [execute(c) for c in cases]
    lines, spans = [], []
    for c in cases:
        ls_ = model_lines(c)
        spans.append((len(lines), len(ls_)))
        lines += ls_
    outs_f = run_driver_json('k3', 'float', lines)
    outs_r = run_driver_json('k3', 'rat', lines)
    tally, stats, hist = Tally(), collections.Counter(), collections.Counter()
    mism, oracle = [], []
    for i, (c, r) in enumerate(zip(cases, reals)):
        off, n = spans[i]
        stats['ops'] += n
        net = 0
        for op, x in zip(c['ops'], r['results']):
            if op[0] == 'fill' and x['out'] == 'ok':
                before = net
                net += op[1]
                if before != 0 and net == 0:
                    hist['went-flat'] += 1
                if before == 0 and len(hist) and op is not c['ops'][0]:
                    hist['continued-after-flat'] += 1
                if before * net < 0:
                    hist['flipped-through-zero'] += 1
            if x['out'] != 'ok':
                hist['refused'] += 1
        for x in compare(c, r, outs_f[off:off + n], outs_r[off:off + n], tally):
            x['case_index'] = i
            mism.append(x)
        for f in oracle_c03(c, r):
            f['case_index'] = i
            oracle.append(f)
    stats['cases'] = len(cases)
    stats['corpus_cases'] = len(corpus)
    return dict(cases=cases, reals=reals, mismatches=mism, oracle=oracle, stats=stats, tally=tally, hist=hist)
