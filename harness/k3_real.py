"""K3: op-sequence generator and executor against the real SimulatedBroker / Portfolio / Position.

A *case* is JSON: {"start": sec, "funds": float, "fee": ["Z"] | ["P", c, tau], "np_quotes": bool, "ops": [op, ...]}
An *op* is a list: ["subA", a] ["wdA", a] ["create", pid] ["subP", pid, a] ["wdP", pid, a]
  ["submit", pid, asset, qty] ["px", asset, bid, ask] ["unpx", asset] ["update", t]
  ["pfsub", pid, t, a] ["pfwd", pid, t, a] ["pfmark", pid, asset, price, t] ["pftxn", pid, asset, qty, t, price, comm]
  ["q", what, arg]   (getter; what in pfcash pfmv pfeq pfdict cash)
Executing a case yields a *trace*: per op the outcome, the tapped interface values and the state snapshot.
"""
import math
import warnings

warnings.filterwarnings('ignore')
import numpy as np

import common
from common import secs, ts, f2b

from qstrader import settings
settings.set_print_events(False)
from qstrader.broker.simulated_broker import SimulatedBroker
from qstrader.broker.fee_model.percent_fee_model import PercentFeeModel
from qstrader.broker.fee_model.zero_fee_model import ZeroFeeModel
from qstrader.broker.transaction.transaction import Transaction
from qstrader.exchange.simulated_exchange import SimulatedExchange
from qstrader.execution.order import Order

import logging
logging.disable(logging.CRITICAL)

MON = 1546819200  # Monday 2019-01-07 00:00:00 UTC
ASSETS = ['AAA', 'BBB', 'CCC', 'DDD']
PIDS = ['1', '2', '3']


class ScriptedHandler(object):
    """Quote table standing in for the data handler (bid != ask)."""

    def __init__(self, use_np=True):
        self.p = {}
        self.use_np = use_np
        self.reads = []

    def set(self, asset, bid, ask):
        if self.use_np:
            self.p[asset] = (np.float64(bid), np.float64(ask))
        else:
            self.p[asset] = (float(bid), float(ask))

    def unset(self, asset):
        self.p.pop(asset, None)

    def get_asset_latest_bid_ask_price(self, dt, asset):
        r = self.p.get(asset, (np.nan, np.nan))
        self.reads.append((secs(dt), asset))
        return r

    def get_asset_latest_bid_price(self, dt, asset):
        return self.get_asset_latest_bid_ask_price(dt, asset)[0]

    def get_asset_latest_ask_price(self, dt, asset):
        return self.get_asset_latest_bid_ask_price(dt, asset)[1]

    def get_asset_latest_mid_price(self, dt, asset):
        b = self.get_asset_latest_bid_ask_price(dt, asset)
        return (b[0] + b[1]) / 2.0

    def table(self):
        return {a: (float(v[0]), float(v[1])) for a, v in self.p.items()}


def _num(x):
    return float(x)


def parse_event(ev):
    """PortfolioEvent -> dict (description parsed rather than string-compared)."""
    d = dict(time=secs(ev.dt), kind=ev.type, debit=_num(ev.debit), credit=_num(ev.credit), balance=_num(ev.balance),
             long=True, qty=0, asset='')
    if ev.type == 'asset_transaction':
        parts = ev.description.split()
        d['long'] = parts[0] == 'LONG'
        d['qty'] = int(float(parts[1]))
        d['asset'] = parts[2]
        d['desc_price'] = parts[3]
    return d


def snap_position(pos):
    d = dict(asset=pos.asset, price=_num(pos.current_price), clock=secs(pos.current_dt),
             buyQ=_num(pos.buy_quantity), sellQ=_num(pos.sell_quantity), avgB=_num(pos.avg_bought),
             avgS=_num(pos.avg_sold), comB=_num(pos.buy_commission), comS=_num(pos.sell_commission))
    return d


def snapshot(b, hist_prev):
    """State of the real broker. `hist_prev`: pid -> history length at the previous snapshot."""
    s = dict(clock=secs(b.current_dt), master=_num(b.cash_balances.get(b.base_currency, float('nan'))), pfs=[])
    for pid, p in b.portfolios.items():
        d = dict(id=pid, clock=secs(p.current_dt), cash=_num(p.cash),
                 positions=[snap_position(pos) for pos in p.pos_handler.positions.values()],
                 hist_len=len(p.history),
                 hist_new=[parse_event(e) for e in p.history[hist_prev.get(pid, 0):]],
                 queue=[(o.order_id, o.asset, int(o.quantity)) for o in common.queued_orders(b.open_orders[pid])])
        # the exported event trail (history_to_df) has one row per event of the history
        try:
            d['hist_df_len'] = int(len(p.history_to_df()))
        except Exception as e:
            d['hist_df_len'] = {'error': type(e).__name__}
        # API-level observations
        try:
            api = b.get_portfolio_as_dict(pid)
            d['api'] = {a: {k: _num(v) for k, v in row.items()} for a, row in api.items()}
            d['api_order'] = list(api.keys())
            # the report belongs to the caller, who may edit it (the portfolio construction model does)
            for a in list(api):
                api[a]['quantity'] = 0
            api['__caller_scratch__'] = {'quantity': 0}
        except Exception as e:
            d['api'] = {'error': type(e).__name__}
            d['api_order'] = []
        for key, fn in (('cash_api', b.get_portfolio_cash_balance), ('tmv', b.get_portfolio_total_market_value),
                        ('equity', b.get_portfolio_total_equity)):
            try:
                d[key] = _num(fn(pid))
            except Exception as e:
                d[key] = {'error': type(e).__name__}
        for key, attr in (('unrealised', 'total_unrealised_pnl'), ('realised', 'total_realised_pnl'), ('pnl', 'total_pnl')):
            try:
                d[key] = _num(getattr(p, attr))
            except Exception as e:
                d[key] = {'error': type(e).__name__}
        s['pfs'].append(d)
    for key, fn in (('acct_eq', b.get_account_total_equity), ('acct_mv', b.get_account_total_market_value)):
        try:
            r = fn()
            s[key] = {k: _num(v) for k, v in r.items()}
        except Exception as e:
            s[key] = {'error': type(e).__name__}
    try:
        s['cash_api'] = _num(b.get_account_cash_balance(b.base_currency))
    except Exception as e:
        s['cash_api'] = {'error': type(e).__name__}
    return s


def hist_lens(b):
    return {pid: len(p.history) for pid, p in b.portfolios.items()}


class Taps(object):
    def __init__(self):
        self.txns = []
        self.marks = []

    def install(self, pid, p):
        if getattr(p, '_qsv_tapped', False):
            return
        orig_t = p.transact_asset
        orig_m = p.update_market_value_of_asset
        taps = self

        def transact_asset(txn):
            rec = dict(pid=pid, asset=txn.asset, qty=int(txn.quantity), time=secs(txn.dt), price=_num(txn.price),
                       commission=_num(txn.commission), id=txn.order_id, ok=False)
            taps.txns.append(rec)
            r = orig_t(txn)
            rec['ok'] = True
            return r

        def update_market_value_of_asset(asset, price, dt):
            held = asset in p.pos_handler.positions
            rec = dict(pid=pid, asset=asset, price=_num(price), time=secs(dt), held=held, ok=False)
            taps.marks.append(rec)
            r = orig_m(asset, price, dt)
            rec['ok'] = True
            return r

        p.transact_asset = transact_asset
        p.update_market_value_of_asset = update_market_value_of_asset
        p._qsv_tapped = True


def make_fee(fee):
    if fee[0] == 'Z':
        return ZeroFeeModel()
    fm = PercentFeeModel(commission_pct=fee[1], tax_pct=fee[2])
    # other fee-model objects exist in the process (another broker's, a parameter sweep's): each charges its own rates
    PercentFeeModel(commission_pct=0.5, tax_pct=0.25)
    return fm


def execute(case):
    """Run a case on the real code; returns the trace."""
    dh = ScriptedHandler(case.get('np_quotes', True))
    trace = dict(case=case, steps=[], supported=[str(c) for c in settings.SUPPORTED['CURRENCIES']])
    try:
        b = SimulatedBroker(ts(case['start']), SimulatedExchange(ts(case['start'])), dh, base_currency=case.get('cur', 'USD'),
                            initial_funds=case['funds'], fee_model=make_fee(case['fee']))
    except Exception as e:
        trace['new_out'] = type(e).__name__
        return trace
    trace['new_out'] = 'ok'
    taps = Taps()
    prev = hist_lens(b)
    trace['init'] = snapshot(b, prev)
    next_id = [1]
    for op_i, op in enumerate(case['ops']):
        kind = op[0]
        # with `tzmix`, some of the instants handed to the code are expressed in another time zone (same instants)
        zone = common.ZONES[(op_i * 7 + len(case['ops'])) % len(common.ZONES)] if case.get('tzmix') and op_i % 2 == 0 else None

        def tz_ts(sec, _z=zone):
            return common.ts_in(sec, _z)
        pre_quotes = dh.table()
        n_t, n_m = len(taps.txns), len(taps.marks)
        out = 'ok'
        value = None
        order_id = None
        try:
            if kind == 'subA':
                b.subscribe_funds_to_account(op[1])
            elif kind == 'wdA':
                b.withdraw_funds_from_account(op[1])
            elif kind == 'create':
                b.create_portfolio(op[1])
            elif kind == 'subP':
                b.subscribe_funds_to_portfolio(op[1], op[2])
            elif kind == 'wdP':
                b.withdraw_funds_from_portfolio(op[1], op[2])
            elif kind == 'submit':
                order_id = next_id[0]
                next_id[0] += 1
                if len(op) > 4 and op[4] is not None and op[4] < order_id:
                    order_id = op[4]              # an identifier the caller has used before (documented `order_id=` option)
                kw = dict(commission=op[5]) if len(op) > 5 and op[5] is not None else {}
                if case.get('auto_ids'):
                    b.submit_order(op[1], Order(b.current_dt, op[2], op[3], **kw))      # the broker's own (random) order identifiers
                else:
                    b.submit_order(op[1], Order(b.current_dt, op[2], op[3], order_id=order_id, **kw))
            elif kind == 'px':
                dh.set(op[1], op[2], op[3])
            elif kind == 'unpx':
                dh.unset(op[1])
            elif kind == 'update':
                b.update(tz_ts(op[1]))
            elif kind == 'pfsub':
                b.portfolios[op[1]].subscribe_funds(tz_ts(op[2]), op[3])
            elif kind == 'pfwd':
                b.portfolios[op[1]].withdraw_funds(tz_ts(op[2]), op[3])
            elif kind == 'pfmark':
                b.portfolios[op[1]].update_market_value_of_asset(op[2], np.float64(op[3]), tz_ts(op[4]))
            elif kind == 'pftxn':
                b.portfolios[op[1]].transact_asset(
                    Transaction(op[2], op[3], tz_ts(op[4]), np.float64(op[5]), 'direct', commission=op[6]))
            elif kind == 'q':
                what, arg = op[1], op[2]
                if what == 'pfcash':
                    value = _num(b.get_portfolio_cash_balance(arg))
                elif what == 'pfmv':
                    value = _num(b.get_portfolio_total_market_value(arg))
                elif what == 'pfeq':
                    value = _num(b.get_portfolio_total_equity(arg))
                elif what == 'pfdict':
                    b.get_portfolio_as_dict(arg)
                elif what == 'cash':
                    value = _num(b.get_account_cash_balance(arg))
            else:
                raise AssertionError('unknown op %r' % (op,))
        except (ValueError, KeyError, AttributeError, TypeError, ZeroDivisionError) as e:
            out = type(e).__name__
        for pid, p in b.portfolios.items():
            taps.install(pid, p)
        post = snapshot(b, prev)
        prev = hist_lens(b)
        trace['steps'].append(dict(op=op, out=out, value=value, quotes=pre_quotes, order_id=order_id,
                                   txns=taps.txns[n_t:], marks=taps.marks[n_m:], post=post))
    return trace
