"""Shared infrastructure for the qstrader verification harnesses.

Run with /venv/bin/python (the interpreter that has /repo installed in editable mode).
"""
import hashlib
import json
import math
import os
import random
import struct
import subprocess
import sys
import time
from fractions import Fraction

VERIF = os.path.dirname(os.path.dirname(os.path.abspath(__file__)))
LEAN_DIR = os.path.join(VERIF, 'lean')
DRIVER = os.path.join(LEAN_DIR, '.lake', 'build', 'bin', 'qsdriver')
REPO = os.environ.get('QSTRADER_REPO', '/repo')

os.environ.setdefault('PYTHONDONTWRITEBYTECODE', '1')
sys.dont_write_bytecode = True


class Infra(Exception):
    """An infrastructure failure (exit 2); never a violation."""


# ---------------------------------------------------------------------------------------------
# numbers on the wire

def f2b(x):
    """IEEE-754 bit pattern of float(x) as an int."""
    return struct.unpack('>Q', struct.pack('>d', float(x)))[0]


def b2f(n):
    return struct.unpack('>d', struct.pack('>Q', int(n)))[0]


def frac_of(x):
    """Model output -> Fraction: ints are double bit patterns (Float carrier), strings are 'n/d' (Rat carrier)."""
    if isinstance(x, str):
        n, d = x.split('/')
        return Fraction(int(n), int(d))
    v = b2f(x)
    if math.isnan(v) or math.isinf(v):
        return None
    return Fraction(v)


def is_nan(x):
    try:
        return math.isnan(float(x))
    except (TypeError, ValueError):
        return False


def exact(x):
    """Exact rational value of a Python/numpy number."""
    if isinstance(x, Fraction):
        return x
    if isinstance(x, int):
        return Fraction(x)
    return Fraction(float(x))


def ts(sec):
    import pandas as pd
    return pd.Timestamp(int(sec), unit='s', tz='UTC')


ZONES = ['America/New_York', 'Asia/Tokyo', 'Europe/London', 'Australia/Sydney', 'America/Los_Angeles', 'Asia/Kolkata']


def ts_in(sec, zone=None):
    """the same instant expressed in another time zone (equal instants compare and hash equal)"""
    t = ts(sec)
    return t.tz_convert(zone) if zone else t


def entry_ts(e, zone=None, nat=False):
    """a universe entry date: an instant (optionally expressed in another zone), or 'no date' as None / pandas NaT"""
    if e is None:
        if nat:
            import pandas as pd
            return pd.NaT
        return None
    return ts_in(e, zone)


def secs(t):
    """pandas Timestamp (UTC) -> integer seconds."""
    return int(t.value // 10 ** 9)


# ---------------------------------------------------------------------------------------------
# the Lean driver

def run_driver(harness, carrier, lines, timeout=600):
    """Pipe `lines` to `qsdriver <harness> <carrier>`; returns the list of output lines (one per input line)."""
    if not os.path.exists(DRIVER):
        raise Infra('driver not built: %s (run setup_cmd)' % DRIVER)
    data = '\n'.join(lines) + '\n'
    try:
        p = subprocess.run([DRIVER, harness, carrier], input=data, capture_output=True, text=True, timeout=timeout)
    except subprocess.TimeoutExpired:
        raise Infra('driver timeout')
    if p.returncode != 0:
        raise Infra('driver failed rc=%s: %s' % (p.returncode, p.stderr[:500]))
    out = p.stdout.split('\n')
    if out and out[-1] == '':
        out.pop()
    if len(out) != len(lines):
        raise Infra('driver returned %d lines for %d inputs; stderr=%s' % (len(out), len(lines), p.stderr[:300]))
    return out


def run_driver_json(harness, carrier, lines, timeout=600):
    return [json.loads(l) for l in run_driver(harness, carrier, lines, timeout)]


# ---------------------------------------------------------------------------------------------
# comparison rule (DESIGN §3.3)

class Tally(object):
    """Counts how continuous observations matched."""

    def __init__(self):
        self.bit_exact = 0
        self.tolerance = 0
        self.near_disc = 0
        self.discrete = 0

    def as_dict(self):
        return dict(bit_exact=self.bit_exact, tolerance_matched=self.tolerance,
                    near_discontinuity=self.near_disc, discrete=self.discrete)


def cont_match(impl, mf, mr, scale, tally, rel=1e-12, abs_=1e-12):
    """impl: implementation number; mf: Float-model bits; mr: Rat-model 'n/d' (or None).
    Returns True if they agree under the continuous rule."""
    iv = float(impl)
    if math.isnan(iv):
        ok = math.isnan(b2f(mf))
        if ok:
            tally.bit_exact += 1
        return ok
    if f2b(iv) == mf or (iv == 0.0 and b2f(mf) == 0.0):
        tally.bit_exact += 1
        return True
    tol = Fraction(rel) * abs(Fraction(scale)) + Fraction(abs_)
    for ref in (frac_of(mf), frac_of(mr) if mr is not None else None):
        if ref is not None and abs(Fraction(iv) - ref) <= tol:
            tally.tolerance += 1
            return True
    return False


def scale_of(*xs):
    m = 1.0
    for x in xs:
        try:
            v = abs(float(x))
        except (TypeError, ValueError):
            continue
        if not math.isnan(v) and not math.isinf(v):
            m = max(m, v)
    return m


# ---------------------------------------------------------------------------------------------
# evidence / replays / reporting

def seed_from_env():
    try:
        return int(os.environ.get('VERIF_SEED', '0'))
    except ValueError:
        return 0


def rng_for(seed, prop, tier, salt=''):
    h = hashlib.sha256(('%s|%s|%s|%s' % (seed, prop, tier, salt)).encode()).hexdigest()
    return random.Random(int(h[:16], 16))


def jsonable(x):
    import numpy as np
    if isinstance(x, dict):
        return {str(k): jsonable(v) for k, v in x.items()}
    if isinstance(x, (list, tuple)):
        return [jsonable(v) for v in x]
    if isinstance(x, Fraction):
        return '%d/%d' % (x.numerator, x.denominator)
    if isinstance(x, (np.integer,)):
        return int(x)
    if isinstance(x, (np.floating,)):
        x = float(x)
    if isinstance(x, float):
        if math.isnan(x) or math.isinf(x):
            return repr(x)
        return x
    if isinstance(x, (str, int, bool)) or x is None:
        return x
    return repr(x)


def write_replay(prop, payload):
    os.makedirs(os.path.join(VERIF, 'replays'), exist_ok=True)
    body = json.dumps(jsonable(payload), indent=1, sort_keys=True)
    h = hashlib.sha256(body.encode()).hexdigest()[:12]
    rel = os.path.join('replays', '%s-%s.json' % (prop, h))
    with open(os.path.join(VERIF, rel), 'w') as f:
        f.write(body)
    return rel


def write_evidence(prop, tier, seed, coverage, assumptions, wall_s, violations):
    os.makedirs(os.path.join(VERIF, 'evidence'), exist_ok=True)
    ev = dict(property_id=prop, tier=tier, seed=int(seed), level='proof', coverage=jsonable(coverage),
              assumptions=assumptions, wall_s=round(wall_s, 3), violations=int(violations))
    with open(os.path.join(VERIF, 'evidence', '%s.json' % prop), 'w') as f:
        json.dump(ev, f, indent=1, sort_keys=True)


class Finding(object):
    """One property violation (or unchecked obligation) found by a check."""

    def __init__(self, prop, what, case=None, impl=None, model=None, key=None, no_input=False):
        self.prop = prop
        self.what = what
        self.case = case
        self.impl = impl
        self.model = model
        self.key = key          # classification used to match known findings
        self.no_input = no_input


def load_known_findings():
    """known_findings.txt: lines `finding: property=Cxx key=<key> <text>` and `fixed: property=Cxx <commit> <text>`."""
    res = {'finding': [], 'fixed': []}
    p = os.path.join(VERIF, 'known_findings.txt')
    if not os.path.exists(p):
        return res
    for line in open(p):
        line = line.strip()
        if not line or line.startswith('#'):
            continue
        kind, _, rest = line.partition(':')
        kind = kind.strip()
        if kind not in res:
            continue
        fields = rest.strip().split(None, 2)
        d = {'raw': line}
        for fld in fields[:2]:
            if '=' in fld:
                k, v = fld.split('=', 1)
                d[k] = v
        d['text'] = rest.strip()
        res[kind].append(d)
    return res


# ---------------------------------------------------------------------------------------------
# constants harvested from the anchored source (a fuzzer's dictionary)
#
# Numeric literals that occur in the property's anchored files now but did not on the pinned tree
# (harness/const_baseline.json) are offered to the generators as candidate quantities, prices, amounts, weights:
# a branch that fires only at a magic value is then reached.  On the unchanged tree the list is empty and the
# generators behave exactly as before.

HARVEST = []


def _file_constants(path):
    import ast
    out = set()
    try:
        tree = ast.parse(open(path).read())
    except (OSError, SyntaxError):
        return out
    for n in ast.walk(tree):
        if isinstance(n, ast.Constant) and isinstance(n.value, (int, float)) and not isinstance(n.value, bool):
            if n.value == n.value and abs(n.value) < 1e15:
                out.add(n.value)
    return out


def anchor_files(prop):
    for l in open(os.path.join(VERIF, 'properties.jsonl')):
        p = json.loads(l)
        if p['id'] == prop:
            return list(p['anchors']['files'])
    return []


def harvest(prop, repo=None):
    """sets and returns HARVEST for this property"""
    global HARVEST
    repo = repo or REPO
    base = json.load(open(os.path.join(VERIF, 'harness', 'const_baseline.json')))
    known = set(base.get(prop, []))
    found = set()
    for f in anchor_files(prop):
        found |= _file_constants(os.path.join(repo, f))
    new = sorted((c for c in found if c not in known and -c not in known), key=lambda c: (abs(c), c))
    HARVEST = new[:40]
    return HARVEST


def hv(rng, default, kind='any', p=0.12):
    """`default`, or with probability p a harvested constant (or a neighbour of one) of the wanted kind"""
    if not HARVEST or rng.random() >= p:
        return default
    c = rng.choice(HARVEST)
    if kind == 'int':
        c = int(c) if float(c).is_integer() else int(round(c))
        c = c + rng.choice([0, 0, 0, 1, -1])
        return c * rng.choice([1, 1, -1]) if c != 0 else default
    if kind == 'posint':
        c = abs(int(c) if float(c).is_integer() else int(round(c))) + rng.choice([0, 0, 0, 1, -1])
        return c if c > 0 else default
    if kind == 'pos':
        c = abs(float(c)) * rng.choice([1.0, 1.0, 1.0, 0.5, 2.0]) + rng.choice([0.0, 0.0, 0.01, -0.01])
        return c if c > 0 else default
    return float(c) * rng.choice([1.0, 1.0, -1.0])


def queued_orders(q):
    """the Order objects waiting in a broker queue, oldest first where the queue defines an order; tolerant of the container
    (queue.Queue, PriorityQueue of tuples ending in the order, list, deque)"""
    items = list(getattr(q, 'queue', q))
    out = []
    for it in items:
        if isinstance(it, tuple):
            it = next((x for x in reversed(it) if hasattr(x, 'asset') and hasattr(x, 'quantity')), None)
        if it is not None and hasattr(it, 'asset'):
            out.append(it)
    return out


_SCRATCH_BASE = None


def scratch_dir(slot):
    """a data directory for one use: the SAME path every time a slot is asked for (emptied first) — successive datasets of one
    process live at one location, as successive runs of a user's script do; removed at exit"""
    import atexit
    import shutil
    import tempfile
    global _SCRATCH_BASE
    if _SCRATCH_BASE is None:
        _SCRATCH_BASE = tempfile.mkdtemp(prefix='qsv_data_')
        atexit.register(shutil.rmtree, _SCRATCH_BASE, True)
    d = os.path.join(_SCRATCH_BASE, slot)
    shutil.rmtree(d, ignore_errors=True)
    os.makedirs(d)
    return d
