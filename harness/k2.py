"""K2 harness: CSVDailyBarDataSource / BacktestDataHandler vs the market-data model (C06; shared by C07, C18).

Case: {"adjust": bool, "files": {SYM: [[iso_date, open|null, close|null, adj|null], ...]  (file order)},
       "files2": {...} | null   (a second, lower-priority source), "cut_day": int, "queries": [[t, "EQ:SYM"], ...]}
"""
import collections
import datetime as dtm
import math
import os
import zlib
import shutil
import tempfile
import warnings

warnings.filterwarnings('ignore')
import numpy as np
import pandas as pd

import common
from common import f2b, b2f, ts, secs, run_driver_json, Tally, rng_for

from qstrader import settings
settings.set_print_events(False)
from qstrader.data.backtest_data_handler import BacktestDataHandler
from qstrader.data.daily_bar_csv import CSVDailyBarDataSource

EPOCH = dtm.date(1970, 1, 1)
OPEN, CLOSE = 52200, 75600


def write_csvs(files, d):
    for sym, rows in files.items():
        with open(os.path.join(d, sym + '.csv'), 'w') as f:
            f.write('Date,Open,High,Low,Close,Adj Close,Volume\n')
            for r in rows:
                cell = lambda x: '' if x is None else (str(x) if isinstance(x, int) and not isinstance(x, bool) else repr(float(x)))
                # the columns no answer depends on (High, Low, Volume) vary with the row: blank, zero, negative, large
                h = zlib.crc32(repr((sym, r)).encode())
                hi = ('1.0', '', '0', '250.5', '-1')[h % 5]
                lo = ('1.0', '0.0', '', '3')[(h >> 4) % 4]
                vol = ('100', '0', '', '123456789', '0.0', '-5', '100')[(h >> 8) % 7]
                f.write('%s,%s,%s,%s,%s,%s,%s\n' % (r[0], cell(r[1]), hi, lo, cell(r[2]), cell(r[3]), vol))


def parsed_rows(d, sym):
    """the file rows as pandas parses them, in file order: [day, open, close, adj] with None for NaN"""
    df = pd.read_csv(os.path.join(d, sym + '.csv'), index_col='Date', parse_dates=True)
    out = []
    for idx, o, c, a in zip(df.index, df['Open'], df['Close'], df['Adj Close']):
        vals = [None if math.isnan(float(v)) else float(v) for v in (o, c, a)]
        out.append([(idx.date() - EPOCH).days] + vals)
    return out


def gen_files(rng, syms, d0):
    files = {}
    prev_days = None
    same_span = rng.random() < 0.3
    for s in syms:
        n = rng.choice([1, 1, 2, 3, 5, 8, 13, 25, 40]) if rng.random() < 0.9 else rng.randint(1, 40)
        off = rng.choice([0, 0, 3, 10, 20])             # assets starting on different dates
        days = sorted(rng.sample(range(off, off + 70), min(n, 60)))
        if same_span and prev_days is not None and len(prev_days) >= 4:
            # the same first bar, last bar and number of bars as the previous asset, but other sessions missing in between
            inner = list(range(prev_days[0] + 1, prev_days[-1]))
            if len(inner) >= len(prev_days) - 2:
                days = sorted([prev_days[0], prev_days[-1]] + rng.sample(inner, len(prev_days) - 2))
        prev_days = days
        rows = []
        for k in days:
            miss = rng.random()
            o = round(rng.uniform(5, 300), rng.choice([2, 3, 6])) if miss > 0.12 else None
            c = round(rng.uniform(5, 300), rng.choice([2, 3, 6])) if rng.random() > 0.12 else None
            a = round((c or 50.0) * rng.choice([1, 1, 0.9, 0.5]), 6) if rng.random() > 0.12 else None
            rows.append([(d0 + dtm.timedelta(days=k)).isoformat(), o, c, a])
        form = rng.random()
        if form < 0.12:
            # whole-number opens written without a decimal point and never missing (the column parses as integers);
            # with form < 0.04 every price column is like that
            for r in rows:
                r[1] = int(round(r[1] if r[1] is not None else rng.uniform(5, 300)))
                if form < 0.04:
                    r[2] = int(round(r[2] if r[2] is not None else rng.uniform(5, 300)))
                    r[3] = int(round(r[3] if r[3] is not None else r[2]))
        elif form < 0.2 and len(rows) >= 3:
            # a one-bar spike (x3 or /3) that reverts on the next bar, and one that persists
            rows.sort(key=lambda r: r[0])
            k = rng.randrange(1, len(rows) - 1)
            f = rng.choice([3.0, 1 / 3.0, 5.0])
            for j in range(k, len(rows) if rng.random() < 0.4 else k + 1):
                rows[j] = [rows[j][0]] + [None if x is None else round(x * f, 4) for x in rows[j][1:]]
        if len(rows) >= 3 and rng.random() < 0.15:
            # a flat / pegged instrument: a later bar identical in every column to an earlier one (the dates differ)
            rows.sort(key=lambda r: r[0])
            i0 = rng.randrange(0, len(rows) - 1)
            j0 = i0 + 1 if rng.random() < 0.5 else rng.randrange(i0 + 1, len(rows))      # often the very next bar (a padded holiday)
            rows[j0] = [rows[j0][0]] + list(rows[i0][1:])
        if rows and rng.random() < 0.25:
            # a calendar that starts before the listing: leading rows whose price cells are all empty
            first = dtm.date.fromisoformat(min(r[0] for r in rows))
            for k in range(1, rng.randint(2, 6)):
                rows.append([(first - dtm.timedelta(days=k)).isoformat(), None, None, None])
        if rng.random() < 0.6:
            rng.shuffle(rows)
        files[s] = rows
    return files


def gen_case(rng):
    d0 = dtm.date(2015, 1, 1) + dtm.timedelta(days=rng.randrange(0, 2500))
    syms = (['AAA', 'BBB', 'CCC'] if rng.random() < 0.7 else ['BRK.B', 'BRK.A', 'BF.B'])[:rng.randint(1, 3)]     # tickers may contain dots
    files = gen_files(rng, syms, d0)
    files2 = None
    if rng.random() < 0.3:
        files2 = gen_files(rng, rng.sample(['AAA', 'BBB', 'ZZZ'], 2), d0)
    base = (d0 - EPOCH).days
    queries = []
    for s, rows in files.items():
        a = 'EQ:' + s
        days = sorted((dtm.date.fromisoformat(r[0]) - EPOCH).days for r in rows)
        for d in days:
            for t0 in (d * 86400 + OPEN, d * 86400 + CLOSE):
                if rng.random() < 0.7:
                    queries += [[t0 - 1, a], [t0, a], [t0 + 1, a]]
        if days:
            queries += [[days[0] * 86400 + OPEN - 86400, a], [days[0] * 86400, a], [days[-1] * 86400 + CLOSE + 5 * 86400, a],
                        [days[0] * 86400 + OPEN - 1, a]]
        else:
            queries += [[base * 86400 + OPEN, a]]
        for _ in range(4):
            queries.append([(base + rng.randrange(-5, 80)) * 86400 + rng.randrange(0, 86400), a])
    # time-major order, as a trading session asks: each instant for every asset in turn (assets have different calendars)
    times = sorted(set(q[0] for q in queries))
    for t in rng.sample(times, min(len(times), 40)):
        for s in files:
            queries.append([t, 'EQ:' + s])
    queries.append([base * 86400 + CLOSE, 'EQ:NOPE'])
    if files2:
        for s in files2:
            for _ in range(5):
                queries.append([(base + rng.randrange(0, 75)) * 86400 + rng.choice([OPEN, CLOSE, OPEN - 1, 80000]), 'EQ:' + s])
    # the same instants with a sub-second part (the answer is that of the whole second: rows sit on whole seconds), and expressed
    # in other time zones
    subsec = [(rng.choice([1, 400000000, 500000000, 600000000, 999999999, rng.randrange(1, 10 ** 9)]) if rng.random() < 0.2 else 0)
              for _ in queries]
    zones = [(rng.choice(['America/New_York', 'Asia/Tokyo', 'Europe/London']) if rng.random() < 0.1 else None) for _ in queries]
    return dict(adjust=rng.random() < 0.6, files=files, files2=files2, cut_day=base + rng.randrange(0, 70), queries=queries,
                subsec=subsec, zones=zones)


def val(x):
    """implementation result -> float | None (NaN) | {'error': ...}"""
    if isinstance(x, dict):
        return x
    x = float(x)
    return None if math.isnan(x) else x


def guarded(fn, *a):
    try:
        return val(fn(*a))
    except (KeyError, ValueError, IndexError, TypeError) as e:
        return {'error': type(e).__name__}


def expected_rows(parsed, adjust):
    """independent characterisation: the expanded (time, value) rows, value None when missing"""
    rows = []
    for day, o, c, a in parsed:
        if adjust:
            oo = None if (a is None or c is None or o is None) else float((np.float64(a) / np.float64(c)) * np.float64(o))
            cc = a
        else:
            oo, cc = o, c
        rows.append((day * 86400 + OPEN, oo))
        rows.append((day * 86400 + CLOSE, cc))
    return rows


def latest_observed(rows, t):
    best = None
    for (tt, v) in rows:
        if tt <= t and v is not None and (best is None or tt > best[0]):
            best = (tt, v)
    return None if best is None else best[1]


def execute(case):
    d1 = common.scratch_dir('k2a')
    dirs = [d1]
    try:
        write_csvs(case['files'], d1)
        srcs = [CSVDailyBarDataSource(d1, None, adjust_prices=case['adjust'])]
        parsed = [{('EQ:' + s): parsed_rows(d1, s) for s in case['files']}]
        if case.get('files2'):
            d2 = common.scratch_dir('k2b')
            dirs.append(d2)
            write_csvs(case['files2'], d2)
            srcs.append(CSVDailyBarDataSource(d2, None, adjust_prices=case['adjust']))
            parsed.append({('EQ:' + s): parsed_rows(d2, s) for s in case['files2']})
        dh = BacktestDataHandler(None, data_sources=srcs)
        # relational variants of the first source: rows sorted by date; rows after the cut day rewritten
        d3 = common.scratch_dir('k2c')
        dirs.append(d3)
        write_csvs({s: sorted(r, key=lambda x: x[0]) for s, r in case['files'].items()}, d3)
        src_sorted = CSVDailyBarDataSource(d3, None, adjust_prices=case['adjust'])
        d4 = common.scratch_dir('k2d')
        dirs.append(d4)
        cut_iso = (EPOCH + dtm.timedelta(days=case['cut_day'])).isoformat()
        future = {}
        for s, rows in case['files'].items():
            keep = [r for r in rows if r[0] <= cut_iso]
            later = [[r[0], 7.0, 9.0, 11.0] for r in rows if r[0] > cut_iso][::2]     # rewritten, some removed
            future[s] = later + keep
        write_csvs(future, d4)
        src_future = CSVDailyBarDataSource(d4, None, adjust_prices=case['adjust'])
        res = []
        import pandas as pd
        for qi, (t, a) in enumerate(case['queries']):
            T = ts(t)
            ns = (case.get('subsec') or [0] * (qi + 1))[qi] if qi < len(case.get('subsec') or []) else 0
            if ns:
                T = T + pd.Timedelta(ns, unit='ns')
            zn = (case.get('zones') or [None] * (qi + 1))[qi] if qi < len(case.get('zones') or []) else None
            if zn:
                T = T.tz_convert(zn)
            r = dict(bid=[guarded(s.get_bid, T, a) for s in srcs], ask=[guarded(s.get_ask, T, a) for s in srcs],
                     hbid=guarded(dh.get_asset_latest_bid_price, T, a), hask=guarded(dh.get_asset_latest_ask_price, T, a),
                     hmid=guarded(dh.get_asset_latest_mid_price, T, a))
            try:
                ba = dh.get_asset_latest_bid_ask_price(T, a)
                r['hba'] = [val(ba[0]), val(ba[1])]
            except Exception as e:
                r['hba'] = {'error': type(e).__name__}
            r['sorted'] = guarded(src_sorted.get_bid, T, a)
            r['future'] = guarded(src_future.get_bid, T, a) if t < (case['cut_day'] + 1) * 86400 else 'n/a'
            res.append(r)
        return dict(parsed=parsed, results=res)
    finally:
        for d in dirs:
            shutil.rmtree(d, ignore_errors=True)


def num_tok(x):
    return '-' if x is None else str(f2b(x))


def model_lines(case, real):
    lines = ['reset']
    for p in real['parsed']:
        toks = ['ds', '1' if case['adjust'] else '0', str(len(p))]
        for a, rows in p.items():
            toks += [a, str(len(rows))]
            for day, o, c, adj in rows:
                toks += [str(day), num_tok(o), num_tok(c), num_tok(adj)]
        lines.append(' '.join(toks))
    n_hdr = len(lines)
    for t, a in case['queries']:
        for i in range(len(real['parsed'])):
            lines.append('bid %d %d %s' % (i, t, a))
        lines.append('hbid %d %s' % (t, a))
        lines.append('hmid %d %s' % (t, a))
    return lines, n_hdr


def same(impl, m):
    """implementation value (float|None|error dict) vs model output"""
    if isinstance(impl, dict):
        return m.get('out') == impl['error']
    if m.get('out') != 'ok':
        return False
    if impl is None:
        return m.get('value') is None
    return m.get('value') is not None and f2b(impl) == m['value']


def show(m):
    if m.get('out') != 'ok':
        return m.get('out')
    return None if m.get('value') is None else b2f(m['value'])


def compare(case, real, outs, n_hdr, tally):
    mism = []
    k = n_hdr
    ns = len(real['parsed'])
    for (t, a), r in zip(case['queries'], real['results']):
        for i in range(ns):
            m = outs[k]
            k += 1
            tally.discrete += 2
            for side in ('bid', 'ask'):
                if not same(r[side][i], m):
                    mism.append(dict(what='source %d get_%s(%s, %s)' % (i, side, ts(t), a), impl=r[side][i], model=show(m)))
        mb, mm = outs[k], outs[k + 1]
        k += 2
        tally.discrete += 4
        for key in ('hbid', 'hask'):
            if not same(r[key], mb):
                mism.append(dict(what='handler %s(%s, %s)' % (key, ts(t), a), impl=r[key], model=show(mb)))
        if not same(r['hmid'], mm):
            mism.append(dict(what='handler mid(%s, %s)' % (ts(t), a), impl=r['hmid'], model=show(mm)))
        if isinstance(r['hba'], dict) or not (same(r['hba'][0], mb) and same(r['hba'][1], mb)):
            mism.append(dict(what='handler bid_ask(%s, %s)' % (ts(t), a), impl=r['hba'], model=show(mb)))
    return mism


def eqv(a, b):
    return a == b or (a is None and b is None)


def oracle_c06(case, real):
    out = []
    rows0 = {a: expected_rows(p, case['adjust']) for a, p in real['parsed'][0].items()}
    rows_all = [{a: expected_rows(p, case['adjust']) for a, p in src.items()} for src in real['parsed']]
    for (t, a), r in zip(case['queries'], real['results']):
        when = '%s %s' % (ts(t), a)
        if a in rows0:
            want = latest_observed(rows0[a], t)
            got = r['bid'][0]
            if isinstance(got, dict) or not eqv(got, want):
                anyrow = any(tt <= t for tt, v in rows0[a])
                key = 'before-first-bar' if not anyrow else 'lookup'
                out.append(dict(what='get_bid(%s) = %r; latest observation at or before it is %r' % (when, got, want), key=key))
            if isinstance(r['ask'][0], dict) or not eqv(r['ask'][0], got if not isinstance(got, dict) else None):
                out.append(dict(what='get_ask(%s) = %r differs from get_bid %r' % (when, r['ask'][0], got), key='ask-differs'))
            if not isinstance(got, dict):
                if isinstance(r['sorted'], dict) or not eqv(r['sorted'], got):
                    out.append(dict(what='row order matters at %s: file order %r, sorted file %r' % (when, got, r['sorted']), key='row-order'))
                if r['future'] != 'n/a' and (isinstance(r['future'], dict) or not eqv(r['future'], got)):
                    out.append(dict(what='later rows matter at %s: %r vs %r after rewriting rows dated after day %d' % (
                        when, got, r['future'], case['cut_day']), key='look-ahead'))
        # handler: first source with an observation
        wanth = None
        for src in rows_all:
            if a in src:
                v = latest_observed(src[a], t)
                if v is not None:
                    wanth = v
                    break
        for key in ('hbid', 'hask', 'hmid'):
            if isinstance(r[key], dict) or not eqv(r[key], wanth):
                out.append(dict(what='handler %s(%s) = %r, expected %r' % (key, when, r[key], wanth), key='handler'))
        if isinstance(r['hba'], dict) or not (eqv(r['hba'][0], wanth) and eqv(r['hba'][1], wanth)):
            out.append(dict(what='handler bid_ask(%s) = %r, expected %r' % (when, r['hba'], wanth), key='handler'))
    return out


def nontrivial(case, real):
    return any(len(r) >= 2 for r in case['files'].values())


def run(prop, tier, seed, n_cases, corpus=()):
    rng = rng_for(seed, 'K2', tier)
    cases = list(corpus) + [gen_case(rng) for _ in range(n_cases)]
    reals = [execute(c) for c in cases]
    lines, spans = [], []
    for c, r in zip(cases, reals):
        ls_, n_hdr = model_lines(c, r)
        spans.append((len(lines), len(ls_), n_hdr))
        lines += ls_
    outs_all = run_driver_json('k2', 'float', lines)
    tally, stats, hist = Tally(), collections.Counter(), collections.Counter()
    mism, oracle = [], []
    for i, (c, r) in enumerate(zip(cases, reals)):
        off, n, n_hdr = spans[i]
        for x in compare(c, r, outs_all[off:off + n], n_hdr, tally):
            x['case_index'] = i
            mism.append(x)
        for f in oracle_c06(c, r):
            f['case_index'] = i
            oracle.append(f)
        stats['queries'] += len(c['queries'])
        hist['adjust' if c['adjust'] else 'raw'] += 1
        if c.get('files2'):
            hist['two-sources'] += 1
        for (t, a), res in zip(c['queries'], r['results']):
            if res['bid'][0] is None:
                hist['query:nan'] += 1
            elif isinstance(res['bid'][0], dict):
                hist['query:unknown-asset'] += 1
            tod = t % 86400
            if tod in (OPEN, CLOSE):
                hist['query:exact-boundary'] += 1
            if (t // 86400 + 3) % 7 > 4:
                hist['query:weekend'] += 1
        for rows in c['files'].values():
            if any(x is None for r_ in rows for x in r_[1:]):
                hist['file:missing-cells'] += 1
            if rows != sorted(rows, key=lambda x: x[0]):
                hist['file:unsorted'] += 1
            if not rows:
                hist['file:empty'] += 1
    stats['cases'] = len(cases)
    stats['corpus_cases'] = len(corpus)
    return dict(cases=cases, reals=reals, mismatches=mism, oracle=oracle, stats=stats, tally=tally, hist=hist)
