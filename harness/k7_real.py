"""K7: run a whole BacktestTradingSession on a synthetic CSV market, with recording taps at the component interfaces.

Case (JSON):
 {"start": sec, "end": sec, "burn": sec|null, "rebalance": "buy_and_hold"|"daily"|"weekly"|"end_of_month", "weekday": "WED",
  "long_only": bool, "param": buffer|leverage, "fee": ["Z"]|["P", c, tau], "cash": x,
  "universe": {"static": [assets]} | {"dynamic": [[asset, entry|null], ...]},
  "alpha": {"fixed": [[asset, w], ...]} | {"single": s} | {"momentum": n} | {"invvol": n},
  "signals": [[kind, [lookbacks]], ...] | null, "adjust": bool,
  "market": {SYM: [[iso_date, open|null, close|null, adj|null], ...]}}
"""
import collections
import contextlib
import datetime as dtm
import hashlib
import json
import math
import os
import shutil
import tempfile
import warnings

warnings.filterwarnings('ignore')
import numpy as np
import pandas as pd

import common
from common import ts, ts_in, entry_ts, secs, f2b

from qstrader import settings
settings.set_print_events(False)
from qstrader.alpha_model.alpha_model import AlphaModel
from qstrader.alpha_model.fixed_signals import FixedSignalsAlphaModel
from qstrader.alpha_model.single_signal import SingleSignalAlphaModel
from qstrader.asset.universe.dynamic import DynamicUniverse
from qstrader.asset.universe.static import StaticUniverse
from qstrader.broker.fee_model.percent_fee_model import PercentFeeModel
from qstrader.broker.fee_model.zero_fee_model import ZeroFeeModel
from qstrader.data.backtest_data_handler import BacktestDataHandler
from qstrader.data.daily_bar_csv import CSVDailyBarDataSource
from qstrader.signals.momentum import MomentumSignal
from qstrader.signals.signals_collection import SignalsCollection
from qstrader.signals.sma import SMASignal
from qstrader.signals.vol import VolatilitySignal
from qstrader.trading.backtest import BacktestTradingSession

import logging
logging.disable(logging.CRITICAL)

import k2

EPOCH = dtm.date(1970, 1, 1)
SIG = dict(mom=MomentumSignal, sma=SMASignal, vol=VolatilitySignal)


class MomentumAlpha(AlphaModel):
    """weights from N-period momentum: the positive part for long-only sizing, the raw value otherwise"""

    def __init__(self, signals, universe, lookback, long_only, walk=None):
        self.signals, self.universe, self.lookback, self.long_only, self.walk = signals, universe, lookback, long_only, walk

    def __call__(self, dt):
        w = collections.OrderedDict()
        # with walk='signal' the weights come out in the order of the signal's own asset list (as the shipped momentum
        # examples do), which for assets admitted at one instant is not a run-independent order
        names = list(self.signals['s0'].assets) if self.walk == 'signal' else self.universe.get_assets(dt)
        for a in names:
            try:
                m = float(self.signals['s0'](a, self.lookback))
            except KeyError:
                m = 0.0
            if math.isnan(m):
                m = 0.0
            w[a] = max(m, 0.0) if self.long_only else m
        return w


class InvVolAlpha(AlphaModel):
    """inverse-volatility weights (0 while the volatility is 0 / unavailable)"""

    def __init__(self, signals, universe, lookback):
        self.signals, self.universe, self.lookback = signals, universe, lookback

    def __call__(self, dt):
        w = collections.OrderedDict()
        for a in self.universe.get_assets(dt):
            try:
                v = float(self.signals['s0'](a, self.lookback))
            except KeyError:
                v = 0.0
            w[a] = 1.0 / v if v > 0 and not math.isnan(v) else 0.0
        return w


class RecordingHandler(object):
    """Forwards to a BacktestDataHandler and logs every price read with the time of the event being processed."""

    def __init__(self, inner, clock):
        self._inner = inner
        self._clock = clock          # dict with 'now': current event time (sec) or None
        self.reads = []
        self.universe = inner.universe
        self.data_sources = inner.data_sources

    def _log(self, dt, asset, kind, value):
        try:
            v = float(value)
        except (TypeError, ValueError):
            v = float('nan')
        self.reads.append((self._clock.get('now'), secs(dt), asset, kind, v))

    def get_asset_latest_bid_price(self, dt, asset):
        r = self._inner.get_asset_latest_bid_price(dt, asset)
        self._log(dt, asset, 'bid', r)
        return r

    def get_asset_latest_ask_price(self, dt, asset):
        r = self._inner.get_asset_latest_ask_price(dt, asset)
        self._log(dt, asset, 'ask', r)
        return r

    def get_asset_latest_bid_ask_price(self, dt, asset):
        r = self._inner.get_asset_latest_bid_ask_price(dt, asset)
        self._log(dt, asset, 'bid_ask', r[0])
        return r

    def get_asset_latest_mid_price(self, dt, asset):
        r = self._inner.get_asset_latest_mid_price(dt, asset)
        self._log(dt, asset, 'mid', r)
        return r

    def get_assets_historical_range_close_price(self, *a, **k):
        return self._inner.get_assets_historical_range_close_price(*a, **k)

    def __getattr__(self, name):
        # anything else the data handler offers is the inner handler's (the wrapper adds recording, it hides nothing)
        return getattr(self._inner, name)


def make_universe(u):
    if 'static' in u:
        return StaticUniverse(list(u['static']))
    return DynamicUniverse(collections.OrderedDict((a, entry_ts(e, u.get('entry_tz'), u.get('nat'))) for a, e in u['dynamic']))


def fnum(x):
    return float(x)


def run_session(case, data_dir=None, data_source=None, keep=False, universe=None):
    """`_run_session` under the console-output switch the case asks for (`settings.PRINT_EVENTS`; off unless `loud`)"""
    if not case.get('loud'):
        return _run_session(case, data_dir, data_source, keep, universe)
    settings.set_print_events(True)
    try:
        with open(os.devnull, 'w') as sink, contextlib.redirect_stdout(sink):
            return _run_session(case, data_dir, data_source, keep, universe)
    finally:
        settings.set_print_events(False)


def _run_session(case, data_dir=None, data_source=None, keep=False, universe=None):
    """Returns a JSON-able record of one real backtest. `data_source`: reuse an existing CSVDailyBarDataSource."""
    own_dir = None
    if data_source is None:
        if data_dir is None:
            own_dir = data_dir = common.scratch_dir('k7')
            k2.write_csvs(case['market'], data_dir)
        data_source = CSVDailyBarDataSource(data_dir, None, adjust_prices=case.get('adjust', True),
                                            csv_symbols=sorted(case['market']))
    rec = dict(construct='ok', err=None, txns=[], allocs_tap=[], sizer=[], appends=[], updates=[], closes=[])
    try:
        uni = universe if universe is not None else make_universe(case['universe'])
        clock = {'now': None}
        dh = RecordingHandler(BacktestDataHandler(uni, data_sources=[data_source]), clock)
        signals = None
        if case.get('signals'):
            sigs = collections.OrderedDict(('s%d' % i, SIG[k](ts(case['start']), uni, list(lbs)))
                                           for i, (k, lbs) in enumerate(case['signals']))
            signals = SignalsCollection(sigs, dh)
            for name, s in sigs.items():
                def mk(name, s, orig):
                    def append(asset, price):
                        rec['appends'].append((clock['now'], name, asset, fnum(price)))
                        return orig(asset, price)
                    return append
                s.append = mk(name, s, s.append)
        al = case['alpha']
        if 'fixed' in al:
            alpha = FixedSignalsAlphaModel(collections.OrderedDict((a, w) for a, w in al['fixed']))
        elif 'single' in al:
            alpha = SingleSignalAlphaModel(uni, signal=al['single'])
        elif 'momentum' in al:
            alpha = MomentumAlpha(signals, uni, al['momentum'], case['long_only'], al.get('walk'))
        else:
            alpha = InvVolAlpha(signals, uni, al['invvol'])
        kw = {}
        if case['rebalance'] == 'weekly':
            kw['rebalance_weekday'] = case['weekday']
        if case['long_only']:
            kw['cash_buffer_percentage'] = case['param']
        else:
            kw['gross_leverage'] = case['param']
        fee = ZeroFeeModel() if case['fee'][0] == 'Z' else PercentFeeModel(commission_pct=case['fee'][1], tax_pct=case['fee'][2])
        try:
            t_start = ts(case['start'])
            if case.get('start_us'):
                import pandas as pd
                t_start = t_start + pd.Timedelta(microseconds=case['start_us'])
            if case.get('sibling'):
                # another session over the same dates was set up earlier in this process (a benchmark next to the strategy, say),
                # with its own cadence: a session is a function of its own configuration
                sk = dict(kw)
                sb = case['sibling']
                if sb.get('weekday'):
                    sk['rebalance_weekday'] = sb['weekday']
                else:
                    sk.pop('rebalance_weekday', None)
                try:
                    BacktestTradingSession(t_start, ts(case['end']), StaticUniverse(list(uni.get_assets(ts(case['end'])))),
                                           FixedSignalsAlphaModel({}), initial_cash=1000.0, rebalance=sb['rebalance'],
                                           long_only=case['long_only'], fee_model=fee, data_handler=dh, **sk)
                except Exception:
                    pass
            bt = BacktestTradingSession(t_start, ts(case['end']), uni, alpha, signals=signals,
                                        initial_cash=case['cash'], rebalance=case['rebalance'], long_only=case['long_only'],
                                        fee_model=fee, burn_in_dt=None if case.get('burn') is None else ts_in(case['burn'], case.get('burn_tz')),
                                        data_handler=dh, **kw)
        except (ValueError, KeyError, TypeError) as e:
            rec['construct'] = type(e).__name__
            return rec
        if case.get('reserve'):
            # a second, funded, cash-only portfolio at the same broker: account equity is the sum over portfolios
            bt.broker.subscribe_funds_to_account(case['reserve'])
            bt.broker.create_portfolio('RESERVE', 'reserve')
            bt.broker.subscribe_funds_to_portfolio('RESERVE', case['reserve'])
        rec['schedule'] = [secs(t) for t in bt.rebalance_schedule]
        rec['clock'] = [[secs(ev.ts), ev.event_type] for ev in bt.sim_engine]
        pf = bt.broker.portfolios[bt.portfolio_id]
        # --- taps -------------------------------------------------------------------------------
        orig_update = bt.broker.update

        def update(dt):
            if not rec['_in_qts']:
                clock['now'] = secs(dt)
            rec['updates'].append((clock['now'], secs(dt)))
            return orig_update(dt)
        rec['_in_qts'] = False
        bt.broker.update = update
        orig_t = pf.transact_asset

        def transact_asset(txn):
            rec['txns'].append(dict(event=clock['now'], time=secs(txn.dt), asset=txn.asset, qty=int(txn.quantity),
                                    price=fnum(txn.price), commission=fnum(txn.commission)))
            return orig_t(txn)
        pf.transact_asset = transact_asset
        pcm = bt.qts.portfolio_construction_model
        sizer = pcm.order_sizer

        class SizerTap(object):
            def __call__(self, dt, weights):
                r = dict(time=secs(dt), weights=[[a, fnum(w)] for a, w in weights.items()],
                         equity=fnum(bt.broker.get_portfolio_total_equity(bt.portfolio_id)), target=None)
                rec['sizer'].append(r)
                out = sizer(dt, weights)
                r['target'] = [[a, int(v['quantity'])] for a, v in out.items()]
                return out
        pcm.order_sizer = SizerTap()
        real_pcm = pcm
        real_qts = bt.qts

        class PcmProxy(object):
            """stands in for qts.portfolio_construction_model: forwards to the real PCM and records its inputs/outputs"""
            def __getattr__(self, name):
                return getattr(real_pcm, name)

            def __call__(self, dt, stats=None):
                held = [[a, int(v['quantity'])] for a, v in bt.broker.get_portfolio_as_dict(bt.portfolio_id).items()]
                n0 = len(stats['target_allocations']) if stats is not None else 0
                r = dict(time=secs(dt), held=held, universe=list(uni.get_assets(dt)), orders=None, alloc=None, alloc_time=None)
                rec['allocs_tap'].append(r)
                try:
                    orders = real_pcm(dt, stats=stats)
                finally:
                    if stats is not None and len(stats['target_allocations']) > n0:
                        last = stats['target_allocations'][-1]
                        r['alloc'] = [[k, fnum(v)] for k, v in last.items() if k != 'Date']
                        r['alloc_time'] = secs(last['Date'])
                r['orders'] = [[o.asset, int(o.quantity)] for o in orders]
                return orders
        real_qts.portfolio_construction_model = PcmProxy()

        class QtsProxy(object):
            def __getattr__(self, name):
                return getattr(real_qts, name)

            def __call__(self, dt, stats=None):
                rec['_in_qts'] = True
                try:
                    return real_qts(dt, stats=stats)
                finally:
                    rec['_in_qts'] = False
        bt.qts = QtsProxy()
        orig_eq = bt._update_equity_curve

        def update_equity_curve(dt):
            held = [[a, fnum(v['quantity'])] for a, v in bt.broker.get_portfolio_as_dict(bt.portfolio_id).items()]
            rec['closes'].append(dict(time=secs(dt), cash=fnum(pf.cash), held=held,
                                      broker_equity=fnum(bt.broker.get_account_total_equity()['master'])))
            return orig_eq(dt)
        bt._update_equity_curve = update_equity_curve
        # --- run --------------------------------------------------------------------------------
        try:
            bt.run()
        except (ValueError, KeyError, TypeError, ZeroDivisionError, AttributeError, IndexError) as e:
            rec['err'] = [clock['now'], type(e).__name__, str(e)[:120]]
        del rec['_in_qts']
        rec['reads'] = dh.reads
        rec['history'] = [dict(time=secs(h.dt), type=h.type, description=h.description.rsplit(' ', 2)[0] if h.type == 'asset_transaction' else h.description,
                               debit=fnum(h.debit), credit=fnum(h.credit), balance=fnum(h.balance)) for h in pf.history]
        rec['equity'] = [[secs(t), fnum(v)] for t, v in bt.equity_curve]
        rec['target_allocations'] = [[secs(d['Date']), [[k, fnum(v)] for k, v in d.items() if k != 'Date']] for d in bt.target_allocations]
        rec['cash'] = fnum(pf.cash)
        rec['hold'] = [[a, int(v['quantity'])] for a, v in pf.portfolio_to_dict().items()]
        rec['pending'] = [[o.asset, int(o.quantity)] for o in common.queued_orders(bt.broker.open_orders[bt.portfolio_id])]
        if rec['err'] is None:
            try:
                eqdf = bt.get_equity_curve()
                rec['equity_table'] = [[(d - EPOCH).days, fnum(v)] for d, v in zip(eqdf.index, eqdf['Equity'])]
            except Exception as e:
                rec['equity_table'] = {'error': type(e).__name__}
            try:
                adf = bt.get_target_allocations()
                rec['alloc_table'] = [[(d - EPOCH).days, [[c, (None if (isinstance(v, float) and math.isnan(v)) else fnum(v))]
                                                           for c, v in row.items()]] for d, row in adf.iterrows()]
            except Exception as e:
                rec['alloc_table'] = {'error': type(e).__name__}
        if signals is not None:
            rec['warmup'] = signals.warmup
            rec['signal_assets'] = {n: sorted(s.assets) for n, s in signals.signals.items()}
            rec['signal_buffers'] = {n: sorted((k, [fnum(x) for x in dq]) for k, dq in s.buffers.prices.items())
                                     for n, s in signals.signals.items()}
        rec['parsed'] = {('EQ:' + s): k2.parsed_rows(data_dir, s) for s in case['market']} if data_dir else None
        if keep:
            rec['_bt'] = bt
        return rec
    finally:
        if own_dir:
            shutil.rmtree(own_dir, ignore_errors=True)


def digest(rec, upto=None):
    """order-id-free digest of fills + equity + allocations (optionally only entries dated at or before `upto`)"""
    def keep(t):
        return upto is None or t <= upto
    body = dict(
        construct=rec['construct'],
        err=None if rec.get('err') is None or not keep(rec['err'][0] or 0) else rec['err'][:2],
        txns=[(t['time'], t['asset'], t['qty'], f2b(t['price']), f2b(t['commission'])) for t in rec.get('txns', []) if keep(t['time'])],
        hist=[(h['time'], h['type'], h['description'], f2b(h['debit']), f2b(h['credit']), f2b(h['balance'])) for h in rec.get('history', []) if keep(h['time'])],
        equity=[(t, f2b(v)) for t, v in rec.get('equity', []) if keep(t)],
        allocs=[(a['alloc_time'], [(k, f2b(v)) for k, v in a['alloc']]) for a in rec.get('allocs_tap', []) if a['alloc'] is not None and keep(a['alloc_time'])],
    )
    return hashlib.sha256(json.dumps(body, sort_keys=True).encode()).hexdigest(), body
