#!/venv/bin/python
"""Entry point of the qstrader verification machinery.

    check.py <Cxx> [--tier quick|thorough] [--replay <file>]

Exit 0: the property held on everything explored (known findings are listed, `KNOWN-FINDING: ...`).
Exit 1: `VIOLATION property=<id> replay=<path>` (ending in `no-failing-input-found` when a proof obligation or a
        correspondence no longer checks but no failing input was found on the implementation).
Exit 2: infrastructure failure or timeout (never prints VIOLATION).
"""
import argparse
import json
import os
import sys
import time
import traceback

HERE = os.path.dirname(os.path.abspath(__file__))
sys.path.insert(0, os.path.join(HERE, 'harness'))
os.chdir(HERE)

import common  # noqa: E402
import lean_audit  # noqa: E402


def main():
    ap = argparse.ArgumentParser()
    ap.add_argument('prop')
    ap.add_argument('--tier', default=os.environ.get('VERIF_TIER', 'quick'), choices=['quick', 'thorough'])
    ap.add_argument('--replay', default=None)
    args = ap.parse_args()
    prop = args.prop
    seed = common.seed_from_env()
    t0 = time.time()
    try:
        import registry
        if prop not in registry.PROPS:
            print('unknown or unclaimed property %s' % prop)
            return 2
        adapter = registry.PROPS[prop]()
        if args.replay:
            return do_replay(prop, adapter, args.replay)
        return do_check(prop, adapter, args.tier, seed, t0)
    except common.Infra as e:
        print('INFRASTRUCTURE: %s' % e)
        return 2
    except Exception:
        traceback.print_exc()
        print('INFRASTRUCTURE: unexpected exception in the checker')
        return 2


def match_known(prop, finding, known):
    for k in known['finding']:
        if k.get('property') == prop and k.get('key') == finding.get('key'):
            return k
    return None


def do_replay(prop, adapter, path):
    payload = json.load(open(path))
    res = adapter.replay(prop, payload)
    for f in res.get('findings', []):
        print('REPLAY-FINDING property=%s %s' % (prop, f['what']))
    for m in res.get('mismatches', []):
        print('REPLAY-DIVERGENCE property=%s %s' % (prop, json.dumps(common.jsonable(m))[:400]))
    if res.get('findings') or res.get('mismatches'):
        print('VIOLATION property=%s replay=%s' % (prop, path))
        return 1
    print('replay: no violation on the current tree')
    return 0


def do_check(prop, adapter, tier, seed, t0):
    known = common.load_known_findings()
    # 1. Lean obligations
    audit = lean_audit.audit(prop, tier)
    harvested = common.harvest(prop)
    # 2./3. correspondence + oracles on corpus and generated cases
    res, rerolls = None, 0
    for k in range(3):
        try:
            res = adapter.run(prop, tier, seed + 104729 * k)
            break
        except common.Infra as e:
            # an input class the run is required to cover did not come up under this seed: draw again (recorded in the evidence)
            if 'generator missed' not in str(e) or k == 2:
                raise
            rerolls += 1
    findings = res.get('findings', [])          # failing inputs on the implementation (oracle)
    mismatches = res.get('mismatches', [])      # implementation vs model divergences
    violations = []
    known_hits = []
    for f in findings:
        k = match_known(prop, f, known)
        if k is not None:
            known_hits.append((k, f))
        else:
            violations.append(f)
    # regression witnesses of fixed defects and known-finding witnesses are part of adapter.run's corpus
    lines = []
    seen_known = set()
    for k, f in known_hits:
        if k['raw'] in seen_known:
            continue
        seen_known.add(k['raw'])
        lines.append('KNOWN-FINDING: property=%s %s' % (prop, k['text'].split(None, 2)[-1] if k['text'] else f['what']))
    # known findings that were NOT re-demonstrated are reported too (information only)
    exit_code = 0
    if violations:
        f = adapter.shrink(prop, violations[0]) if hasattr(adapter, 'shrink') else violations[0]
        replay = common.write_replay(prop, dict(property=prop, kind='failing-input', verdict=f['what'], key=f.get('key'),
                                                case=f.get('case'), detail=f, harness=res.get('harness'),
                                                replay_cmd='/venv/bin/python check.py %s --replay <this file>' % prop,
                                                other_failures=[x['what'] for x in violations[1:6]]))
        lines.append('VIOLATION property=%s replay=%s' % (prop, replay))
        exit_code = 1
    elif mismatches or not audit['ok']:
        # a broken obligation or correspondence is not by itself a violation: search for a failing input
        found = adapter.search(prop, tier, seed, mismatches) if hasattr(adapter, 'search') else []
        found = [f for f in found if match_known(prop, f, known) is None]
        if found:
            f = found[0]
            replay = common.write_replay(prop, dict(property=prop, kind='failing-input', verdict=f['what'], key=f.get('key'),
                                                    case=f.get('case'), detail=f, harness=res.get('harness'),
                                                    triggered_by='correspondence divergence' if mismatches else 'proof obligation'))
            lines.append('VIOLATION property=%s replay=%s' % (prop, replay))
        else:
            what = {}
            if not audit['ok']:
                what['unchecked_theorems'] = audit['failed']
                what['lean_log'] = audit.get('log', '')[-3000:]
            if mismatches:
                what['correspondence'] = dict(harness=res.get('harness'), divergences=len(mismatches),
                                              first=mismatches[:3])
            what['search'] = res.get('search_note', 'oracle run on every generated and corpus case, and on the fresh '
                                                    'boundary-biased inputs of the witness search: no failing input')
            replay = common.write_replay(prop, dict(property=prop, kind='no-failing-input-found', **what))
            lines.append('VIOLATION property=%s replay=%s no-failing-input-found' % (prop, replay))
        exit_code = 1
    cov = dict(obligations=audit['obligations'], discharged=audit['discharged'], checker_cmd=audit['checker_cmd'],
               trusted_base=audit['trusted_base'], theorems=audit['theorems'], axioms=audit['axioms'])
    cov.update(res.get('coverage', {}))
    cov['generator_redraws_for_required_classes'] = rerolls
    cov['constants_harvested_from_changed_source'] = [float(c) for c in harvested]
    if audit.get('structural_tie') is not None:
        cov['structural_tie'] = audit['structural_tie']
    cov['correspondence_divergences'] = len(mismatches)
    cov['oracle_failures'] = len(findings)
    cov['known_findings_redemonstrated'] = len(seen_known)
    common.write_evidence(prop, tier, seed, cov, res.get('assumptions', []) + audit['assumptions'], time.time() - t0,
                          1 if exit_code else 0)
    for l in lines:
        print(l)
    print('%s tier=%s seed=%s obligations=%d/%d evaluations=%s divergences=%d oracle_failures=%d wall=%.1fs -> exit %d' % (
        prop, tier, seed, audit['discharged'], audit['obligations'], cov.get('evaluations'), len(mismatches), len(findings),
        time.time() - t0, exit_code))
    return exit_code


if __name__ == '__main__':
    sys.exit(main())
